#!/usr/bin/env python3
"""Generates /verif/MANIFEST.json from the table below (kept valid at all times)."""
import json, os
ROOT = os.path.dirname(os.path.dirname(os.path.abspath(__file__)))
ALL = ["C%02d" % i for i in range(1, 21)]
BASE = json.load(open('/root/.vp/BASELINE.json'))['cmd'] if os.path.exists('/root/.vp/BASELINE.json') else ''

# id -> (engine, technique, level text, level note, design ref)
CHECKS = {}
def add(id_, engine, technique, text, note, ref):
    CHECKS[id_] = dict(engine=engine, technique=technique, text=text, note=note, ref=ref)

exec(open(os.path.join(ROOT, 'tools', 'checks_table.py')).read())

NA_REASON = "check not built yet in this session (work in progress; the design in DESIGN.md section 3 applies) — not claimed until its explorer is green on the tree and has caught a deliberate breakage"
m = {
    "version": 1,
    "setup_cmd": "./check --setup",
    "hooks": {
        "guard": "verif",
        "enable": "go build -tags verif (plus a generated -overlay for the scheduler-instrumented builds of C13/C14); see ./check",
        "baseline_off_cmd": "cd /repo && GOFLAGS=-mod=mod GOPROXY=off GOSUMDB=off GOTOOLCHAIN=local go test -json -vet=off -count=1 -timeout 25m ./...",
        "source_commits": json.load(open(os.path.join(ROOT, 'tools', 'hook_commits.json'))),
        "add_only": True,
    },
    "engines": [
        {"name": "E1", "path": "internal/enum", "serves_properties": [k for k, v in CHECKS.items() if 'E1' in v['engine']], "kind_free_text": "bounded-exhaustive input enumeration (prefix tree over an atom alphabet / grammar-generated structures) executed on the real code against a reference model"},
        {"name": "E2", "path": "props/modedit", "serves_properties": [k for k, v in CHECKS.items() if 'E2' in v['engine']], "kind_free_text": "explicit-state BFS over real modfile API call sequences, canonical-state deduplication, invariants and differential oracle in every state"},
        {"name": "E3", "path": "internal/world + internal/opsenv", "serves_properties": [k for k, v in CHECKS.items() if 'E3' in v['engine']], "kind_free_text": "deviation-bounded enumeration of environment answers (fault plans over named resources) around the real client / tile reader"},
        {"name": "E4", "path": "sched + tools/instrument", "serves_properties": [k for k, v in CHECKS.items() if 'E4' in v['engine']], "kind_free_text": "controlled cooperative scheduler injected by go build -overlay; stateless DFS over interleavings with iterative preemption bounding"},
    ],
    "checks": [],
    "not_applicable": [],
    "notes": "All checks are bounded exhaustive exploration of the real Go code (no abstract model); see DESIGN.md. Known findings: known_findings.txt.",
}
for id_ in ALL:
    if id_ in CHECKS:
        c = CHECKS[id_]
        m["checks"].append({
            "property_id": id_,
            "quick_cmd": "./check %s quick" % id_,
            "thorough_cmd": "./check %s thorough" % id_,
            "evidence_file": "evidence/%s.json" % id_,
            "replay_cmd_template": "./check %s --replay {path}" % id_,
            "engine": c['engine'],
            "level_claimed": {"category": "model_checking", "text": c['text'], "design_ref": c['ref']},
            "level_note": c['note'],
            "technique": c['technique'],
        })
    else:
        m["not_applicable"].append({"property_id": id_, "reason": NA_REASON})
json.dump(m, open(os.path.join(ROOT, 'MANIFEST.json'), 'w'), indent=1)
print("claimed:", sorted(CHECKS), "not yet:", [x['property_id'] for x in m['not_applicable']])
