#!/usr/bin/env python3
"""tools/seedtask.py <round-dir> <ID> : write <round-dir>/<ID>/TASK.md, the complete brief of a sub-agent that
writes an independent property-breaking change. The brief contains only the property text, which files to
touch, how to verify, and one-line descriptions of earlier accepted changes (to steer away from repeats) -
nothing about /verif's checks."""
import json, os, sys
rd, pid = sys.argv[1], sys.argv[2]
P = {}
for l in open('/verif/properties.jsonl'):
    p = json.loads(l); P[p['id']] = p
T = {  # files, demo package, demo dir, test commands
 'C01': ('sumdb/client.go, sumdb/cache.go, sumdb/tlog/*.go or sumdb/note/note.go', 'sumdb', 'sumdb', 'go vet ./sumdb/... ; go test -count=1 -short ./sumdb/...'),
 'C13': ('sumdb/client.go', 'sumdb', 'sumdb', 'go vet ./sumdb/... ; go test -count=1 -short ./sumdb/...'),
 'C14': ('sumdb/client.go or sumdb/cache.go', 'sumdb', 'sumdb', 'go vet ./sumdb/... ; go test -count=1 -short ./sumdb/... ; go test -race -count=1 -short ./sumdb/'),
 'C03': ('sumdb/tlog/tlog.go', 'tlog', 'sumdb/tlog', 'go vet ./sumdb/tlog/ ; go test -count=1 -short ./sumdb/...'),
 'C09': ('sumdb/tlog/tlog.go or sumdb/tlog/note.go', 'tlog', 'sumdb/tlog', 'go vet ./sumdb/tlog/ ; go test -count=1 -short ./sumdb/...'),
 'C10': ('sumdb/tlog/tile.go', 'tlog', 'sumdb/tlog', 'go vet ./sumdb/tlog/ ; go test -count=1 -short ./sumdb/...'),
 'C07': ('sumdb/note/note.go', 'note', 'sumdb/note', 'go vet ./sumdb/note/ ; go test -count=1 ./sumdb/note/ ./sumdb/ -short'),
 'C19': ('sumdb/dirhash/hash.go', 'dirhash', 'sumdb/dirhash', 'go vet ./sumdb/dirhash/ ; go test -count=1 ./sumdb/dirhash/ ; go test -count=1 -skip TestVCS ./zip/'),
 'C04': ('semver/semver.go', 'semver', 'semver', 'go vet ./semver/ ; go test -count=1 ./semver/ ./module/ ./modfile/'),
 'C06': ('module/module.go (not the escaping functions)', 'module', 'module', 'go vet ./module/ ; go test -count=1 ./module/ ./modfile/ ; go test -count=1 -skip TestVCS ./zip/'),
 'C11': ('module/module.go (escaping functions only)', 'module', 'module', 'go vet ./module/ ; go test -count=1 ./module/ ./sumdb/ -short'),
 'C18': ('module/pseudo.go', 'module', 'module', 'go vet ./module/ ; go test -count=1 ./module/ ./modfile/'),
 'C05': ('zip/zip.go', 'zip_test or zip', 'zip', 'go vet ./zip/ ; go test -count=1 -skip TestVCS ./zip/'),
 'C12': ('zip/zip.go', 'zip_test or zip', 'zip', 'go vet ./zip/ ; go test -count=1 -skip TestVCS ./zip/'),
 'C17': ('zip/zip.go', 'zip_test or zip', 'zip', 'go vet ./zip/ ; go test -count=1 -skip TestVCS ./zip/'),
 'C02': ('modfile/print.go, modfile/read.go, modfile/rule.go or modfile/work.go', 'modfile', 'modfile', 'go vet ./modfile/ ; go test -count=1 ./modfile/'),
 'C08': ('modfile/rule.go, modfile/work.go or modfile/read.go', 'modfile', 'modfile', 'go vet ./modfile/ ; go test -count=1 ./modfile/'),
 'C15': ('modfile/rule.go, modfile/work.go or modfile/read.go', 'modfile', 'modfile', 'go vet ./modfile/ ; go test -count=1 ./modfile/'),
 'C16': ('modfile/rule.go or modfile/work.go', 'modfile', 'modfile', 'go vet ./modfile/ ; go test -count=1 ./modfile/'),
 'C20': ('modfile/read.go, modfile/rule.go or modfile/work.go', 'modfile', 'modfile', 'go vet ./modfile/ ; go test -count=1 ./modfile/'),
}
files, pkg, ddir, tests = T[pid]
p = P[pid]
prior = []
sd = '/verif/seeded'
for n in sorted(os.listdir(sd)):
    if n.startswith(pid + '-') and os.path.exists(f'{sd}/{n}/meta.json'):
        m = json.load(open(f'{sd}/{n}/meta.json'))
        first = m.get('change', '').split('\n')[0].lstrip('# ').strip()
        prior.append(f"- {first}  (needed: {m.get('needs_to_manifest','')[:220]})")
w = f'{rd}/{pid}'
txt = f"""# Task

You are working in a scratch git worktree of the Go library golang.org/x/mod at {w} (detached HEAD).
Work ONLY inside {w}. Do not read or touch /repo, /verif or any other directory. Every shell command needs:
`export GOFLAGS=-mod=mod GOPROXY=off GOSUMDB=off GOTOOLCHAIN=local` (there is no network).

Produce ONE realistic source change to {files} (non-test files only; a plausible bug from a refactor, a
clean-up or an "optimisation" - not sabotage, not a comment/doc change) that BREAKS the property below while
(a) `go build ./...` and `{tests.split(' ; ')[0]}` pass and (b) the package's own tests still pass:
`{' ; '.join(tests.split(' ; ')[1:])}` (network tests such as TestCertificateTransparency / TestVCS may be skipped).

The change must need something SPECIFIC to manifest, so that neither the package's tests nor a quick
hand-written test would stumble on it. Think like an adversary of a verification harness that enumerates
small inputs exhaustively: prefer bugs that only show for an unusual but legitimate shape - a rarely used
character or token, a long or deeply nested input, a particular numeric boundary or constant, an unusual
combination of two features, state left behind by an earlier call or an earlier failure, a particular order
of operations or interleaving - while behaving identically everywhere else.

## Property ({pid}) "{p['title']}"

{p['statement']}

Quantified over: {p['quantifier']['text']}

## Already taken (do NOT repeat these or close variants; pick a different function / a different kind of mistake)

{chr(10).join(prior) if prior else '(none)'}

## Deliverables, in {w}/seed/

- `patch.diff`: `git diff` against HEAD, non-test files only, applies with `git apply` at the worktree root.
- `demo_test.go`: package {pkg}, to be copied into `{ddir}/`; it FAILS with the change and PASSES without it,
  deterministically (for a concurrency bug force the interleaving, e.g. with a ClientOps whose methods block on channels).
- `NOTES.md`: what the change is, why the package's tests miss it, exactly what it needs to manifest, the
  commands you ran and their results in both directions.

Do NOT use `git stash` (the stash is shared between worktrees and other people work in sibling worktrees): to go
back and forth use `git diff > seed/patch.diff`, `git checkout -- .` and `git apply seed/patch.diff`.

Verify both directions yourself. At the end leave tracked files UNCHANGED (`git checkout -- .`, remove copied demo
files): only the untracked `seed/` directory may remain. Reply with a 5-line summary.
"""
os.makedirs(w, exist_ok=True)
open(f'{w}/TASK.md', 'w').write(txt)
print(w + '/TASK.md', len(txt))
