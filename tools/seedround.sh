#!/bin/sh
# tools/seedround.sh <round-dir> [ID ...] : run tools/seedcheck.sh for every <round-dir>/<ID>/seed
set -u
RD=$1; shift
IDS="$*"; [ -z "$IDS" ] && IDS=$(ls "$RD" | grep '^C[0-9]*$')
cd "$(dirname "$0")/.."
for ID in $IDS; do
  [ -f "$RD/$ID/seed/patch.diff" ] || { echo "=== $ID: no seed yet"; continue; }
  case $ID in
    C01|C13|C14) PKG=sumdb;; C03|C09|C10) PKG=sumdb/tlog;; C07) PKG=sumdb/note;; C19) PKG=sumdb/dirhash;;
    C04) PKG=semver;; C06|C11|C18) PKG=module;; C05|C12|C17) PKG=zip;; *) PKG=modfile;;
  esac
  echo "=== $ID"
  tools/seedcheck.sh "$RD/$ID/seed" $PKG $ID 2>&1 | cut -c1-360
done
