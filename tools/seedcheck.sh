#!/bin/sh
# tools/seedcheck.sh <seed-dir> <pkg-for-demo> <ID> [<ID>...]
# Confirms an independently written property-breaking change (seed-dir: patch.diff + demo_test.go):
#   1. in a scratch worktree of /repo: the change applies, builds, the repository's tests for the touched
#      packages still pass, the demonstration fails with the change and passes without it;
#   2. applies the change to /repo, runs the quick checks <ID>..., and restores /repo.
# Prints one line per step. Scratch worktree is removed afterwards.
set -u
SEED=$(readlink -f "$1"); PKG=$2; shift 2
export GOFLAGS=-mod=mod GOPROXY=off GOSUMDB=off GOTOOLCHAIN=local
cd "$(dirname "$0")/.." || exit 2
W=$(mktemp -d /tmp/seedcheck.XXXXXX)
git -C /repo worktree add -q --detach "$W/wt" HEAD || exit 2
trap 'git -C /repo worktree remove --force "$W/wt" 2>/dev/null; rm -rf "$W"' EXIT INT TERM
cd "$W/wt"
PKGS=$(grep '^+++ ' "$SEED/patch.diff" | sed 's#^+++ [ab]/##; s#\t.*##' | xargs -n1 dirname | sort -u | sed 's#^#./#')
DEMO=$(ls "$SEED"/*_test.go 2>/dev/null | head -1)
RUNPAT=$(grep -ho '^func Test[A-Za-z0-9_]*' "$SEED"/*_test.go | sed 's/^func //' | paste -sd'|')
cp "$SEED"/*_test.go "$PKG/" 2>/dev/null
if go test -count=1 -run "^($RUNPAT)\$" "./$PKG" > "$W/demo-without.log" 2>&1; then echo "demo without change: PASS (expected)"; else echo "demo without change: FAIL (unexpected)"; tail -5 "$W/demo-without.log"; fi
git apply "$SEED/patch.diff" || { echo "patch does not apply"; exit 1; }
if go build ./... > "$W/build.log" 2>&1; then echo "build with change: ok"; else echo "build with change: FAILS"; cat "$W/build.log"; fi
if go test -count=1 -run "^($RUNPAT)\$" "./$PKG" > "$W/demo-with.log" 2>&1; then echo "demo with change: PASS (unexpected)"; else echo "demo with change: FAIL (expected)"; fi
rm -f "$PKG"/$(basename "$DEMO")
for f in "$SEED"/*_test.go; do rm -f "$PKG/$(basename "$f")"; done
if go test -count=1 -skip 'TestCertificateTransparency|TestVCS' $PKGS > "$W/tests.log" 2>&1; then echo "repository tests with change ($PKGS): pass"; else echo "repository tests with change: FAIL"; tail -8 "$W/tests.log"; fi
cd /verif
# the checks see the change through a build overlay (same mechanism as mutants/try.sh); /repo is not edited,
# so other runs using /repo at the same time are not disturbed. APPLY=1 uses git apply on /repo instead.
for ID in "$@"; do
  if [ "${APPLY:-0}" = 1 ]; then
    git -C /repo apply "$SEED/patch.diff" || { echo "cannot apply to /repo"; exit 1; }
    OUT=$(VERIF_OUT="$W/out" ./check "$ID" quick 2>&1)
    git -C /repo checkout -q -- .
  else
    OUT=$(./mutants/try.sh "$SEED/patch.diff" "$ID" quick 2>&1)
  fi
  N=$(echo "$OUT" | grep -c '^VIOLATION')
  echo "check $ID on the changed tree: $N violating cases; $(echo "$OUT" | grep -A2 '^VIOLATION' | sed -n 2,3p | tr '\n' ' ' | cut -c1-300)"
done
git -C /repo status --short | head -3
