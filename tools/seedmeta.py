#!/usr/bin/env python3
"""tools/seedmeta.py <name> <property> <demo_pkg> <needs> <caught_by> [<strengthened>]
Writes /verif/seeded/<name>/meta.json for a confirmed seeded change."""
import json, sys, os
name, prop, pkg, needs, caught = sys.argv[1:6]
strengthened = sys.argv[6] if len(sys.argv) > 6 else ""
d = '/verif/seeded/' + name
demo = [f for f in os.listdir(d) if f.endswith('_test.go.txt')]
meta = {
  "property": prop,
  "origin": "written by an independent sub-agent that saw only the property text and a scratch worktree of /repo (nothing from /verif)",
  "change": open(os.path.join(d, 'AUTHOR-NOTES.md')).read().split('\n\n')[0][:1200] if os.path.exists(os.path.join(d, 'AUTHOR-NOTES.md')) else "",
  "needs_to_manifest": needs,
  "demonstration": {"files": demo, "how": "copy the demo file (without the .txt suffix) into %s/ of a worktree, go test -run of its Test functions: passes on HEAD, fails with patch.diff applied" % pkg},
  "confirmed_by_me": [
    "tools/seedcheck.sh <seed> %s <checks>: in a scratch worktree of /repo (removed afterwards) the patch applies, go build ./... succeeds, the repository's tests of the touched packages pass with the change (network tests skipped), the demonstration passes without and fails with the change" % pkg,
    "the quick checks were run against the change through a build overlay (same effect as git -C /repo apply; /repo untouched)"
  ],
  "caught_by": caught,
}
if strengthened:
  meta["check_strengthened"] = strengthened
json.dump(meta, open(os.path.join(d, 'meta.json'), 'w'), indent=1)
print(d, "ok")
