// instrument generates a `go build -overlay` file that (1) replaces every non-test file of
// package golang.org/x/mod/sumdb by a copy whose "sync" and "sync/atomic" imports point to
// the verification shims and whose go statements start managed goroutines, and (2) adds the
// virtual packages golang.org/x/mod/verifsched[/sync,/atomic] from /verif/sched.
// /repo is never written. An existing overlay (deliberately broken variants) is honoured.
package main

import (
	"bytes"
	"encoding/json"
	"flag"
	"fmt"
	"go/ast"
	"go/format"
	"go/parser"
	"go/token"
	"os"
	"path/filepath"
	"reflect"
	"strconv"
	"strings"
)

type overlay struct {
	Replace map[string]string
}

func main() {
	repo := flag.String("repo", "/repo", "repository root")
	verif := flag.String("verif", "/verif", "verification root (holds sched/)")
	out := flag.String("out", "", "output directory for rewritten files and overlay.json")
	in := flag.String("overlay", "", "existing overlay to layer on")
	flag.Parse()
	if *out == "" {
		fmt.Fprintln(os.Stderr, "usage: instrument -out dir [-overlay file]")
		os.Exit(2)
	}
	ov := overlay{Replace: map[string]string{}}
	if *in != "" {
		b, err := os.ReadFile(*in)
		if err != nil {
			fatal(err)
		}
		if err := json.Unmarshal(b, &ov); err != nil {
			fatal(err)
		}
	}
	os.MkdirAll(*out, 0o755)
	pkgDir := filepath.Join(*repo, "sumdb")
	ents, err := os.ReadDir(pkgDir)
	if err != nil {
		fatal(err)
	}
	nGo, nImp := 0, 0
	var unsupported []string
	for _, e := range ents {
		name := e.Name()
		if e.IsDir() || !strings.HasSuffix(name, ".go") || strings.HasSuffix(name, "_test.go") {
			continue
		}
		orig := filepath.Join(pkgDir, name)
		src := orig
		if r, ok := ov.Replace[orig]; ok {
			src = r
		}
		data, err := os.ReadFile(src)
		if err != nil {
			fatal(err)
		}
		res, g, i, err := rewrite(name, data)
		if err != nil {
			fatal(err)
		}
		unsupported = append(unsupported, findUnsupported(name, data)...)
		nGo += g
		nImp += i
		dst := filepath.Join(*out, "sumdb_"+name)
		if err := os.WriteFile(dst, res, 0o644); err != nil {
			fatal(err)
		}
		ov.Replace[orig] = dst
	}
	// virtual scheduler packages
	schedRoot := filepath.Join(*verif, "sched", "verifsched")
	filepath.Walk(schedRoot, func(p string, info os.FileInfo, err error) error {
		if err != nil || info.IsDir() || !strings.HasSuffix(p, ".go") {
			return nil
		}
		rel, _ := filepath.Rel(filepath.Join(*verif, "sched"), p)
		ov.Replace[filepath.Join(*repo, rel)] = p
		return nil
	})
	b, _ := json.MarshalIndent(ov, "", " ")
	if err := os.WriteFile(filepath.Join(*out, "overlay.json"), b, 0o644); err != nil {
		fatal(err)
	}
	fmt.Printf("instrumented package sumdb: %d imports redirected, %d go statements rewritten\n", nImp, nGo)
	// Constructs the cooperative scheduler cannot intercept by rewriting imports and go statements
	// (a goroutine blocked in one of them would hold the scheduler's single running slot forever).
	// They are reported to the caller, which then skips the controlled exploration instead of hanging.
	if len(unsupported) > 0 {
		os.WriteFile(filepath.Join(*out, "unsupported.txt"), []byte(strings.Join(unsupported, "\n")+"\n"), 0o644)
		fmt.Printf("instrument: %d construct(s) outside the scheduler's model:\n%s\n", len(unsupported), strings.Join(unsupported, "\n"))
	}
}

// findUnsupported lists channel operations, select statements and timers in one source file.
func findUnsupported(name string, src []byte) []string {
	fset := token.NewFileSet()
	f, err := parser.ParseFile(fset, name, src, 0)
	if err != nil {
		return nil
	}
	var out []string
	add := func(n ast.Node, what string) {
		out = append(out, fmt.Sprintf("sumdb/%s:%d: %s", name, fset.Position(n.Pos()).Line, what))
	}
	ast.Inspect(f, func(n ast.Node) bool {
		switch x := n.(type) {
		case *ast.SelectStmt:
			add(x, "select statement")
		case *ast.CallExpr:
			if sel, ok := x.Fun.(*ast.SelectorExpr); ok {
				if id, ok := sel.X.(*ast.Ident); ok && id.Name == "time" {
					switch sel.Sel.Name {
					case "Sleep", "After", "AfterFunc", "NewTimer", "NewTicker", "Tick":
						add(x, "time."+sel.Sel.Name)
					}
				}
			}
		}
		return true
	})
	return out
}

// rewriteChans replaces channel types and operations by the scheduler's channel model
// (verifsched.Chan): chan T, make(chan T[, n]), c <- v, <-c, v, ok := <-c and close(c).
// It works on syntax alone; len, cap and range over a channel are not rewritten (the instrumented
// build then fails to compile and the caller skips the controlled exploration).
func rewriteChans(f *ast.File) int {
	n := 0
	sel := func(name string) ast.Expr {
		return &ast.SelectorExpr{X: ast.NewIdent("verifsched"), Sel: ast.NewIdent(name)}
	}
	method := func(x ast.Expr, name string, args ...ast.Expr) *ast.CallExpr {
		return &ast.CallExpr{Fun: &ast.SelectorExpr{X: &ast.ParenExpr{X: x}, Sel: ast.NewIdent(name)}, Args: args}
	}
	var expr func(e ast.Expr) ast.Expr
	expr = func(e ast.Expr) ast.Expr {
		switch x := e.(type) {
		case *ast.ChanType:
			n++
			return &ast.StarExpr{X: &ast.IndexExpr{X: sel("Chan"), Index: x.Value}}
		case *ast.CallExpr:
			if id, ok := x.Fun.(*ast.Ident); ok {
				if id.Name == "make" && len(x.Args) >= 1 {
					if st, ok := x.Args[0].(*ast.StarExpr); ok { // already rewritten (post-order)
						if ix, ok := st.X.(*ast.IndexExpr); ok {
							if s2, ok := ix.X.(*ast.SelectorExpr); ok && s2.Sel.Name == "Chan" {
								var size ast.Expr = &ast.BasicLit{Kind: token.INT, Value: "0"}
								if len(x.Args) > 1 {
									size = x.Args[1]
								}
								return &ast.CallExpr{Fun: &ast.IndexExpr{X: sel("MakeChan"), Index: ix.Index}, Args: []ast.Expr{size}}
							}
						}
					}
				}
				if id.Name == "close" && len(x.Args) == 1 {
					n++
					return &ast.CallExpr{Fun: sel("CloseChan"), Args: x.Args}
				}
			}
		case *ast.UnaryExpr:
			if x.Op == token.ARROW {
				n++
				return method(x.X, "Recv")
			}
		}
		return e
	}
	stmt := func(s ast.Stmt) ast.Stmt {
		switch x := s.(type) {
		case *ast.SendStmt:
			n++
			return &ast.ExprStmt{X: method(x.Chan, "Send", x.Value)}
		case *ast.AssignStmt:
			if len(x.Lhs) == 2 && len(x.Rhs) == 1 {
				if c, ok := x.Rhs[0].(*ast.CallExpr); ok {
					if s2, ok := c.Fun.(*ast.SelectorExpr); ok && s2.Sel.Name == "Recv" && len(c.Args) == 0 {
						if _, ok := s2.X.(*ast.ParenExpr); ok {
							s2.Sel = ast.NewIdent("Recv2")
						}
					}
				}
			}
		}
		return s
	}
	exprT := reflect.TypeOf((*ast.Expr)(nil)).Elem()
	stmtT := reflect.TypeOf((*ast.Stmt)(nil)).Elem()
	var walk func(v reflect.Value)
	walk = func(v reflect.Value) {
		switch v.Kind() {
		case reflect.Ptr, reflect.Interface:
			if !v.IsNil() {
				walk(v.Elem())
			}
		case reflect.Slice:
			for i := 0; i < v.Len(); i++ {
				el := v.Index(i)
				walk(el)
				replace(el, exprT, stmtT, expr, stmt)
			}
		case reflect.Struct:
			if v.Type() == reflect.TypeOf(ast.Object{}) || v.Type() == reflect.TypeOf(ast.Scope{}) {
				return
			}
			for i := 0; i < v.NumField(); i++ {
				fl := v.Field(i)
				if !fl.CanSet() {
					continue
				}
				walk(fl)
				replace(fl, exprT, stmtT, expr, stmt)
			}
		}
	}
	for _, d := range f.Decls {
		walk(reflect.ValueOf(d))
	}
	return n
}

func replace(v reflect.Value, exprT, stmtT reflect.Type, expr func(ast.Expr) ast.Expr, stmt func(ast.Stmt) ast.Stmt) {
	if v.Kind() != reflect.Interface || v.IsNil() {
		return
	}
	switch v.Type() {
	case exprT:
		v.Set(reflect.ValueOf(expr(v.Interface().(ast.Expr))))
	case stmtT:
		v.Set(reflect.ValueOf(stmt(v.Interface().(ast.Stmt))))
	}
}

func fatal(err error) {
	fmt.Fprintln(os.Stderr, "instrument:", err)
	os.Exit(1)
}

func rewrite(name string, src []byte) ([]byte, int, int, error) {
	fset := token.NewFileSet()
	f, err := parser.ParseFile(fset, name, src, parser.ParseComments)
	if err != nil {
		return nil, 0, 0, err
	}
	nImp := 0
	for _, im := range f.Imports {
		p, _ := strconv.Unquote(im.Path.Value)
		switch p {
		case "sync":
			im.Path.Value = strconv.Quote("golang.org/x/mod/verifsched/sync")
			nImp++
		case "sync/atomic":
			im.Path.Value = strconv.Quote("golang.org/x/mod/verifsched/atomic")
			nImp++
		}
	}
	nGo := 0
	tmp := 0
	var fix func(list []ast.Stmt)
	rewriteGo := func(g *ast.GoStmt) ast.Stmt {
		nGo++
		var lhs, rhs []ast.Expr
		var args []ast.Expr
		for _, a := range g.Call.Args {
			id := ast.NewIdent(fmt.Sprintf("verifschedArg%d", tmp))
			tmp++
			lhs = append(lhs, id)
			rhs = append(rhs, a)
			args = append(args, id)
		}
		call := &ast.CallExpr{Fun: g.Call.Fun, Args: args, Ellipsis: g.Call.Ellipsis}
		lit := &ast.FuncLit{Type: &ast.FuncType{Params: &ast.FieldList{}}, Body: &ast.BlockStmt{List: []ast.Stmt{&ast.ExprStmt{X: call}}}}
		start := &ast.ExprStmt{X: &ast.CallExpr{Fun: &ast.SelectorExpr{X: ast.NewIdent("verifsched"), Sel: ast.NewIdent("Go")}, Args: []ast.Expr{lit}}}
		blk := &ast.BlockStmt{}
		if len(lhs) > 0 {
			blk.List = append(blk.List, &ast.AssignStmt{Lhs: lhs, Tok: token.DEFINE, Rhs: rhs})
		}
		blk.List = append(blk.List, start)
		return blk
	}
	fix = func(list []ast.Stmt) {
		for i, st := range list {
			if g, ok := st.(*ast.GoStmt); ok {
				// rewrite nested statements of a function literal first
				ast.Inspect(g.Call, func(n ast.Node) bool {
					if b, ok := n.(*ast.BlockStmt); ok {
						fix(b.List)
					}
					return true
				})
				list[i] = rewriteGo(g)
			}
		}
	}
	ast.Inspect(f, func(n ast.Node) bool {
		switch b := n.(type) {
		case *ast.BlockStmt:
			fix(b.List)
		case *ast.CaseClause:
			fix(b.Body)
		case *ast.CommClause:
			fix(b.Body)
		}
		return true
	})
	nChan := rewriteChans(f)
	if nGo > 0 || nChan > 0 {
		// add the scheduler import
		spec := &ast.ImportSpec{Path: &ast.BasicLit{Kind: token.STRING, Value: strconv.Quote("golang.org/x/mod/verifsched")}}
		for _, d := range f.Decls {
			if gd, ok := d.(*ast.GenDecl); ok && gd.Tok == token.IMPORT {
				gd.Specs = append(gd.Specs, spec)
				f.Imports = append(f.Imports, spec)
				break
			}
		}
	}
	var buf bytes.Buffer
	if err := format.Node(&buf, fset, f); err != nil {
		return nil, 0, 0, err
	}
	return buf.Bytes(), nGo, nImp, nil
}
