// instrument generates a `go build -overlay` file that (1) replaces every non-test file of
// package golang.org/x/mod/sumdb by a copy whose "sync" and "sync/atomic" imports point to
// the verification shims and whose go statements start managed goroutines, and (2) adds the
// virtual packages golang.org/x/mod/verifsched[/sync,/atomic] from /verif/sched.
// /repo is never written. An existing overlay (deliberately broken variants) is honoured.
package main

import (
	"bytes"
	"encoding/json"
	"flag"
	"fmt"
	"go/ast"
	"go/format"
	"go/parser"
	"go/token"
	"os"
	"path/filepath"
	"strconv"
	"strings"
)

type overlay struct {
	Replace map[string]string
}

func main() {
	repo := flag.String("repo", "/repo", "repository root")
	verif := flag.String("verif", "/verif", "verification root (holds sched/)")
	out := flag.String("out", "", "output directory for rewritten files and overlay.json")
	in := flag.String("overlay", "", "existing overlay to layer on")
	flag.Parse()
	if *out == "" {
		fmt.Fprintln(os.Stderr, "usage: instrument -out dir [-overlay file]")
		os.Exit(2)
	}
	ov := overlay{Replace: map[string]string{}}
	if *in != "" {
		b, err := os.ReadFile(*in)
		if err != nil {
			fatal(err)
		}
		if err := json.Unmarshal(b, &ov); err != nil {
			fatal(err)
		}
	}
	os.MkdirAll(*out, 0o755)
	pkgDir := filepath.Join(*repo, "sumdb")
	ents, err := os.ReadDir(pkgDir)
	if err != nil {
		fatal(err)
	}
	nGo, nImp := 0, 0
	var unsupported []string
	for _, e := range ents {
		name := e.Name()
		if e.IsDir() || !strings.HasSuffix(name, ".go") || strings.HasSuffix(name, "_test.go") {
			continue
		}
		orig := filepath.Join(pkgDir, name)
		src := orig
		if r, ok := ov.Replace[orig]; ok {
			src = r
		}
		data, err := os.ReadFile(src)
		if err != nil {
			fatal(err)
		}
		res, g, i, err := rewrite(name, data)
		if err != nil {
			fatal(err)
		}
		unsupported = append(unsupported, findUnsupported(name, data)...)
		nGo += g
		nImp += i
		dst := filepath.Join(*out, "sumdb_"+name)
		if err := os.WriteFile(dst, res, 0o644); err != nil {
			fatal(err)
		}
		ov.Replace[orig] = dst
	}
	// virtual scheduler packages
	schedRoot := filepath.Join(*verif, "sched", "verifsched")
	filepath.Walk(schedRoot, func(p string, info os.FileInfo, err error) error {
		if err != nil || info.IsDir() || !strings.HasSuffix(p, ".go") {
			return nil
		}
		rel, _ := filepath.Rel(filepath.Join(*verif, "sched"), p)
		ov.Replace[filepath.Join(*repo, rel)] = p
		return nil
	})
	b, _ := json.MarshalIndent(ov, "", " ")
	if err := os.WriteFile(filepath.Join(*out, "overlay.json"), b, 0o644); err != nil {
		fatal(err)
	}
	fmt.Printf("instrumented package sumdb: %d imports redirected, %d go statements rewritten\n", nImp, nGo)
	// Constructs the cooperative scheduler cannot intercept by rewriting imports and go statements
	// (a goroutine blocked in one of them would hold the scheduler's single running slot forever).
	// They are reported to the caller, which then skips the controlled exploration instead of hanging.
	if len(unsupported) > 0 {
		os.WriteFile(filepath.Join(*out, "unsupported.txt"), []byte(strings.Join(unsupported, "\n")+"\n"), 0o644)
		fmt.Printf("instrument: %d construct(s) outside the scheduler's model:\n%s\n", len(unsupported), strings.Join(unsupported, "\n"))
	}
}

// findUnsupported lists channel operations, select statements and timers in one source file.
func findUnsupported(name string, src []byte) []string {
	fset := token.NewFileSet()
	f, err := parser.ParseFile(fset, name, src, 0)
	if err != nil {
		return nil
	}
	var out []string
	add := func(n ast.Node, what string) {
		out = append(out, fmt.Sprintf("sumdb/%s:%d: %s", name, fset.Position(n.Pos()).Line, what))
	}
	ast.Inspect(f, func(n ast.Node) bool {
		switch x := n.(type) {
		case *ast.ChanType:
			add(x, "channel type")
		case *ast.SendStmt:
			add(x, "channel send")
		case *ast.SelectStmt:
			add(x, "select statement")
		case *ast.UnaryExpr:
			if x.Op == token.ARROW {
				add(x, "channel receive")
			}
		case *ast.CallExpr:
			if sel, ok := x.Fun.(*ast.SelectorExpr); ok {
				if id, ok := sel.X.(*ast.Ident); ok && id.Name == "time" {
					switch sel.Sel.Name {
					case "Sleep", "After", "AfterFunc", "NewTimer", "NewTicker", "Tick":
						add(x, "time."+sel.Sel.Name)
					}
				}
			}
		}
		return true
	})
	return out
}

func fatal(err error) {
	fmt.Fprintln(os.Stderr, "instrument:", err)
	os.Exit(1)
}

func rewrite(name string, src []byte) ([]byte, int, int, error) {
	fset := token.NewFileSet()
	f, err := parser.ParseFile(fset, name, src, parser.ParseComments)
	if err != nil {
		return nil, 0, 0, err
	}
	nImp := 0
	for _, im := range f.Imports {
		p, _ := strconv.Unquote(im.Path.Value)
		switch p {
		case "sync":
			im.Path.Value = strconv.Quote("golang.org/x/mod/verifsched/sync")
			nImp++
		case "sync/atomic":
			im.Path.Value = strconv.Quote("golang.org/x/mod/verifsched/atomic")
			nImp++
		}
	}
	nGo := 0
	tmp := 0
	var fix func(list []ast.Stmt)
	rewriteGo := func(g *ast.GoStmt) ast.Stmt {
		nGo++
		var lhs, rhs []ast.Expr
		var args []ast.Expr
		for _, a := range g.Call.Args {
			id := ast.NewIdent(fmt.Sprintf("verifschedArg%d", tmp))
			tmp++
			lhs = append(lhs, id)
			rhs = append(rhs, a)
			args = append(args, id)
		}
		call := &ast.CallExpr{Fun: g.Call.Fun, Args: args, Ellipsis: g.Call.Ellipsis}
		lit := &ast.FuncLit{Type: &ast.FuncType{Params: &ast.FieldList{}}, Body: &ast.BlockStmt{List: []ast.Stmt{&ast.ExprStmt{X: call}}}}
		start := &ast.ExprStmt{X: &ast.CallExpr{Fun: &ast.SelectorExpr{X: ast.NewIdent("verifsched"), Sel: ast.NewIdent("Go")}, Args: []ast.Expr{lit}}}
		blk := &ast.BlockStmt{}
		if len(lhs) > 0 {
			blk.List = append(blk.List, &ast.AssignStmt{Lhs: lhs, Tok: token.DEFINE, Rhs: rhs})
		}
		blk.List = append(blk.List, start)
		return blk
	}
	fix = func(list []ast.Stmt) {
		for i, st := range list {
			if g, ok := st.(*ast.GoStmt); ok {
				// rewrite nested statements of a function literal first
				ast.Inspect(g.Call, func(n ast.Node) bool {
					if b, ok := n.(*ast.BlockStmt); ok {
						fix(b.List)
					}
					return true
				})
				list[i] = rewriteGo(g)
			}
		}
	}
	ast.Inspect(f, func(n ast.Node) bool {
		switch b := n.(type) {
		case *ast.BlockStmt:
			fix(b.List)
		case *ast.CaseClause:
			fix(b.Body)
		case *ast.CommClause:
			fix(b.Body)
		}
		return true
	})
	if nGo > 0 {
		// add the scheduler import
		spec := &ast.ImportSpec{Path: &ast.BasicLit{Kind: token.STRING, Value: strconv.Quote("golang.org/x/mod/verifsched")}}
		for _, d := range f.Decls {
			if gd, ok := d.(*ast.GenDecl); ok && gd.Tok == token.IMPORT {
				gd.Specs = append(gd.Specs, spec)
				f.Imports = append(f.Imports, spec)
				break
			}
		}
	}
	var buf bytes.Buffer
	if err := format.Node(&buf, fset, f); err != nil {
		return nil, 0, 0, err
	}
	return buf.Bytes(), nGo, nImp, nil
}
