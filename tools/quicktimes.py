#!/usr/bin/env python3
"""tools/quicktimes.py : rewrite the 'quick s' column of the table in DESIGN.md section 10.4 from the wall
times recorded in evidence/<id>.json (run after the quick checks have refreshed the evidence)."""
import json, re
p = '/verif/DESIGN.md'
s = open(p).read()
a = s.index('### 10.4 ')
b = s.index('### 10.5 ')
sec = s[a:b]
def fix(m):
    pid = m.group(1)
    try:
        e = json.load(open(f'/verif/evidence/{pid}.json'))
        if e.get('tier') != 'quick':
            return m.group(0)
        w = e.get('wall_s')
        return f"{m.group(1) and '| ' + pid + ' |'}{m.group(2)}| {round(w)} |"
    except Exception:
        return m.group(0)
sec2 = re.sub(r'\| (C\d\d) \|(.*)\| [\d.]+ \|', fix, sec)
open(p, 'w').write(s[:a] + sec2 + s[b:])
print('updated' if sec2 != sec else 'unchanged')
