#!/bin/sh
# tools/seedsave.sh <seed-dir> <name> : copy a confirmed seeded change into /verif/seeded/<name>/
set -eu
SRC=$1; NAME=$2
D=/verif/seeded/$NAME
mkdir -p "$D"
cp "$SRC/patch.diff" "$D/patch.diff"
for f in "$SRC"/*_test.go "$SRC"/*.go; do [ -f "$f" ] && cp "$f" "$D/$(basename "$f").txt"; done 2>/dev/null || true
[ -f "$SRC/NOTES.md" ] && cp "$SRC/NOTES.md" "$D/AUTHOR-NOTES.md"
ls "$D"
