//go:build vsched

package verifsched

// Chan models a Go channel under the controlled scheduler. The instrumenter rewrites
// `chan T` to *Chan[T], make(chan T, n) to MakeChan[T](n), sends, receives and close to the
// methods below. A blocked send or receive blocks the managed goroutine (visible to deadlock
// detection); every channel operation is a scheduling point at synchronisation granularity.
// Outside a controlled execution the operations forward to a real channel.
type Chan[T any] struct {
	real   chan T
	capn   int
	buf    []T
	closed bool
	sendq  []*sendItem[T] // unbuffered channel: senders offering a value
}

type sendItem[T any] struct {
	v     T
	taken bool
}

// MakeChan is make(chan T, n).
func MakeChan[T any](n int) *Chan[T] {
	return &Chan[T]{real: make(chan T, n), capn: n}
}

func never() bool { return false }

// Send is c <- v.
func (c *Chan[T]) Send(v T) {
	if c == nil {
		if !Active() {
			select {}
		}
		Block(never, "chan send(nil channel)")
	}
	if !Active() {
		c.real <- v
		return
	}
	SyncPoint("chan send")
	if c.closed {
		panic("send on closed channel")
	}
	if c.capn > 0 {
		if len(c.buf) >= c.capn {
			Block(func() bool { return len(c.buf) < c.capn || c.closed }, "chan send(wait: buffer full)")
			if c.closed {
				panic("send on closed channel")
			}
		}
		c.buf = append(c.buf, v)
		return
	}
	it := &sendItem[T]{v: v}
	c.sendq = append(c.sendq, it)
	Block(func() bool { return it.taken || c.closed }, "chan send(wait: no receiver)")
	if !it.taken {
		panic("send on closed channel")
	}
}

// Recv2 is v, ok := <-c.
func (c *Chan[T]) Recv2() (v T, ok bool) {
	if c == nil {
		if !Active() {
			select {}
		}
		Block(never, "chan receive(nil channel)")
	}
	if !Active() {
		v, ok = <-c.real
		return
	}
	SyncPoint("chan receive")
	if c.capn > 0 {
		if len(c.buf) == 0 && !c.closed {
			Block(func() bool { return len(c.buf) > 0 || c.closed }, "chan receive(wait: buffer empty)")
		}
		if len(c.buf) > 0 {
			v = c.buf[0]
			c.buf = append([]T(nil), c.buf[1:]...)
			return v, true
		}
		return v, false
	}
	pending := func() *sendItem[T] {
		for _, it := range c.sendq {
			if !it.taken {
				return it
			}
		}
		return nil
	}
	if pending() == nil && !c.closed {
		Block(func() bool { return pending() != nil || c.closed }, "chan receive(wait: no sender)")
	}
	if it := pending(); it != nil {
		it.taken = true
		c.sendq = c.sendq[1:]
		return it.v, true
	}
	return v, false
}

// Recv is <-c.
func (c *Chan[T]) Recv() T {
	v, _ := c.Recv2()
	return v
}

// CloseChan is close(c).
func CloseChan[T any](c *Chan[T]) {
	if c == nil {
		panic("close of nil channel")
	}
	if !Active() {
		close(c.real)
		return
	}
	if c.closed {
		panic("close of closed channel")
	}
	c.closed = true
	SyncPoint("chan close")
}
