//go:build vsched

// Package atomic is the verification shim for "sync/atomic".
package atomic

import (
	realatomic "sync/atomic"

	"golang.org/x/mod/verifsched"
)

func LoadUint32(addr *uint32) uint32 {
	if !verifsched.Active() {
		return realatomic.LoadUint32(addr)
	}
	verifsched.SyncPoint("atomic.LoadUint32")
	return *addr
}

func StoreUint32(addr *uint32, val uint32) {
	if !verifsched.Active() {
		realatomic.StoreUint32(addr, val)
		return
	}
	verifsched.SyncPoint("atomic.StoreUint32")
	*addr = val
}
