//go:build vsched

// Package atomic is the verification shim for "sync/atomic". It covers the whole API of the
// real package. Under the controlled scheduler exactly one managed goroutine runs at a time, so
// every operation is "a scheduling point at sync granularity, then the real operation"; outside
// a controlled execution the scheduling point is a no-op and only the real operation remains.
package atomic

import (
	realatomic "sync/atomic"
	"unsafe"

	"golang.org/x/mod/verifsched"
)

func pt(label string) { verifsched.SyncPoint(label) }

// ---- functions

func AddInt32(addr *int32, delta int32) int32 {
	pt("atomic.AddInt32")
	return realatomic.AddInt32(addr, delta)
}
func AddInt64(addr *int64, delta int64) int64 {
	pt("atomic.AddInt64")
	return realatomic.AddInt64(addr, delta)
}
func AddUint32(addr *uint32, delta uint32) uint32 {
	pt("atomic.AddUint32")
	return realatomic.AddUint32(addr, delta)
}
func AddUint64(addr *uint64, delta uint64) uint64 {
	pt("atomic.AddUint64")
	return realatomic.AddUint64(addr, delta)
}
func AddUintptr(addr *uintptr, d uintptr) uintptr {
	pt("atomic.AddUintptr")
	return realatomic.AddUintptr(addr, d)
}
func AndInt32(addr *int32, mask int32) int32 {
	pt("atomic.AndInt32")
	return realatomic.AndInt32(addr, mask)
}
func AndInt64(addr *int64, mask int64) int64 {
	pt("atomic.AndInt64")
	return realatomic.AndInt64(addr, mask)
}
func AndUint32(addr *uint32, mask uint32) uint32 {
	pt("atomic.AndUint32")
	return realatomic.AndUint32(addr, mask)
}
func AndUint64(addr *uint64, mask uint64) uint64 {
	pt("atomic.AndUint64")
	return realatomic.AndUint64(addr, mask)
}
func AndUintptr(addr *uintptr, m uintptr) uintptr {
	pt("atomic.AndUintptr")
	return realatomic.AndUintptr(addr, m)
}
func OrInt32(addr *int32, mask int32) int32 {
	pt("atomic.OrInt32")
	return realatomic.OrInt32(addr, mask)
}
func OrInt64(addr *int64, mask int64) int64 {
	pt("atomic.OrInt64")
	return realatomic.OrInt64(addr, mask)
}
func OrUint32(addr *uint32, mask uint32) uint32 {
	pt("atomic.OrUint32")
	return realatomic.OrUint32(addr, mask)
}
func OrUint64(addr *uint64, mask uint64) uint64 {
	pt("atomic.OrUint64")
	return realatomic.OrUint64(addr, mask)
}
func OrUintptr(addr *uintptr, m uintptr) uintptr {
	pt("atomic.OrUintptr")
	return realatomic.OrUintptr(addr, m)
}
func LoadInt32(addr *int32) int32    { pt("atomic.LoadInt32"); return realatomic.LoadInt32(addr) }
func LoadInt64(addr *int64) int64    { pt("atomic.LoadInt64"); return realatomic.LoadInt64(addr) }
func LoadUint32(addr *uint32) uint32 { pt("atomic.LoadUint32"); return realatomic.LoadUint32(addr) }
func LoadUint64(addr *uint64) uint64 { pt("atomic.LoadUint64"); return realatomic.LoadUint64(addr) }
func LoadUintptr(addr *uintptr) uintptr {
	pt("atomic.LoadUintptr")
	return realatomic.LoadUintptr(addr)
}
func LoadPointer(addr *unsafe.Pointer) unsafe.Pointer {
	pt("atomic.LoadPointer")
	return realatomic.LoadPointer(addr)
}
func StoreInt32(addr *int32, val int32) { pt("atomic.StoreInt32"); realatomic.StoreInt32(addr, val) }
func StoreInt64(addr *int64, val int64) { pt("atomic.StoreInt64"); realatomic.StoreInt64(addr, val) }
func StoreUint32(addr *uint32, val uint32) {
	pt("atomic.StoreUint32")
	realatomic.StoreUint32(addr, val)
}
func StoreUint64(addr *uint64, val uint64) {
	pt("atomic.StoreUint64")
	realatomic.StoreUint64(addr, val)
}
func StoreUintptr(addr *uintptr, val uintptr) {
	pt("atomic.StoreUintptr")
	realatomic.StoreUintptr(addr, val)
}
func StorePointer(addr *unsafe.Pointer, val unsafe.Pointer) {
	pt("atomic.StorePointer")
	realatomic.StorePointer(addr, val)
}
func SwapInt32(addr *int32, new int32) int32 {
	pt("atomic.SwapInt32")
	return realatomic.SwapInt32(addr, new)
}
func SwapInt64(addr *int64, new int64) int64 {
	pt("atomic.SwapInt64")
	return realatomic.SwapInt64(addr, new)
}
func SwapUint32(addr *uint32, new uint32) uint32 {
	pt("atomic.SwapUint32")
	return realatomic.SwapUint32(addr, new)
}
func SwapUint64(addr *uint64, new uint64) uint64 {
	pt("atomic.SwapUint64")
	return realatomic.SwapUint64(addr, new)
}
func SwapUintptr(addr *uintptr, n uintptr) uintptr {
	pt("atomic.SwapUintptr")
	return realatomic.SwapUintptr(addr, n)
}
func SwapPointer(addr *unsafe.Pointer, new unsafe.Pointer) unsafe.Pointer {
	pt("atomic.SwapPointer")
	return realatomic.SwapPointer(addr, new)
}
func CompareAndSwapInt32(addr *int32, old, new int32) bool {
	pt("atomic.CompareAndSwapInt32")
	return realatomic.CompareAndSwapInt32(addr, old, new)
}
func CompareAndSwapInt64(addr *int64, old, new int64) bool {
	pt("atomic.CompareAndSwapInt64")
	return realatomic.CompareAndSwapInt64(addr, old, new)
}
func CompareAndSwapUint32(addr *uint32, old, new uint32) bool {
	pt("atomic.CompareAndSwapUint32")
	return realatomic.CompareAndSwapUint32(addr, old, new)
}
func CompareAndSwapUint64(addr *uint64, old, new uint64) bool {
	pt("atomic.CompareAndSwapUint64")
	return realatomic.CompareAndSwapUint64(addr, old, new)
}
func CompareAndSwapUintptr(addr *uintptr, old, new uintptr) bool {
	pt("atomic.CompareAndSwapUintptr")
	return realatomic.CompareAndSwapUintptr(addr, old, new)
}
func CompareAndSwapPointer(addr *unsafe.Pointer, old, new unsafe.Pointer) bool {
	pt("atomic.CompareAndSwapPointer")
	return realatomic.CompareAndSwapPointer(addr, old, new)
}

// ---- types

type Bool struct{ v realatomic.Bool }

func (x *Bool) Load() bool         { pt("atomic.Bool.Load"); return x.v.Load() }
func (x *Bool) Store(val bool)     { pt("atomic.Bool.Store"); x.v.Store(val) }
func (x *Bool) Swap(new bool) bool { pt("atomic.Bool.Swap"); return x.v.Swap(new) }
func (x *Bool) CompareAndSwap(old, new bool) bool {
	pt("atomic.Bool.CompareAndSwap")
	return x.v.CompareAndSwap(old, new)
}

type Int32 struct{ v realatomic.Int32 }

func (x *Int32) Load() int32          { pt("atomic.Int32.Load"); return x.v.Load() }
func (x *Int32) Store(val int32)      { pt("atomic.Int32.Store"); x.v.Store(val) }
func (x *Int32) Swap(new int32) int32 { pt("atomic.Int32.Swap"); return x.v.Swap(new) }
func (x *Int32) CompareAndSwap(old, new int32) bool {
	pt("atomic.Int32.CompareAndSwap")
	return x.v.CompareAndSwap(old, new)
}
func (x *Int32) Add(delta int32) int32 { pt("atomic.Int32.Add"); return x.v.Add(delta) }
func (x *Int32) And(mask int32) int32  { pt("atomic.Int32.And"); return x.v.And(mask) }
func (x *Int32) Or(mask int32) int32   { pt("atomic.Int32.Or"); return x.v.Or(mask) }

type Int64 struct{ v realatomic.Int64 }

func (x *Int64) Load() int64          { pt("atomic.Int64.Load"); return x.v.Load() }
func (x *Int64) Store(val int64)      { pt("atomic.Int64.Store"); x.v.Store(val) }
func (x *Int64) Swap(new int64) int64 { pt("atomic.Int64.Swap"); return x.v.Swap(new) }
func (x *Int64) CompareAndSwap(old, new int64) bool {
	pt("atomic.Int64.CompareAndSwap")
	return x.v.CompareAndSwap(old, new)
}
func (x *Int64) Add(delta int64) int64 { pt("atomic.Int64.Add"); return x.v.Add(delta) }
func (x *Int64) And(mask int64) int64  { pt("atomic.Int64.And"); return x.v.And(mask) }
func (x *Int64) Or(mask int64) int64   { pt("atomic.Int64.Or"); return x.v.Or(mask) }

type Uint32 struct{ v realatomic.Uint32 }

func (x *Uint32) Load() uint32           { pt("atomic.Uint32.Load"); return x.v.Load() }
func (x *Uint32) Store(val uint32)       { pt("atomic.Uint32.Store"); x.v.Store(val) }
func (x *Uint32) Swap(new uint32) uint32 { pt("atomic.Uint32.Swap"); return x.v.Swap(new) }
func (x *Uint32) CompareAndSwap(old, new uint32) bool {
	pt("atomic.Uint32.CompareAndSwap")
	return x.v.CompareAndSwap(old, new)
}
func (x *Uint32) Add(delta uint32) uint32 { pt("atomic.Uint32.Add"); return x.v.Add(delta) }
func (x *Uint32) And(mask uint32) uint32  { pt("atomic.Uint32.And"); return x.v.And(mask) }
func (x *Uint32) Or(mask uint32) uint32   { pt("atomic.Uint32.Or"); return x.v.Or(mask) }

type Uint64 struct{ v realatomic.Uint64 }

func (x *Uint64) Load() uint64           { pt("atomic.Uint64.Load"); return x.v.Load() }
func (x *Uint64) Store(val uint64)       { pt("atomic.Uint64.Store"); x.v.Store(val) }
func (x *Uint64) Swap(new uint64) uint64 { pt("atomic.Uint64.Swap"); return x.v.Swap(new) }
func (x *Uint64) CompareAndSwap(old, new uint64) bool {
	pt("atomic.Uint64.CompareAndSwap")
	return x.v.CompareAndSwap(old, new)
}
func (x *Uint64) Add(delta uint64) uint64 { pt("atomic.Uint64.Add"); return x.v.Add(delta) }
func (x *Uint64) And(mask uint64) uint64  { pt("atomic.Uint64.And"); return x.v.And(mask) }
func (x *Uint64) Or(mask uint64) uint64   { pt("atomic.Uint64.Or"); return x.v.Or(mask) }

type Uintptr struct{ v realatomic.Uintptr }

func (x *Uintptr) Load() uintptr            { pt("atomic.Uintptr.Load"); return x.v.Load() }
func (x *Uintptr) Store(val uintptr)        { pt("atomic.Uintptr.Store"); x.v.Store(val) }
func (x *Uintptr) Swap(new uintptr) uintptr { pt("atomic.Uintptr.Swap"); return x.v.Swap(new) }
func (x *Uintptr) CompareAndSwap(old, new uintptr) bool {
	pt("atomic.Uintptr.CompareAndSwap")
	return x.v.CompareAndSwap(old, new)
}
func (x *Uintptr) Add(delta uintptr) uintptr { pt("atomic.Uintptr.Add"); return x.v.Add(delta) }
func (x *Uintptr) And(mask uintptr) uintptr  { pt("atomic.Uintptr.And"); return x.v.And(mask) }
func (x *Uintptr) Or(mask uintptr) uintptr   { pt("atomic.Uintptr.Or"); return x.v.Or(mask) }

type Pointer[T any] struct{ v realatomic.Pointer[T] }

func (x *Pointer[T]) Load() *T       { pt("atomic.Pointer.Load"); return x.v.Load() }
func (x *Pointer[T]) Store(val *T)   { pt("atomic.Pointer.Store"); x.v.Store(val) }
func (x *Pointer[T]) Swap(new *T) *T { pt("atomic.Pointer.Swap"); return x.v.Swap(new) }
func (x *Pointer[T]) CompareAndSwap(old, new *T) bool {
	pt("atomic.Pointer.CompareAndSwap")
	return x.v.CompareAndSwap(old, new)
}

type Value struct{ v realatomic.Value }

func (x *Value) Load() any        { pt("atomic.Value.Load"); return x.v.Load() }
func (x *Value) Store(val any)    { pt("atomic.Value.Store"); x.v.Store(val) }
func (x *Value) Swap(new any) any { pt("atomic.Value.Swap"); return x.v.Swap(new) }
func (x *Value) CompareAndSwap(old, new any) bool {
	pt("atomic.Value.CompareAndSwap")
	return x.v.CompareAndSwap(old, new)
}
