//go:build vsched

// Package verifsched is a cooperative scheduler for systematic concurrency testing.
// It exists only in verification builds: the sources live in /verif/sched and are injected
// into golang.org/x/mod with `go build -overlay` next to instrumented copies of package
// sumdb whose "sync", "sync/atomic" imports and go statements are redirected here.
//
// Exactly one managed goroutine runs at a time. At every scheduling point the set of
// enabled goroutines is computed and, if there is more than one, a chooser picks the next.
package verifsched

import (
	"fmt"
	"sync"
)

// ChoicePoint describes one choice point.
type ChoicePoint struct {
	Enabled    []int  // thread ids in canonical order: the running thread first if still enabled, then its children, siblings, parent, others
	CurEnabled bool   // the running thread is among the enabled ones (switching away is a preemption)
	Label      string // what the running thread is about to do
}

// Chooser returns the index into p.Enabled of the thread to run next.
type Chooser func(p ChoicePoint) int

type thread struct {
	id      int
	parent  int // id of the goroutine that started this one (-1 for the driver)
	wake    chan struct{}
	blocked func() bool // nil when runnable; otherwise runnable once it returns true
	done    bool
}

type state struct {
	threads  []*thread
	cur      *thread
	choose   Chooser
	points   int
	maxPts   int
	finished chan struct{}
	once     sync.Once
	res      Result
	syncGran bool
}

// Result of one controlled execution.
type Result struct {
	Deadlock bool
	Livelock bool
	Panic    string
	Points   int
	Threads  int
	Blocked  []string
}

var (
	s      *state
	active bool
)

// Active reports whether a controlled execution is in progress.
func Active() bool { return active }

// Run executes main under the scheduler. syncGranularity makes every synchronisation
// operation a scheduling point; otherwise only explicit Point calls and blocking operations are.
func Run(main func(), choose Chooser, syncGranularity bool, maxPoints int) Result {
	st := &state{choose: choose, finished: make(chan struct{}), syncGran: syncGranularity, maxPts: maxPoints}
	s, active = st, true
	t := &thread{id: 0, parent: -1, wake: make(chan struct{}, 1)}
	st.threads = append(st.threads, t)
	st.cur = t
	go st.body(t, main)
	t.wake <- struct{}{}
	<-st.finished
	active, s = false, nil
	st.res.Points = st.points
	st.res.Threads = len(st.threads)
	return st.res
}

func (st *state) finish() { st.once.Do(func() { close(st.finished) }) }

func (st *state) body(t *thread, f func()) {
	<-t.wake
	func() {
		defer func() {
			if e := recover(); e != nil {
				if _, ok := e.(abort); ok {
					return
				}
				if st.res.Panic == "" {
					st.res.Panic = fmt.Sprintf("thread %d: %v", t.id, e)
				}
			}
		}()
		f()
	}()
	t.done = true
	st.schedule("exit")
}

type abort struct{}

// Go starts f as a managed goroutine (or a plain goroutine when inactive).
func Go(f func()) {
	if !active {
		go f()
		return
	}
	st := s
	t := &thread{id: len(st.threads), parent: st.cur.id, wake: make(chan struct{}, 1)}
	st.threads = append(st.threads, t)
	go st.body(t, f)
	if st.syncGran {
		st.schedule("go")
	}
}

// CurrentRoot returns the id of the top-level managed goroutine (one started by the driver) that the
// running goroutine descends from; 0 for the driver itself or when no controlled execution is active.
func CurrentRoot() int {
	if !active {
		return 0
	}
	t := s.cur
	for t.parent > 0 {
		t = s.threads[t.parent]
	}
	return t.id
}

// Point is an explicit scheduling point (external operations of the code under test).
func Point(label string) {
	if !active {
		return
	}
	s.schedule(label)
}

// SyncPoint is a scheduling point that exists only at synchronisation granularity.
func SyncPoint(label string) {
	if !active || !s.syncGran {
		return
	}
	s.schedule(label)
}

// Block suspends the running thread until cond() holds. cond is evaluated by the scheduler
// while no managed goroutine runs.
func Block(cond func() bool, label string) {
	st := s
	for !cond() {
		st.cur.blocked = cond
		st.schedule(label)
	}
	st.cur.blocked = nil
}

func (st *state) schedule(label string) {
	cur := st.cur
	st.points++
	if st.maxPts > 0 && st.points > st.maxPts {
		st.res.Livelock = true
		st.finish()
		select {}
	}
	var enabled []*thread
	curEnabled := !cur.done && (cur.blocked == nil || cur.blocked())
	if curEnabled {
		enabled = append(enabled, cur)
	}
	// Canonical order of the alternatives (the first one is the default choice): the running
	// goroutine if it can continue; otherwise goroutines of the same logical task first - children of
	// the running goroutine, then its siblings, then its parent - and then everything else, each group
	// by ascending id. A lookup and the tile fetches it spawns thus run to completion by default.
	rank := func(t *thread) int {
		switch {
		case t.parent == cur.id:
			return 0
		case t.parent == cur.parent && cur.parent >= 0:
			return 1
		case t.id == cur.parent:
			return 2
		}
		return 3
	}
	for r := 0; r <= 3; r++ {
		for _, t := range st.threads {
			if t == cur || t.done || rank(t) != r {
				continue
			}
			if t.blocked == nil || t.blocked() {
				enabled = append(enabled, t)
			}
		}
	}
	if len(enabled) == 0 {
		all := true
		for _, t := range st.threads {
			if !t.done {
				all = false
				st.res.Blocked = append(st.res.Blocked, fmt.Sprintf("thread %d", t.id))
			}
		}
		if !all {
			st.res.Deadlock = true
		}
		st.finish()
		if cur.done {
			return
		}
		select {} // park forever; the execution is over
	}
	next := enabled[0]
	if len(enabled) > 1 {
		ids := make([]int, len(enabled))
		for i, t := range enabled {
			ids[i] = t.id
		}
		idx := st.choose(ChoicePoint{Enabled: ids, CurEnabled: curEnabled, Label: label})
		if idx < 0 || idx >= len(enabled) {
			panic(fmt.Sprintf("verifsched: chooser returned %d for %d enabled threads", idx, len(enabled)))
		}
		next = enabled[idx]
	}
	if next == cur {
		cur.blocked = nil
		return
	}
	st.cur = next
	next.blocked = nil
	next.wake <- struct{}{}
	if cur.done {
		return
	}
	<-cur.wake
}
