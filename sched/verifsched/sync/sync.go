//go:build vsched

// Package sync is the verification shim for "sync": under the controlled scheduler every
// operation is modelled explicitly (and is a scheduling point at sync granularity); outside
// a controlled execution everything forwards to the real package.
package sync

import (
	realsync "sync"

	"golang.org/x/mod/verifsched"
)

type Locker = realsync.Locker

type Mutex struct {
	real realsync.Mutex
	held bool
}

func (m *Mutex) Lock() {
	if !verifsched.Active() {
		m.real.Lock()
		return
	}
	verifsched.SyncPoint("Mutex.Lock")
	if m.held {
		verifsched.Block(func() bool { return !m.held }, "Mutex.Lock(wait)")
	}
	m.held = true
}

func (m *Mutex) Unlock() {
	if !verifsched.Active() {
		m.real.Unlock()
		return
	}
	if !m.held {
		panic("sync: unlock of unlocked mutex")
	}
	m.held = false
	verifsched.SyncPoint("Mutex.Unlock")
}

type Once struct {
	real    realsync.Once
	done    bool
	running bool
}

func (o *Once) Do(f func()) {
	if !verifsched.Active() {
		o.real.Do(f)
		return
	}
	verifsched.SyncPoint("Once.Do")
	if o.done {
		return
	}
	if o.running {
		verifsched.Block(func() bool { return o.done }, "Once.Do(wait)")
		return
	}
	o.running = true
	defer func() {
		o.done = true
		o.running = false
		verifsched.SyncPoint("Once.Do(done)")
	}()
	f()
}

type WaitGroup struct {
	real realsync.WaitGroup
	n    int
}

func (w *WaitGroup) Add(delta int) {
	if !verifsched.Active() {
		w.real.Add(delta)
		return
	}
	w.n += delta
	if w.n < 0 {
		panic("sync: negative WaitGroup counter")
	}
	verifsched.SyncPoint("WaitGroup.Add")
}

func (w *WaitGroup) Done() { w.Add(-1) }

func (w *WaitGroup) Wait() {
	if !verifsched.Active() {
		w.real.Wait()
		return
	}
	verifsched.SyncPoint("WaitGroup.Wait")
	if w.n != 0 {
		verifsched.Block(func() bool { return w.n == 0 }, "WaitGroup.Wait(wait)")
	}
}

// Map models sync.Map with a plain map (keys must be comparable, as for the real one).
type Map struct {
	real realsync.Map
	m    map[any]any
}

func (m *Map) Load(key any) (any, bool) {
	if !verifsched.Active() {
		return m.real.Load(key)
	}
	verifsched.SyncPoint("Map.Load")
	v, ok := m.m[key]
	return v, ok
}

func (m *Map) Store(key, value any) {
	if !verifsched.Active() {
		m.real.Store(key, value)
		return
	}
	verifsched.SyncPoint("Map.Store")
	if m.m == nil {
		m.m = map[any]any{}
	}
	m.m[key] = value
}

func (m *Map) LoadOrStore(key, value any) (any, bool) {
	if !verifsched.Active() {
		return m.real.LoadOrStore(key, value)
	}
	verifsched.SyncPoint("Map.LoadOrStore")
	if v, ok := m.m[key]; ok {
		return v, true
	}
	if m.m == nil {
		m.m = map[any]any{}
	}
	m.m[key] = value
	return value, false
}

func (m *Map) Delete(key any) {
	if !verifsched.Active() {
		m.real.Delete(key)
		return
	}
	verifsched.SyncPoint("Map.Delete")
	delete(m.m, key)
}
