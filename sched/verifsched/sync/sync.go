//go:build vsched

// Package sync is the verification shim for "sync": under the controlled scheduler every
// operation is modelled explicitly (and is a scheduling point at sync granularity); outside
// a controlled execution everything forwards to the real package.
package sync

import (
	realsync "sync"

	"golang.org/x/mod/verifsched"
)

type Locker = realsync.Locker

type Mutex struct {
	real realsync.Mutex
	held bool
}

func (m *Mutex) Lock() {
	if !verifsched.Active() {
		m.real.Lock()
		return
	}
	verifsched.SyncPoint("Mutex.Lock")
	if m.held {
		verifsched.Block(func() bool { return !m.held }, "Mutex.Lock(wait)")
	}
	m.held = true
}

func (m *Mutex) Unlock() {
	if !verifsched.Active() {
		m.real.Unlock()
		return
	}
	if !m.held {
		panic("sync: unlock of unlocked mutex")
	}
	m.held = false
	verifsched.SyncPoint("Mutex.Unlock")
}

type Once struct {
	real    realsync.Once
	done    bool
	running bool
}

func (o *Once) Do(f func()) {
	if !verifsched.Active() {
		o.real.Do(f)
		return
	}
	verifsched.SyncPoint("Once.Do")
	if o.done {
		return
	}
	if o.running {
		verifsched.Block(func() bool { return o.done }, "Once.Do(wait)")
		return
	}
	o.running = true
	defer func() {
		o.done = true
		o.running = false
		verifsched.SyncPoint("Once.Do(done)")
	}()
	f()
}

type WaitGroup struct {
	real realsync.WaitGroup
	n    int
}

func (w *WaitGroup) Add(delta int) {
	if !verifsched.Active() {
		w.real.Add(delta)
		return
	}
	w.n += delta
	if w.n < 0 {
		panic("sync: negative WaitGroup counter")
	}
	verifsched.SyncPoint("WaitGroup.Add")
}

func (w *WaitGroup) Done() { w.Add(-1) }

func (w *WaitGroup) Wait() {
	if !verifsched.Active() {
		w.real.Wait()
		return
	}
	verifsched.SyncPoint("WaitGroup.Wait")
	if w.n != 0 {
		verifsched.Block(func() bool { return w.n == 0 }, "WaitGroup.Wait(wait)")
	}
}

// Map models sync.Map with a plain map plus the insertion order of its keys, so that Range is
// deterministic (keys must be comparable, as for the real one).
type Map struct {
	real realsync.Map
	m    map[any]any
	keys []any
}

func (m *Map) put(key, value any) {
	if m.m == nil {
		m.m = map[any]any{}
	}
	if _, ok := m.m[key]; !ok {
		m.keys = append(m.keys, key)
	}
	m.m[key] = value
}

func (m *Map) del(key any) {
	if _, ok := m.m[key]; !ok {
		return
	}
	delete(m.m, key)
	for i, k := range m.keys {
		if k == key {
			m.keys = append(m.keys[:i:i], m.keys[i+1:]...)
			break
		}
	}
}

func (m *Map) Load(key any) (any, bool) {
	if !verifsched.Active() {
		return m.real.Load(key)
	}
	verifsched.SyncPoint("Map.Load")
	v, ok := m.m[key]
	return v, ok
}

func (m *Map) Store(key, value any) {
	if !verifsched.Active() {
		m.real.Store(key, value)
		return
	}
	verifsched.SyncPoint("Map.Store")
	m.put(key, value)
}

func (m *Map) LoadOrStore(key, value any) (any, bool) {
	if !verifsched.Active() {
		return m.real.LoadOrStore(key, value)
	}
	verifsched.SyncPoint("Map.LoadOrStore")
	if v, ok := m.m[key]; ok {
		return v, true
	}
	m.put(key, value)
	return value, false
}

func (m *Map) LoadAndDelete(key any) (any, bool) {
	if !verifsched.Active() {
		return m.real.LoadAndDelete(key)
	}
	verifsched.SyncPoint("Map.LoadAndDelete")
	v, ok := m.m[key]
	m.del(key)
	return v, ok
}

func (m *Map) Delete(key any) {
	if !verifsched.Active() {
		m.real.Delete(key)
		return
	}
	verifsched.SyncPoint("Map.Delete")
	m.del(key)
}

func (m *Map) Swap(key, value any) (any, bool) {
	if !verifsched.Active() {
		return m.real.Swap(key, value)
	}
	verifsched.SyncPoint("Map.Swap")
	v, ok := m.m[key]
	m.put(key, value)
	return v, ok
}

func (m *Map) CompareAndSwap(key, old, new any) bool {
	if !verifsched.Active() {
		return m.real.CompareAndSwap(key, old, new)
	}
	verifsched.SyncPoint("Map.CompareAndSwap")
	if v, ok := m.m[key]; ok && v == old {
		m.m[key] = new
		return true
	}
	return false
}

func (m *Map) CompareAndDelete(key, old any) bool {
	if !verifsched.Active() {
		return m.real.CompareAndDelete(key, old)
	}
	verifsched.SyncPoint("Map.CompareAndDelete")
	if v, ok := m.m[key]; ok && v == old {
		m.del(key)
		return true
	}
	return false
}

func (m *Map) Range(f func(key, value any) bool) {
	if !verifsched.Active() {
		m.real.Range(f)
		return
	}
	verifsched.SyncPoint("Map.Range")
	for _, k := range append([]any(nil), m.keys...) {
		v, ok := m.m[k]
		if !ok {
			continue
		}
		if !f(k, v) {
			break
		}
	}
}

func (m *Map) Clear() {
	if !verifsched.Active() {
		m.real.Clear()
		return
	}
	verifsched.SyncPoint("Map.Clear")
	m.m, m.keys = nil, nil
}

// TryLock tries to lock m and reports whether it succeeded.
func (m *Mutex) TryLock() bool {
	if !verifsched.Active() {
		return m.real.TryLock()
	}
	verifsched.SyncPoint("Mutex.TryLock")
	if m.held {
		return false
	}
	m.held = true
	return true
}

// RWMutex models sync.RWMutex (writer preference is not modelled: a reader may enter whenever no
// writer holds the lock, which admits a superset of the real schedules).
type RWMutex struct {
	real    realsync.RWMutex
	writer  bool
	readers int
}

func (m *RWMutex) Lock() {
	if !verifsched.Active() {
		m.real.Lock()
		return
	}
	verifsched.SyncPoint("RWMutex.Lock")
	if m.writer || m.readers > 0 {
		verifsched.Block(func() bool { return !m.writer && m.readers == 0 }, "RWMutex.Lock(wait)")
	}
	m.writer = true
}

func (m *RWMutex) TryLock() bool {
	if !verifsched.Active() {
		return m.real.TryLock()
	}
	verifsched.SyncPoint("RWMutex.TryLock")
	if m.writer || m.readers > 0 {
		return false
	}
	m.writer = true
	return true
}

func (m *RWMutex) Unlock() {
	if !verifsched.Active() {
		m.real.Unlock()
		return
	}
	if !m.writer {
		panic("sync: Unlock of unlocked RWMutex")
	}
	m.writer = false
	verifsched.SyncPoint("RWMutex.Unlock")
}

func (m *RWMutex) RLock() {
	if !verifsched.Active() {
		m.real.RLock()
		return
	}
	verifsched.SyncPoint("RWMutex.RLock")
	if m.writer {
		verifsched.Block(func() bool { return !m.writer }, "RWMutex.RLock(wait)")
	}
	m.readers++
}

func (m *RWMutex) TryRLock() bool {
	if !verifsched.Active() {
		return m.real.TryRLock()
	}
	verifsched.SyncPoint("RWMutex.TryRLock")
	if m.writer {
		return false
	}
	m.readers++
	return true
}

func (m *RWMutex) RUnlock() {
	if !verifsched.Active() {
		m.real.RUnlock()
		return
	}
	if m.readers <= 0 {
		panic("sync: RUnlock of unlocked RWMutex")
	}
	m.readers--
	verifsched.SyncPoint("RWMutex.RUnlock")
}

type rlocker RWMutex

func (r *rlocker) Lock()   { (*RWMutex)(r).RLock() }
func (r *rlocker) Unlock() { (*RWMutex)(r).RUnlock() }

func (m *RWMutex) RLocker() Locker { return (*rlocker)(m) }

// Cond models sync.Cond: waiters queue up; Signal releases the oldest, Broadcast all.
type Cond struct {
	L       Locker
	real    *realsync.Cond
	waiters []*bool
}

func NewCond(l Locker) *Cond { return &Cond{L: l, real: realsync.NewCond(l)} }

func (c *Cond) Wait() {
	if !verifsched.Active() {
		c.real.Wait()
		return
	}
	released := false
	c.waiters = append(c.waiters, &released)
	c.L.Unlock()
	verifsched.Block(func() bool { return released }, "Cond.Wait")
	c.L.Lock()
}

func (c *Cond) Signal() {
	if !verifsched.Active() {
		c.real.Signal()
		return
	}
	if len(c.waiters) > 0 {
		*c.waiters[0] = true
		c.waiters = c.waiters[1:]
	}
	verifsched.SyncPoint("Cond.Signal")
}

func (c *Cond) Broadcast() {
	if !verifsched.Active() {
		c.real.Broadcast()
		return
	}
	for _, w := range c.waiters {
		*w = true
	}
	c.waiters = nil
	verifsched.SyncPoint("Cond.Broadcast")
}

// Pool models sync.Pool deterministically: a LIFO free list that is never dropped.
type Pool struct {
	New  func() any
	real realsync.Pool
	free []any
}

func (p *Pool) Get() any {
	if !verifsched.Active() {
		if p.real.New == nil && p.New != nil {
			p.real.New = p.New
		}
		return p.real.Get()
	}
	verifsched.SyncPoint("Pool.Get")
	if n := len(p.free); n > 0 {
		x := p.free[n-1]
		p.free = p.free[:n-1]
		return x
	}
	if p.New != nil {
		return p.New()
	}
	return nil
}

func (p *Pool) Put(x any) {
	if !verifsched.Active() {
		p.real.Put(x)
		return
	}
	verifsched.SyncPoint("Pool.Put")
	if x != nil {
		p.free = append(p.free, x)
	}
}

// OnceFunc, OnceValue and OnceValues are built on the modelled Once.
func OnceFunc(f func()) func() {
	var once Once
	var valid bool
	var p any
	g := func() {
		defer func() {
			p = recover()
			if !valid {
				panic(p)
			}
		}()
		f()
		f = nil
		valid = true
	}
	return func() {
		once.Do(g)
		if !valid {
			panic(p)
		}
	}
}

func OnceValue[T any](f func() T) func() T {
	var once Once
	var valid bool
	var p any
	var result T
	g := func() {
		defer func() {
			p = recover()
			if !valid {
				panic(p)
			}
		}()
		result = f()
		f = nil
		valid = true
	}
	return func() T {
		once.Do(g)
		if !valid {
			panic(p)
		}
		return result
	}
}

func OnceValues[T1, T2 any](f func() (T1, T2)) func() (T1, T2) {
	var once Once
	var valid bool
	var p any
	var r1 T1
	var r2 T2
	g := func() {
		defer func() {
			p = recover()
			if !valid {
				panic(p)
			}
		}()
		r1, r2 = f()
		f = nil
		valid = true
	}
	return func() (T1, T2) {
		once.Do(g)
		if !valid {
			panic(p)
		}
		return r1, r2
	}
}
