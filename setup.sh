#!/bin/sh
# Offline setup: compile the framework once so later checks only rebuild what changed.
set -eu
cd "$(dirname "$0")"
export GOFLAGS=-mod=mod GOPROXY=off GOSUMDB=off GOTOOLCHAIN=local
mkdir -p bin evidence replays
go build -tags verif -o bin/vcheck.setup ./cmd/vcheck
rm -f bin/vcheck.setup
if [ -x tools/setup_extra.sh ]; then ./tools/setup_extra.sh; fi
echo "setup ok"
