#!/bin/sh
# Offline setup: compile the framework once so later checks only rebuild what changed.
set -eu
cd "$(dirname "$0")"
export GOFLAGS=-mod=mod GOPROXY=off GOSUMDB=off GOTOOLCHAIN=local
mkdir -p bin evidence replays
go build -tags verif -o bin/vcheck.setup ./cmd/vcheck
rm -f bin/vcheck.setup
# warm the caches of the scheduler-overlay build and of the race build
mkdir -p .work/setup
go run ./tools/instrument -verif "$(pwd)" -out "$(pwd)/.work/setup" > /dev/null
go build -tags "verif vsched" -overlay .work/setup/overlay.json -o bin/vsched.setup ./cmd/vsched
CGO_ENABLED=1 go build -race -o bin/vrace.setup ./cmd/vrace
rm -rf bin/vsched.setup bin/vrace.setup .work/setup
if [ -x tools/setup_extra.sh ]; then ./tools/setup_extra.sh; fi
echo "setup ok"
