package coop

import "testing"

func TestExploreCountsInterleavings(t *testing.T) {
	// two procs with 2 yields each: C(6,3) = 20 orders of 3+3 segments
	seen := map[string]bool{}
	runs, capped := Explore(func() ([]func(func()), func([]int, any)) {
		var trace []byte
		mkp := func(c byte) func(func()) {
			return func(y func()) { trace = append(trace, c); y(); trace = append(trace, c); y(); trace = append(trace, c) }
		}
		return []func(func()){mkp('a'), mkp('b')}, func(s []int, p any) { seen[string(trace)] = true }
	}, 0)
	if capped || len(seen) != 20 {
		t.Fatalf("runs=%d distinct traces=%d want 20", runs, len(seen))
	}
}
