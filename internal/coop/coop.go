// Package coop is a minimal cooperative scheduler for exploring the interleavings of a few calls whose
// only interaction points are callbacks the harness controls (a HashReader, a TileReader): each call runs
// in its own goroutine, exactly one runs at a time, and a call can be switched out only where it calls
// yield. Explore enumerates every interleaving (stateless depth-first search with replay).
package coop

import "fmt"

type proc struct {
	wake chan struct{}
	done bool
}

// current is the yield function of the proc that is running (exactly one runs at a time); shared objects
// that do not know which call they serve use Yield.
var current func()

// Yield lets another proc run, on behalf of whichever proc is running now. Outside Run it does nothing.
func Yield() {
	if y := current; y != nil {
		y()
	}
}

type event struct {
	id   int
	done bool
	pan  any
}

// Run executes the procs once. choose is asked at every point where more than one proc can run and
// returns an index into enabled. It returns the choices made and the number of enabled procs at each.
func Run(procs []func(yield func()), choose func(point int, enabled []int) int) (choices, widths []int, panicked any) {
	ps := make([]*proc, len(procs))
	yields := make([]func(), len(procs))
	ev := make(chan event)
	defer func() { current = nil }()
	for i := range procs {
		ps[i] = &proc{wake: make(chan struct{})}
		i := i
		go func() {
			<-ps[i].wake
			defer func() {
				ev <- event{id: i, done: true, pan: recover()}
			}()
			y := func() {
				ev <- event{id: i}
				<-ps[i].wake
				current = yields[i]
			}
			yields[i] = y
			current = y
			procs[i](y)
		}()
	}
	cur := -1
	for point := 0; ; point++ {
		var enabled []int
		// the running proc first (continuing it is the default), then the others by id
		if cur >= 0 && !ps[cur].done {
			enabled = append(enabled, cur)
		}
		for i, p := range ps {
			if !p.done && i != cur {
				enabled = append(enabled, i)
			}
		}
		if len(enabled) == 0 {
			return choices, widths, panicked
		}
		c := 0
		if len(enabled) > 1 {
			c = choose(len(choices), enabled)
			if c < 0 || c >= len(enabled) {
				panic(fmt.Sprintf("coop: choice %d out of range %d", c, len(enabled)))
			}
			choices = append(choices, c)
			widths = append(widths, len(enabled))
		}
		cur = enabled[c]
		ps[cur].wake <- struct{}{}
		e := <-ev
		if e.done {
			ps[e.id].done = true
			if e.pan != nil && panicked == nil {
				panicked = e.pan
			}
		}
	}
}

// Explore runs mk() once per interleaving: mk builds fresh procs (and whatever state they share) and
// returns a function that is called after the run with the schedule and any panic. It returns the number
// of interleavings executed; maxRuns (0 = no cap) bounds it, and capped reports whether the cap was hit.
func Explore(mk func() (procs []func(yield func()), after func(schedule []int, panicked any)), maxRuns int) (runs int, capped bool) {
	var rec func(prefix []int) bool
	rec = func(prefix []int) bool {
		if maxRuns > 0 && runs >= maxRuns {
			capped = true
			return false
		}
		procs, after := mk()
		choices, widths, pan := Run(procs, func(point int, enabled []int) int {
			if point < len(prefix) {
				return prefix[point]
			}
			return 0
		})
		runs++
		after(choices, pan)
		for i := len(prefix); i < len(choices); i++ {
			for alt := 1; alt < widths[i]; alt++ {
				if !rec(append(append([]int{}, choices[:i]...), alt)) {
					return false
				}
			}
		}
		return true
	}
	rec(nil)
	return runs, capped
}

// Pairs explores, for every ordered pair (i, j) of n calls, every interleaving of call i and call j at the
// points where they call yield, and compares what each returns with what it returns when run alone
// (yield doing nothing). call must be a pure function of i apart from the shared state of the code under
// test; before, if not nil, runs before each interleaving (a history of earlier calls). report is called
// for every interleaving in which a result differs or a call panics. maxRunsPerPair bounds one pair.
func Pairs(n int, call func(i int, yield func()) string, before func(), report func(i, j int, schedule []int, what string), maxRunsPerPair int) (pairs, runs int, capped bool) {
	solo := make([]string, n)
	for i := range solo {
		solo[i] = call(i, func() {})
	}
	for i := 0; i < n; i++ {
		for j := 0; j < n; j++ {
			i, j := i, j
			pairs++
			k, c := Explore(func() ([]func(func()), func([]int, any)) {
				if before != nil {
					before()
				}
				var ra, rb string
				procs := []func(func()){
					func(y func()) { ra = call(i, y) },
					func(y func()) { rb = call(j, y) },
				}
				return procs, func(schedule []int, pan any) {
					switch {
					case pan != nil:
						report(i, j, schedule, fmt.Sprintf("panic: %v", pan))
					case ra != solo[i]:
						report(i, j, schedule, fmt.Sprintf("first call returns %q when overlapped, %q alone", clip(ra), clip(solo[i])))
					case rb != solo[j]:
						report(i, j, schedule, fmt.Sprintf("second call returns %q when overlapped, %q alone", clip(rb), clip(solo[j])))
					}
				}
			}, maxRunsPerPair)
			runs += k
			capped = capped || c
		}
	}
	return pairs, runs, capped
}

func clip(s string) string {
	if len(s) > 300 {
		return s[:300] + "..."
	}
	return s
}
