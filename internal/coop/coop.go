// Package coop is a minimal cooperative scheduler for exploring the interleavings of a few calls whose
// only interaction points are callbacks the harness controls (a HashReader, a TileReader): each call runs
// in its own goroutine, exactly one runs at a time, and a call can be switched out only where it calls
// yield. Explore enumerates every interleaving (stateless depth-first search with replay).
package coop

import "fmt"

type proc struct {
	wake chan struct{}
	done bool
}

type event struct {
	id   int
	done bool
	pan  any
}

// Run executes the procs once. choose is asked at every point where more than one proc can run and
// returns an index into enabled. It returns the choices made and the number of enabled procs at each.
func Run(procs []func(yield func()), choose func(point int, enabled []int) int) (choices, widths []int, panicked any) {
	ps := make([]*proc, len(procs))
	ev := make(chan event)
	for i := range procs {
		ps[i] = &proc{wake: make(chan struct{})}
		i := i
		go func() {
			<-ps[i].wake
			defer func() {
				ev <- event{id: i, done: true, pan: recover()}
			}()
			procs[i](func() {
				ev <- event{id: i}
				<-ps[i].wake
			})
		}()
	}
	cur := -1
	for point := 0; ; point++ {
		var enabled []int
		// the running proc first (continuing it is the default), then the others by id
		if cur >= 0 && !ps[cur].done {
			enabled = append(enabled, cur)
		}
		for i, p := range ps {
			if !p.done && i != cur {
				enabled = append(enabled, i)
			}
		}
		if len(enabled) == 0 {
			return choices, widths, panicked
		}
		c := 0
		if len(enabled) > 1 {
			c = choose(len(choices), enabled)
			if c < 0 || c >= len(enabled) {
				panic(fmt.Sprintf("coop: choice %d out of range %d", c, len(enabled)))
			}
			choices = append(choices, c)
			widths = append(widths, len(enabled))
		}
		cur = enabled[c]
		ps[cur].wake <- struct{}{}
		e := <-ev
		if e.done {
			ps[e.id].done = true
			if e.pan != nil && panicked == nil {
				panicked = e.pan
			}
		}
	}
}

// Explore runs mk() once per interleaving: mk builds fresh procs (and whatever state they share) and
// returns a function that is called after the run with the schedule and any panic. It returns the number
// of interleavings executed; maxRuns (0 = no cap) bounds it, and capped reports whether the cap was hit.
func Explore(mk func() (procs []func(yield func()), after func(schedule []int, panicked any)), maxRuns int) (runs int, capped bool) {
	var rec func(prefix []int) bool
	rec = func(prefix []int) bool {
		if maxRuns > 0 && runs >= maxRuns {
			capped = true
			return false
		}
		procs, after := mk()
		choices, widths, pan := Run(procs, func(point int, enabled []int) int {
			if point < len(prefix) {
				return prefix[point]
			}
			return 0
		})
		runs++
		after(choices, pan)
		for i := len(prefix); i < len(choices); i++ {
			for alt := 1; alt < widths[i]; alt++ {
				if !rec(append(append([]int{}, choices[:i]...), alt)) {
					return false
				}
			}
		}
		return true
	}
	rec(nil)
	return runs, capped
}
