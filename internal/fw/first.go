package fw

import (
	"encoding/json"
	"fmt"
	"os"
	"os/exec"
	"strconv"
	"strings"
	"sync"
	"syscall"
)

// Call is one small call of the code under test, returning everything it produced as a string.
type Call struct {
	Name string
	F    func() string
}

// SafeCall runs c.F and turns a panic into a result.
func SafeCall(c Call) (res string) {
	defer func() {
		if e := recover(); e != nil {
			res = fmt.Sprintf("panic: %v", e)
		}
	}()
	return c.F()
}

// RunFirstChild is the child side of FirstCallOrders: it performs the calls with the given indexes, in order,
// as the first calls into the code under test that this process makes, and prints their results as JSON.
func RunFirstChild(calls []Call, spec string) int {
	var out []string
	for _, f := range strings.Split(spec, ",") {
		i, err := strconv.Atoi(f)
		if err != nil || i < 0 || i >= len(calls) {
			fmt.Fprintln(os.Stderr, "bad call index", f)
			return 2
		}
		out = append(out, SafeCall(calls[i]))
	}
	b, _ := json.Marshal(out)
	fmt.Println(string(b))
	return 0
}

// FirstCallOrders checks that what a call returns does not depend on which calls the process has made
// before: every call as the very first call of a fresh process, and every ordered pair of calls as the first
// two, must return what the call returns in this (long-running, warmed-up) process. State that is built
// lazily on first use (sync.Once tables, caches, pools) is the target. only, if not nil, restricts to one
// order (replay).
func FirstCallOrders(r *Run, id string, calls []Call, only []string) {
	exe, err := os.Executable()
	if err != nil {
		r.Note("first-call orders skipped: %v", err)
		return
	}
	warm := make([]string, len(calls))
	for i, c := range calls {
		warm[i] = SafeCall(c)
	}
	idx := map[string]int{}
	for i, c := range calls {
		idx[c.Name] = i
	}
	var orders [][]int
	if only != nil {
		var o []int
		for _, n := range only {
			o = append(o, idx[n])
		}
		orders = [][]int{o}
	} else {
		for i := range calls {
			orders = append(orders, []int{i})
			for j := range calls {
				if i != j {
					orders = append(orders, []int{i, j})
				}
			}
		}
		r.Bounds["fresh_process_call_orders"] = fmt.Sprintf("%d calls: each as the first call of a fresh process, and every ordered pair as the first two (%d processes)", len(calls), len(orders))
	}
	var mu sync.Mutex
	Parallel(len(orders), func(k int) {
		o := orders[k]
		var spec, names []string
		for _, i := range o {
			spec = append(spec, strconv.Itoa(i))
			names = append(names, calls[i].Name)
		}
		cmd := exec.Command(exe, id, "--first", strings.Join(spec, ","))
		cmd.Env = append(os.Environ(), "VERIF_ROOT="+Root)
		outb, err := cmd.Output()
		l := NewLocal()
		l.States++
		l.Execs++
		l.Transitions += int64(len(o))
		var got []string
		detail := map[string]any{"kind": "first", "calls": names}
		if err != nil || json.Unmarshal(outb, &got) != nil || len(got) != len(o) {
			mu.Lock()
			r.Violation("first:"+strings.Join(names, ","), fmt.Sprintf("fresh process making the calls %v first: the process failed (%v): %s", names, err, clipS(string(outb))), detail)
			mu.Unlock()
			r.Merge(l)
			return
		}
		for p, i := range o {
			if got[p] != warm[i] {
				mu.Lock()
				r.Violation("first:"+strings.Join(names, ","), fmt.Sprintf("%s returns %q as call number %d of a fresh process (calls made first: %v) and %q in a process that has made many calls", calls[i].Name, clipS(got[p]), p+1, names, clipS(warm[i])), detail)
				mu.Unlock()
				r.Merge(l)
				return
			}
		}
		l.Nontrivial++
		l.Outcomes["first-calls:same-as-warm"]++
		r.Merge(l)
	})
}

func clipS(s string) string {
	if len(s) > 300 {
		return s[:300] + "..."
	}
	return s
}

// WithFDLimit runs f with the process's soft limit on open file descriptors lowered to n (and restores it):
// code that keeps a descriptor open per item fails under it once it has more items than descriptors.
// Only for sequential phases (the limit is process wide). It returns false if the limit could not be set.
func WithFDLimit(n uint64, f func()) bool {
	var old syscall.Rlimit
	if err := syscall.Getrlimit(syscall.RLIMIT_NOFILE, &old); err != nil {
		return false
	}
	lim := old
	lim.Cur = n
	if lim.Cur > old.Max {
		return false
	}
	if err := syscall.Setrlimit(syscall.RLIMIT_NOFILE, &lim); err != nil {
		return false
	}
	defer syscall.Setrlimit(syscall.RLIMIT_NOFILE, &old)
	f()
	return true
}
