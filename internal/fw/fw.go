// Package fw is the shared bookkeeping of every explorer: counters, distinct
// outcomes, samples, violations with replay files, known findings, evidence.
package fw

import (
	"bufio"
	"crypto/sha256"
	"encoding/hex"
	"encoding/json"
	"fmt"
	"os"
	"path/filepath"
	"runtime"
	"sort"
	"strconv"
	"strings"
	"sync"
	"sync/atomic"
	"time"
)

// Root is the directory holding evidence/, replays/ and known_findings.txt.
var Root = func() string {
	if d := os.Getenv("VERIF_ROOT"); d != "" {
		return d
	}
	exe, err := os.Executable()
	if err == nil {
		d := filepath.Dir(filepath.Dir(exe))
		if _, err := os.Stat(filepath.Join(d, "properties.jsonl")); err == nil {
			return d
		}
	}
	wd, _ := os.Getwd()
	return wd
}()

// OutRoot is where evidence/ and replays/ are written (VERIF_OUT redirects it, used when
// a check is run against a deliberately broken overlay so /verif/evidence stays untouched).
var OutRoot = func() string {
	if d := os.Getenv("VERIF_OUT"); d != "" {
		return d
	}
	return Root
}()

type Violation struct {
	Key    string `json:"key"`
	Detail any    `json:"case"`
	Msg    string `json:"message"`
	Replay string `json:"-"`
}

// Run collects what one check invocation did.
type Run struct {
	fdStart    int
	goStart    int
	ID         string
	Tier       string
	Seed       int64
	ReplayMode bool // replaying one recorded case: evidence file is not rewritten
	start      time.Time
	deadline   time.Time

	States      atomic.Int64 // distinct inputs / canonical states / plans / schedules
	Transitions atomic.Int64
	Execs       atomic.Int64 // executions of the real code
	Nontrivial  atomic.Int64

	mu         sync.Mutex
	outcomes   map[string]int64
	samples    []any
	Bounds     map[string]any
	Extra      map[string]any
	Assume     []string
	Rule       string
	violations map[string]*Violation
	vorder     []string
	suppressed int64
	known      map[string]string // key -> text
	knownHit   map[string]int64
	caps       []string
	notes      []string
	scratch    []string
}

const maxReplays = 12

func New(id, tier string) *Run {
	seed, _ := strconv.ParseInt(os.Getenv("VERIF_SEED"), 10, 64)
	r := &Run{ID: id, Tier: tier, Seed: seed, start: time.Now(),
		outcomes: map[string]int64{}, Bounds: map[string]any{}, Extra: map[string]any{},
		violations: map[string]*Violation{}, known: map[string]string{}, knownHit: map[string]int64{}}
	r.loadKnown()
	r.fdStart = OpenFDs()
	r.goStart = runtime.NumGoroutine()
	current = r
	return r
}

// OpenFDs counts the open file descriptors of this process (-1 if /proc is not available).
func OpenFDs() int {
	ents, err := os.ReadDir("/proc/self/fd")
	if err != nil {
		return -1
	}
	return len(ents)
}

var current *Run

// Recover is deferred by every worker goroutine of the explorers: a panic that escapes the code under
// test (or the harness) becomes a reported violation instead of killing the process without a verdict.
func Recover() {
	if e := recover(); e != nil {
		buf := make([]byte, 6000)
		buf = buf[:runtime.Stack(buf, false)]
		msg := fmt.Sprintf("panic during exploration: %v", e)
		if current != nil {
			current.Cap("a worker stopped after a panic")
			current.Violation("panic:"+fmt.Sprint(e), msg+"\n"+string(buf), map[string]string{"panic": fmt.Sprint(e)})
			return
		}
		fmt.Fprintln(os.Stderr, msg)
		os.Exit(2)
	}
}

func (r *Run) Thorough() bool { return r.Tier == "thorough" }

// Pick returns q for the quick tier and t for the thorough tier.
func (r *Run) Pick(q, t int) int {
	if r.Thorough() {
		return t
	}
	return q
}

func (r *Run) loadKnown() {
	f, err := os.Open(filepath.Join(Root, "known_findings.txt"))
	if err != nil {
		return
	}
	defer f.Close()
	sc := bufio.NewScanner(f)
	sc.Buffer(make([]byte, 1<<20), 1<<20)
	for sc.Scan() {
		line := strings.TrimSpace(sc.Text())
		// known: property=<id> key=<quoted or bare> <text>
		if !strings.HasPrefix(line, "known:") {
			continue
		}
		rest := strings.TrimSpace(strings.TrimPrefix(line, "known:"))
		if !strings.HasPrefix(rest, "property="+r.ID+" ") {
			continue
		}
		rest = strings.TrimSpace(strings.TrimPrefix(rest, "property="+r.ID+" "))
		if !strings.HasPrefix(rest, "key=") {
			continue
		}
		rest = strings.TrimPrefix(rest, "key=")
		var key, text string
		if strings.HasPrefix(rest, `"`) {
			q, err := strconv.QuotedPrefix(rest)
			if err != nil {
				continue
			}
			key, _ = strconv.Unquote(q)
			text = strings.TrimSpace(rest[len(q):])
		} else {
			key, text, _ = strings.Cut(rest, " ")
		}
		r.known[key] = text
	}
}

// SetDeadline gives the exploration an internal time cap; Expired reports it.
func (r *Run) SetDeadline(d time.Duration) { r.deadline = r.start.Add(d) }
func (r *Run) Expired() bool {
	return !r.deadline.IsZero() && time.Now().After(r.deadline)
}

// Cap records that a cap fired: the run is not exhaustive.
func (r *Run) Cap(what string) {
	r.mu.Lock()
	defer r.mu.Unlock()
	for _, c := range r.caps {
		if c == what {
			return
		}
	}
	r.caps = append(r.caps, what)
}

func (r *Run) Note(format string, a ...any) {
	r.mu.Lock()
	r.notes = append(r.notes, fmt.Sprintf(format, a...))
	r.mu.Unlock()
}

// Outcome counts one observed outcome class.
func (r *Run) Outcome(class string) {
	r.mu.Lock()
	r.outcomes[class]++
	r.mu.Unlock()
}

func (r *Run) OutcomeN(class string, n int64) {
	if n == 0 {
		return
	}
	r.mu.Lock()
	r.outcomes[class] += n
	r.mu.Unlock()
}

// Sample keeps up to 12 example cases for the evidence file.
func (r *Run) Sample(s any) {
	r.mu.Lock()
	if len(r.samples) < 12 {
		r.samples = append(r.samples, s)
	}
	r.mu.Unlock()
}

func (r *Run) NSamples() int {
	r.mu.Lock()
	defer r.mu.Unlock()
	return len(r.samples)
}

// Violation records a failing case. key is the canonical identity of the case (used for
// de-duplication and for matching known findings); detail must be enough to replay it.
func (r *Run) Violation(key, msg string, detail any) {
	r.mu.Lock()
	defer r.mu.Unlock()
	if _, ok := r.known[key]; ok {
		r.knownHit[key]++
		return
	}
	if _, ok := r.violations[key]; ok {
		return
	}
	if len(r.violations) >= maxReplays {
		r.suppressed++
		return
	}
	v := &Violation{Key: key, Detail: detail, Msg: msg}
	r.violations[key] = v
	r.vorder = append(r.vorder, key)
}

func (r *Run) NViolations() int {
	r.mu.Lock()
	defer r.mu.Unlock()
	return len(r.violations)
}

// Failed reports whether enough violations were found that exploration may stop early.
func (r *Run) Failed() bool {
	r.mu.Lock()
	defer r.mu.Unlock()
	return len(r.violations) >= maxReplays
}

type replayFile struct {
	Property string          `json:"property"`
	Key      string          `json:"key"`
	Message  string          `json:"message"`
	Case     json.RawMessage `json:"case"`
}

// Finish writes evidence and replay files, prints the verdict lines and returns the exit code.
func (r *Run) Finish() int {
	r.Cleanup()
	// resource check common to all explorations: the code under test was called thousands to millions of
	// times in this process; descriptors it failed to close would have piled up
	if r.fdStart >= 0 && !r.ReplayMode {
		if now := OpenFDs(); now > r.fdStart+64 {
			r.Violation("resource:file-descriptors", fmt.Sprintf("%d file descriptors are open at the end of the exploration, %d were open at its start: the code under test leaks descriptors", now, r.fdStart), nil)
		}
		r.Extra["open_file_descriptors_start_end"] = []int{r.fdStart, OpenFDs()}
	}
	if !r.ReplayMode {
		// the same for goroutines: give stragglers a moment, then compare with the start
		n := runtime.NumGoroutine()
		for i := 0; i < 20 && n > r.goStart+64; i++ {
			time.Sleep(50 * time.Millisecond)
			n = runtime.NumGoroutine()
		}
		if n > r.goStart+64 {
			r.Violation("resource:goroutines", fmt.Sprintf("%d goroutines exist at the end of the exploration, %d existed at its start: the code under test leaves goroutines behind", n, r.goStart), nil)
		}
		r.Extra["goroutines_start_end"] = []int{r.goStart, n}
	}
	r.mu.Lock()
	defer r.mu.Unlock()
	wall := time.Since(r.start).Seconds()
	keys := make([]string, 0, len(r.knownHit))
	for k := range r.knownHit {
		keys = append(keys, k)
	}
	sort.Strings(keys)
	for _, k := range keys {
		fmt.Printf("KNOWN-FINDING: property=%s key=%s (%d cases) %s\n", r.ID, strconv.Quote(k), r.knownHit[k], r.known[k])
	}
	os.MkdirAll(filepath.Join(OutRoot, "replays"), 0o755)
	for _, k := range r.vorder {
		v := r.violations[k]
		raw, err := json.Marshal(v.Detail)
		if err != nil {
			raw, _ = json.Marshal(fmt.Sprintf("%+v", v.Detail))
		}
		h := sha256.Sum256([]byte(k))
		p := filepath.Join(OutRoot, "replays", r.ID+"-"+hex.EncodeToString(h[:6])+".json")
		b, _ := json.MarshalIndent(replayFile{r.ID, v.Key, v.Msg, raw}, "", " ")
		os.WriteFile(p, append(b, '\n'), 0o644)
		v.Replay = p
		fmt.Printf("VIOLATION property=%s replay=%s\n", r.ID, p)
		fmt.Printf("  key=%s\n  %s\n", strconv.Quote(v.Key), v.Msg)
	}
	if r.suppressed > 0 {
		fmt.Printf("  (%d further violating cases not written)\n", r.suppressed)
	}
	exhaustive := len(r.caps) == 0 && len(r.violations) < maxReplays
	cov := map[string]any{
		"states":                        max64(r.States.Load(), 0),
		"transitions":                   r.Transitions.Load(),
		"traces_validated_against_impl": r.Execs.Load(),
		"evaluations":                   r.Execs.Load(),
		"distinct_nontrivial":           r.Nontrivial.Load(),
		"rule":                          r.Rule,
		"distinct_outcomes":             len(r.outcomes),
		"outcomes":                      r.outcomes,
		"bounds":                        r.Bounds,
		"exhaustive":                    exhaustive,
		"samples":                       r.samples,
	}
	if len(r.samples) == 0 {
		cov["samples"] = []any{"(no sample recorded)"}
	}
	if len(r.caps) > 0 {
		cov["caps_hit"] = r.caps
	}
	if len(r.notes) > 0 {
		cov["notes"] = r.notes
	}
	if len(r.knownHit) > 0 {
		cov["known_findings_hit"] = r.knownHit
	}
	for k, v := range r.Extra {
		cov[k] = v
	}
	ev := map[string]any{
		"property_id": r.ID, "tier": r.Tier, "seed": r.Seed, "level": "model_checking",
		"coverage": cov, "assumptions": r.Assume, "wall_s": wall,
		"violations": len(r.violations) + int(r.suppressed),
		"go":         runtime.Version(),
	}
	if r.Assume == nil {
		ev["assumptions"] = []string{}
	}
	b, _ := json.MarshalIndent(ev, "", " ")
	os.MkdirAll(filepath.Join(OutRoot, "evidence"), 0o755)
	if r.ReplayMode {
		// replay of a single case: report only
	} else if err := os.WriteFile(filepath.Join(OutRoot, "evidence", r.ID+".json"), append(b, '\n'), 0o644); err != nil {
		fmt.Fprintln(os.Stderr, "cannot write evidence:", err)
		return 2
	}
	fmt.Printf("%s %s: states=%d transitions=%d executions=%d nontrivial=%d outcomes=%d exhaustive=%v violations=%d known=%d wall=%.1fs\n",
		r.ID, r.Tier, r.States.Load(), r.Transitions.Load(), r.Execs.Load(), r.Nontrivial.Load(), len(r.outcomes), exhaustive,
		len(r.violations)+int(r.suppressed), len(r.knownHit), wall)
	if len(r.violations) > 0 {
		return 1
	}
	return 0
}

func max64(a, b int64) int64 {
	if a > b {
		return a
	}
	return b
}

// LoadReplay reads the case of a replay file.
func LoadReplay(path string) (id, key string, c json.RawMessage, err error) {
	b, err := os.ReadFile(path)
	if err != nil {
		return "", "", nil, err
	}
	var rf replayFile
	if err := json.Unmarshal(b, &rf); err != nil {
		return "", "", nil, err
	}
	return rf.Property, rf.Key, rf.Case, nil
}

// Workers is the number of parallel workers used by explorers.
func Workers() int {
	if s := os.Getenv("VERIF_WORKERS"); s != "" {
		if n, err := strconv.Atoi(s); err == nil && n > 0 {
			return n
		}
	}
	return runtime.NumCPU()
}

// Parallel runs f(i) for i in [0,n) on Workers() goroutines.
func Parallel(n int, f func(i int)) {
	w := Workers()
	if w > n {
		w = n
	}
	var next atomic.Int64
	var wg sync.WaitGroup
	for k := 0; k < w; k++ {
		wg.Add(1)
		go func() {
			defer wg.Done()
			for {
				i := int(next.Add(1)) - 1
				if i >= n {
					return
				}
				func() {
					defer Recover()
					f(i)
				}()
			}
		}()
	}
	wg.Wait()
}

// Local is a per-worker counter block merged into a Run at the end (avoids contention).
type Local struct {
	States, Transitions, Execs, Nontrivial int64
	Outcomes                               map[string]int64
}

func NewLocal() *Local { return &Local{Outcomes: map[string]int64{}} }

func (r *Run) Merge(l *Local) {
	r.States.Add(l.States)
	r.Transitions.Add(l.Transitions)
	r.Execs.Add(l.Execs)
	r.Nontrivial.Add(l.Nontrivial)
	r.mu.Lock()
	for k, v := range l.Outcomes {
		r.outcomes[k] += v
	}
	r.mu.Unlock()
}

// Q quotes a byte string for keys and messages.
func Q(b []byte) string  { return strconv.QuoteToASCII(string(b)) }
func QS(s string) string { return strconv.QuoteToASCII(s) }

// Scratch creates a scratch directory (tmpfs when available) removed by Finish.
func (r *Run) Scratch() string {
	base := os.TempDir()
	if st, err := os.Stat("/dev/shm"); err == nil && st.IsDir() {
		if f, err := os.CreateTemp("/dev/shm", "verif-probe"); err == nil {
			f.Close()
			os.Remove(f.Name())
			base = "/dev/shm"
		}
	}
	d, err := os.MkdirTemp(base, "verif-"+r.ID+"-")
	if err != nil {
		fmt.Fprintln(os.Stderr, "cannot create scratch directory:", err)
		os.Exit(2)
	}
	r.mu.Lock()
	r.scratch = append(r.scratch, d)
	r.mu.Unlock()
	return d
}

// Cleanup removes scratch directories.
func (r *Run) Cleanup() {
	r.mu.Lock()
	ds := r.scratch
	r.scratch = nil
	r.mu.Unlock()
	for _, d := range ds {
		filepath.WalkDir(d, func(p string, de os.DirEntry, err error) error {
			if err == nil && de.IsDir() {
				os.Chmod(p, 0o755)
			}
			return nil
		})
		os.RemoveAll(d)
	}
}
