// Package enum holds the exhaustive enumerators: prefix trees over an alphabet of
// atoms, products, subsets, permutations. Everything is deterministic.
package enum

import (
	"sync"
	"sync/atomic"
)

// OnPanic, if set, is deferred in every worker goroutine of Strings.
var OnPanic func()

// Count returns the number of strings over an alphabet of k atoms with 0..maxLen atoms.
func Count(k, maxLen int) int64 {
	var total, p int64 = 0, 1
	for i := 0; i <= maxLen; i++ {
		total += p
		p *= int64(k)
	}
	return total
}

// Strings visits every concatenation of 0..maxLen atoms (every node of the prefix tree),
// in parallel over workers. newWorker is called once per worker and returns the visit
// function; visit receives the current string (valid only during the call) and the number
// of atoms in it. done is called per worker at the end.
func Strings(atoms []string, maxLen, workers int, newWorker func(w int) (visit func(s []byte, depth int), done func())) {
	// work items: all prefixes of length min(2,maxLen); shallower nodes are visited by worker 0 first.
	split := 2
	if maxLen < split {
		split = maxLen
	}
	type item struct{ idx []int }
	var items []item
	var gen func(cur []int)
	gen = func(cur []int) {
		if len(cur) == split {
			items = append(items, item{append([]int(nil), cur...)})
			return
		}
		for i := range atoms {
			gen(append(cur, i))
		}
	}
	gen(nil)
	var next atomic.Int64
	var wg sync.WaitGroup
	var shallowOnce sync.Once
	for w := 0; w < workers; w++ {
		wg.Add(1)
		go func(w int) {
			defer wg.Done()
			if OnPanic != nil {
				defer OnPanic()
			}
			visit, done := newWorker(w)
			shallowOnce.Do(func() {
				// nodes above the split level
				var rec func(buf []byte, d int)
				rec = func(buf []byte, d int) {
					visit(buf, d)
					if d+1 >= split {
						return
					}
					for _, a := range atoms {
						rec(append(buf, a...), d+1)
					}
				}
				if split > 0 {
					rec(make([]byte, 0, 64), 0)
				}
			})
			buf := make([]byte, 0, 256)
			var rec func(buf []byte, d int)
			rec = func(buf []byte, d int) {
				visit(buf, d)
				if d >= maxLen {
					return
				}
				for _, a := range atoms {
					rec(append(buf, a...), d+1)
				}
			}
			for {
				i := int(next.Add(1)) - 1
				if i >= len(items) {
					break
				}
				buf = buf[:0]
				for _, k := range items[i].idx {
					buf = append(buf, atoms[k]...)
				}
				rec(buf, split)
			}
			if done != nil {
				done()
			}
		}(w)
	}
	wg.Wait()
}

// AllStrings collects every string over atoms up to maxLen (small spaces only).
func AllStrings(atoms []string, maxLen int) []string {
	var out []string
	var rec func(cur string, d int)
	rec = func(cur string, d int) {
		out = append(out, cur)
		if d >= maxLen {
			return
		}
		for _, a := range atoms {
			rec(cur+a, d+1)
		}
	}
	rec("", 0)
	return out
}

// Product calls f with every index vector in dims[0] x dims[1] x ...; the slice is reused.
func Product(dims []int, f func(idx []int)) {
	idx := make([]int, len(dims))
	for _, d := range dims {
		if d == 0 {
			return
		}
	}
	for {
		f(idx)
		i := len(dims) - 1
		for i >= 0 {
			idx[i]++
			if idx[i] < dims[i] {
				break
			}
			idx[i] = 0
			i--
		}
		if i < 0 {
			return
		}
	}
}

// Permutations calls f with every permutation of 0..n-1 (slice reused).
func Permutations(n int, f func(p []int)) {
	p := make([]int, n)
	for i := range p {
		p[i] = i
	}
	var rec func(k int)
	rec = func(k int) {
		if k == n {
			f(p)
			return
		}
		for i := k; i < n; i++ {
			p[k], p[i] = p[i], p[k]
			rec(k + 1)
			p[k], p[i] = p[i], p[k]
		}
	}
	rec(0)
}

// Sequences calls f with every sequence of length 0..maxLen over 0..k-1 (slice reused).
func Sequences(k, maxLen int, f func(seq []int)) {
	seq := make([]int, 0, maxLen)
	var rec func()
	rec = func() {
		f(seq)
		if len(seq) >= maxLen {
			return
		}
		for i := 0; i < k; i++ {
			seq = append(seq, i)
			rec()
			seq = seq[:len(seq)-1]
		}
	}
	rec()
}

// LongFills returns strings around the sizes of common fixed buffers (4 KiB, 64 KiB) and one of 1 MiB,
// made of the given byte.
func LongFills(c byte) []string {
	var out []string
	for _, n := range []int{255, 256, 257, 4095, 4096, 4097, 65535, 65536, 65537, 1 << 20} {
		b := make([]byte, n)
		for i := range b {
			b[i] = c
		}
		out = append(out, string(b))
	}
	return out
}

// DenseMax is the default upper end of dense length sweeps: every length up to two 4 KiB buffers and a bit,
// so that any boundary of the form 4096-k, 4096+k, 8192-k (k up to a few hundred: a buffer minus a header)
// is a member, not only the powers of two themselves.
const DenseMax = 8400

// EachLength calls f with a string of c's of every length from 0 to max.
func EachLength(c byte, max int, f func(s string)) {
	b := make([]byte, max)
	for i := range b {
		b[i] = c
	}
	for n := 0; n <= max; n++ {
		f(string(b[:n]))
	}
}

// BoundaryRunes returns the runes at the edges of the UTF-8 encoding lengths and of the ranges that tables
// and fast paths are usually cut at (ASCII, Latin-1, the BMP, the surrogate gap), as strings.
func BoundaryRunes() []string {
	var out []string
	for _, r := range []rune{0x7f, 0x80, 0x81, 0xff, 0x100, 0x7ff, 0x800, 0xd7ff, 0xe000, 0xfffd, 0xfffe, 0xffff, 0x10000, 0x10ffff} {
		out = append(out, string(r))
	}
	return out
}

// ByteFills returns all 256 single-byte strings.
func ByteFills() []string {
	out := make([]string, 256)
	for b := 0; b < 256; b++ {
		out[b] = string([]byte{byte(b)})
	}
	return out
}

// Spare returns a copy of s whose backing array continues for n more elements, all set to pad (the shape of
// a window s[:k] of a longer array: what lies behind the end belongs to the caller), and a function that
// reports whether those elements still hold pad.
func Spare[T comparable](s []T, pad T, n int) ([]T, func() bool) {
	b := make([]T, len(s)+n)
	copy(b, s)
	for i := len(s); i < len(b); i++ {
		b[i] = pad
	}
	return b[:len(s)], func() bool {
		for i := len(s); i < len(b); i++ {
			if b[i] != pad {
				return false
			}
		}
		return true
	}
}
