// Package clientx runs lookup histories of the real sumdb.Client over opsenv and holds the
// monitors shared by C01 and C13 (what may be written to cache and config).
package clientx

import (
	"bytes"
	"fmt"
	"strings"

	"golang.org/x/mod/sumdb"
	"golang.org/x/mod/sumdb/note"
	"golang.org/x/mod/sumdb/tlog"

	"verif/internal/opsenv"
	"verif/internal/world"
)

type Step struct {
	Path, Vers string
	Restart    bool // start a new client (same config and cache) before this lookup
}

type Result struct {
	Lines []string
	Err   error
	Panic string
}

// Run executes the steps; a nil client is created at the start.
func Run(env *opsenv.Env, height int, steps []Step) []Result {
	var c *sumdb.Client
	var out []Result
	for _, s := range steps {
		if c == nil || s.Restart {
			c = sumdb.NewClient(env)
			c.SetTileHeight(height)
		}
		var res Result
		func() {
			defer func() {
				if e := recover(); e != nil {
					res.Panic = fmt.Sprint(e)
				}
			}()
			res.Lines, res.Err = c.Lookup(s.Path, s.Vers)
		}()
		out = append(out, res)
	}
	return out
}

// OpenHead opens a signed tree head under the real key.
func OpenHead(msg []byte) (tlog.Tree, error) {
	k := world.TheKeys()
	n, err := note.Open(msg, note.VerifierList(k.V))
	if err != nil {
		return tlog.Tree{}, err
	}
	return tlog.ParseTree([]byte(n.Text))
}

// HeadOf reports whether tree is a true head of one of the logs.
func HeadOf(tree tlog.Tree, logs ...*world.SignedLog) *world.SignedLog {
	for _, l := range logs {
		if int(tree.N) <= l.N() && l.Tree(int(tree.N)) == tree {
			return l
		}
	}
	return nil
}

// CheckCacheWrite validates one WriteCache call against the logs signed by the real key.
func CheckCacheWrite(w opsenv.Write, logs ...*world.SignedLog) string {
	name := world.TheKeys().Name
	rest, ok := strings.CutPrefix(w.File, name+"/")
	if !ok {
		return fmt.Sprintf("WriteCache to unexpected file %q", w.File)
	}
	switch {
	case strings.HasPrefix(rest, "tile/"):
		t, err := tlog.ParseTilePath(rest)
		if err != nil {
			return fmt.Sprintf("WriteCache to malformed tile file %q", w.File)
		}
		for _, l := range logs {
			if d, ok := world.TrueTile(l.Log, l.N(), t); ok && bytes.Equal(d, w.Data) {
				return ""
			}
		}
		return fmt.Sprintf("WriteCache(%q): %d bytes that are not the true tile of any log signed by the configured key", w.File, len(w.Data))
	case strings.HasPrefix(rest, "lookup/"):
		id, text, treeMsg, err := tlog.ParseRecord(w.Data)
		if err != nil {
			return fmt.Sprintf("WriteCache(%q): unparsable record: %v", w.File, err)
		}
		// an empty tree part is the unsigned empty timeline: it carries no data (the record was then
		// authenticated against the stored head)
		if len(treeMsg) != 0 {
			tree, err := OpenHead(treeMsg)
			if err != nil {
				return fmt.Sprintf("WriteCache(%q): tree head does not open under the configured key: %v", w.File, err)
			}
			if HeadOf(tree, logs...) == nil {
				return fmt.Sprintf("WriteCache(%q): tree head (size %d) is not a head of a log signed by the configured key", w.File, tree.N)
			}
		}
		for _, l := range logs {
			if id >= 0 && int(id) < l.N() && bytes.Equal(l.Mods[id].Text, text) {
				return ""
			}
			// a negative id aliases leaf 0 (StoredHashIndex(0, n<=0) == 0): the text is still the
			// authenticated text of record 0 (DESIGN 7)
			if id < 0 && l.N() > 0 && bytes.Equal(l.Mods[0].Text, text) {
				return ""
			}
		}
		return fmt.Sprintf("WriteCache(%q): record %d text is not a logged record", w.File, id)
	}
	return fmt.Sprintf("WriteCache to unexpected file %q", w.File)
}

// CheckConfigWrite validates one successful WriteConfig call; returns the tree written.
func CheckConfigWrite(w opsenv.Write, logs ...*world.SignedLog) (tlog.Tree, string) {
	name := world.TheKeys().Name
	if w.File != name+"/latest" {
		return tlog.Tree{}, fmt.Sprintf("WriteConfig to unexpected file %q", w.File)
	}
	tree, err := OpenHead(w.Data)
	if err != nil {
		return tlog.Tree{}, fmt.Sprintf("WriteConfig stores a head that does not open under the configured key: %v", err)
	}
	if HeadOf(tree, logs...) == nil {
		return tree, fmt.Sprintf("WriteConfig stores a head (size %d) that is not a true head of a log signed by the configured key", tree.N)
	}
	return tree, ""
}
