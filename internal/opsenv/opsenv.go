// Package opsenv is the harness implementation of sumdb.ClientOps: persistent config and
// cache maps, a remote responder, a fault plan keyed by resource name, and a full log.
package opsenv

import (
	"bytes"
	"errors"
	"fmt"
	"sort"
	"sync"

	"golang.org/x/mod/sumdb"
)

// Fault rewrites the honest answer for one resource.
type Fault struct {
	Kind string `json:"kind"`
	Arg  int    `json:"arg"`
}

// Apply functions are supplied by the explorer: given resource name, fault and the honest answer.
type ApplyFunc func(res string, f Fault, data []byte, err error) ([]byte, error)

type Write struct {
	File string
	Old  []byte // WriteConfig only
	Data []byte
	Err  error // WriteConfig result
}

type Touch struct {
	Res    string
	Honest []byte
	HErr   bool
}

type Env struct {
	mu     sync.Mutex
	handed []handed
	Config map[string][]byte
	Cache  map[string][]byte
	Remote func(path string) ([]byte, error)
	Plan   map[string]Fault
	Apply  ApplyFunc
	// Hook, if set, is called before every ops call with the resource name (scheduler yield point).
	Hook func(op, res string)

	Touched      map[string]Touch
	Calls        []string
	CacheWrites  []Write
	ConfigWrites []Write
	Security     []string
	Logs         []string
	FaultsHit    int
	Changed      int // faults that changed at least one byte actually served (or turned data into an error)
}

func New(vkey string) *Env {
	return &Env{Config: map[string][]byte{"key": []byte(vkey)}, Cache: map[string][]byte{}, Plan: map[string]Fault{}, Touched: map[string]Touch{}}
}

// Restart clears the per-execution observation log but keeps config and cache (a new client process).
func (e *Env) call(op, res string) {
	if e.Hook != nil {
		e.Hook(op, res)
	}
	e.mu.Lock()
	e.Calls = append(e.Calls, op+" "+res)
	n := len(e.Calls)
	e.mu.Unlock()
	if n > MaxCalls {
		panic(fmt.Sprintf("livelock guard: more than %d external operations in one execution (last: %s %s)", MaxCalls, op, res))
	}
}

// MaxCalls bounds the external operations of one execution (a loop that never ends would
// otherwise exhaust memory); reaching it is reported by the explorers as a failure of the run.
var MaxCalls = 20000

func (e *Env) serve(res string, data []byte, err error) ([]byte, error) {
	e.mu.Lock()
	defer e.mu.Unlock()
	if _, ok := e.Touched[res]; !ok {
		e.Touched[res] = Touch{res, append([]byte(nil), data...), err != nil}
	}
	if f, ok := e.Plan[res]; ok && e.Apply != nil {
		e.FaultsHit++
		d2, err2 := e.Apply(res, f, append([]byte(nil), data...), err)
		if (err2 != nil) != (err != nil) || !bytes.Equal(d2, data) {
			e.Changed++
		}
		return e.spare(res, d2), err2
	}
	return e.spare(res, data), err
}

// spare hands data out as a window of a longer array whose tail holds a sentinel: the bytes behind an answer
// belong to whoever produced it (a file cache, a response buffer). SpareDamage reports answers whose tail
// the client wrote into.
func (e *Env) spare(res string, data []byte) []byte {
	if data == nil {
		return nil
	}
	b := make([]byte, len(data)+4)
	copy(b, data)
	for i := len(data); i < len(b); i++ {
		b[i] = 0x5e
	}
	e.handed = append(e.handed, handed{res, b, len(data)})
	return b[:len(data)]
}

type handed struct {
	res  string
	full []byte
	n    int
}

// SpareDamage returns the resources whose answers were written to behind their end.
func (e *Env) SpareDamage() []string {
	e.mu.Lock()
	defer e.mu.Unlock()
	var out []string
	for _, h := range e.handed {
		for _, c := range h.full[h.n:] {
			if c != 0x5e {
				out = append(out, h.res)
				break
			}
		}
	}
	return out
}

func (e *Env) ReadRemote(path string) ([]byte, error) {
	e.call("ReadRemote", path)
	d, err := e.Remote(path)
	return e.serve("remote:"+path, d, err)
}

func (e *Env) ReadConfig(file string) ([]byte, error) {
	e.call("ReadConfig", file)
	e.mu.Lock()
	d, ok := e.Config[file]
	d = append([]byte(nil), d...)
	e.mu.Unlock()
	if !ok {
		if file == "key" {
			return nil, errors.New("no key")
		}
		d = nil // an absent latest file is the empty timeline
	}
	if file == "key" {
		return d, nil
	}
	return e.serve("config:"+file, d, nil)
}

func (e *Env) WriteConfig(file string, old, new []byte) error {
	e.call("WriteConfig", file)
	e.mu.Lock()
	defer e.mu.Unlock()
	w := Write{File: file, Old: append([]byte(nil), old...), Data: append([]byte(nil), new...)}
	if !bytes.Equal(e.Config[file], old) {
		w.Err = sumdb.ErrWriteConflict
	} else {
		e.Config[file] = append([]byte(nil), new...)
	}
	e.ConfigWrites = append(e.ConfigWrites, w)
	return w.Err
}

func (e *Env) ReadCache(file string) ([]byte, error) {
	e.call("ReadCache", file)
	e.mu.Lock()
	d, ok := e.Cache[file]
	d = append([]byte(nil), d...)
	e.mu.Unlock()
	if !ok {
		return nil, fmt.Errorf("cache miss %s", file)
	}
	return e.serve("cache:"+file, d, nil)
}

func (e *Env) WriteCache(file string, data []byte) {
	e.call("WriteCache", file)
	e.mu.Lock()
	defer e.mu.Unlock()
	e.Cache[file] = append([]byte(nil), data...)
	e.CacheWrites = append(e.CacheWrites, Write{File: file, Data: append([]byte(nil), data...)})
}

func (e *Env) Log(msg string) {
	e.mu.Lock()
	e.Logs = append(e.Logs, msg)
	e.mu.Unlock()
}

func (e *Env) SecurityError(msg string) {
	e.call("SecurityError", "")
	e.mu.Lock()
	e.Security = append(e.Security, msg)
	e.mu.Unlock()
}

// TouchedSorted returns the touched resources in canonical (name) order.
func (e *Env) TouchedSorted() []Touch {
	e.mu.Lock()
	defer e.mu.Unlock()
	var out []Touch
	for _, t := range e.Touched {
		out = append(out, t)
	}
	sort.Slice(out, func(i, j int) bool { return out[i].Res < out[j].Res })
	return out
}

// Observation is a canonical, order-independent rendering of what happened (for determinism checks).
func (e *Env) Observation() string {
	e.mu.Lock()
	defer e.mu.Unlock()
	var lines []string
	for _, c := range e.Calls {
		lines = append(lines, c)
	}
	sort.Strings(lines)
	var b bytes.Buffer
	for _, l := range lines {
		b.WriteString(l + "\n")
	}
	for _, w := range e.ConfigWrites {
		fmt.Fprintf(&b, "WC %s %x err=%v\n", w.File, w.Data, w.Err)
	}
	ws := []string{}
	for _, w := range e.CacheWrites {
		ws = append(ws, fmt.Sprintf("WCache %s %x", w.File, w.Data))
	}
	sort.Strings(ws)
	for _, w := range ws {
		b.WriteString(w + "\n")
	}
	return b.String()
}

var _ sumdb.ClientOps = (*Env)(nil)
