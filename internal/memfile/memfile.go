// Package memfile is an in-memory implementation of golang.org/x/mod/zip.File.
package memfile

import (
	"bytes"
	"io"
	"os"
	"path"
	"sync/atomic"
	"time"
)

type File struct {
	P        string
	Data     []byte
	M        os.FileMode // 0 means regular 0644
	Declared int64       // reported size; -1 means len(Data)
	LstatErr error
	OpenErr  error
}

func Reg(p, data string) File { return File{P: p, Data: []byte(data), Declared: -1} }

func (f File) Path() string { return f.P }
func (f File) Lstat() (os.FileInfo, error) {
	if f.LstatErr != nil {
		return nil, f.LstatErr
	}
	return info{f}, nil
}
func (f File) Open() (io.ReadCloser, error) {
	if f.OpenErr != nil {
		return nil, f.OpenErr
	}
	cur := Open.Add(1)
	for {
		p := Peak.Load()
		if cur <= p || Peak.CompareAndSwap(p, cur) {
			break
		}
	}
	return &handle{Reader: bytes.NewReader(f.Data)}, nil
}

// Open counts the handles that are open right now (over all goroutines), Peak the largest value seen.
var Open, Peak atomic.Int64

type handle struct {
	io.Reader
	closed atomic.Bool
}

func (h *handle) Close() error {
	if h.closed.CompareAndSwap(false, true) {
		Open.Add(-1)
	}
	return nil
}

type info struct{ f File }

func (i info) Name() string { return path.Base(i.f.P) }
func (i info) Size() int64 {
	if i.f.Declared >= 0 {
		return i.f.Declared
	}
	return int64(len(i.f.Data))
}
func (i info) Mode() os.FileMode {
	if i.f.M == 0 {
		return 0o644
	}
	return i.f.M
}
func (i info) ModTime() time.Time { return time.Time{} }
func (i info) IsDir() bool        { return i.f.M&os.ModeDir != 0 }
func (i info) Sys() any           { return nil }
