// Package memfile is an in-memory implementation of golang.org/x/mod/zip.File.
package memfile

import (
	"bytes"
	"io"
	"os"
	"path"
	"sync/atomic"
	"time"
)

type File struct {
	P        string
	Data     []byte
	M        os.FileMode // 0 means regular 0644
	Declared int64       // reported size; -1 means len(Data)
	LstatErr error
	OpenErr  error
	// Shape is how the reader returned by Open delivers the content (all legal for an io.Reader):
	// 0 as much as asked for; 1 one byte per Read; 2 half of what is asked for; 3 the last bytes together
	// with io.EOF; 4 a Read of zero bytes with a nil error before every piece; 5 three bytes per Read.
	Shape int
}

// Shapes is the number of reader shapes.
const Shapes = 6

type shaped struct {
	r     io.Reader
	shape int
	flip  bool
}

func (s *shaped) Read(p []byte) (int, error) {
	if len(p) == 0 {
		return 0, nil
	}
	switch s.shape {
	case 1:
		return s.r.Read(p[:1])
	case 2:
		return s.r.Read(p[:(len(p)+1)/2])
	case 4:
		s.flip = !s.flip
		if s.flip {
			return 0, nil
		}
		return s.r.Read(p[:(len(p)+2)/3])
	case 5:
		if len(p) > 3 {
			p = p[:3]
		}
		return s.r.Read(p)
	}
	return s.r.Read(p)
}

func Reg(p, data string) File { return File{P: p, Data: []byte(data), Declared: -1} }

func (f File) Path() string { return f.P }
func (f File) Lstat() (os.FileInfo, error) {
	if f.LstatErr != nil {
		return nil, f.LstatErr
	}
	return info{f}, nil
}
func (f File) Open() (io.ReadCloser, error) {
	if f.OpenErr != nil {
		return nil, f.OpenErr
	}
	cur := Open.Add(1)
	for {
		p := Peak.Load()
		if cur <= p || Peak.CompareAndSwap(p, cur) {
			break
		}
	}
	var rd io.Reader = bytes.NewReader(f.Data)
	switch f.Shape {
	case 0:
	case 3:
		rd = &dataErr{data: f.Data}
	default:
		rd = &shaped{r: rd, shape: f.Shape}
	}
	return &handle{Reader: rd}, nil
}

// Open counts the handles that are open right now (over all goroutines), Peak the largest value seen.
var Open, Peak atomic.Int64

// dataErr returns the final bytes together with io.EOF.
type dataErr struct {
	data []byte
	off  int
}

func (d *dataErr) Read(p []byte) (int, error) {
	n := copy(p, d.data[d.off:])
	d.off += n
	if d.off == len(d.data) {
		return n, io.EOF
	}
	return n, nil
}

type handle struct {
	io.Reader
	closed atomic.Bool
}

func (h *handle) Close() error {
	if h.closed.CompareAndSwap(false, true) {
		Open.Add(-1)
	}
	return nil
}

type info struct{ f File }

func (i info) Name() string { return path.Base(i.f.P) }
func (i info) Size() int64 {
	if i.f.Declared >= 0 {
		return i.f.Declared
	}
	return int64(len(i.f.Data))
}
func (i info) Mode() os.FileMode {
	if i.f.M == 0 {
		return 0o644
	}
	return i.f.M
}
func (i info) ModTime() time.Time { return time.Time{} }
func (i info) IsDir() bool        { return i.f.M&os.ModeDir != 0 }
func (i info) Sys() any           { return nil }
