// Package world builds honest transparency-log worlds (records, stored hashes, tiles,
// signed tree heads) from the RFC 6962 reference, for the fault-enumeration explorers.
package world

import (
	"fmt"

	"golang.org/x/mod/sumdb/tlog"

	"verif/internal/tlogx"
)

// TrueTile returns the content of hash tile t in the log's tree restricted to its first
// treeN records, computed from the reference tree (not from tlog.ReadTileData).
// ok=false when the tile does not lie inside that tree.
func TrueTile(lg *tlogx.Log, treeN int, t tlog.Tile) (data []byte, ok bool) {
	if t.L < 0 || t.H < 1 || t.W < 1 || t.W > 1<<uint(t.H) {
		return nil, false
	}
	lev := uint(t.H * t.L)
	for i := 0; i < t.W; i++ {
		off := t.N<<uint(t.H) + int64(i)
		lo, hi := off<<lev, (off+1)<<lev
		if hi > int64(treeN) {
			return nil, false
		}
		h := lg.Ref.MTH(int(lo), int(hi))
		data = append(data, h[:]...)
	}
	return data, true
}

// Publisher is the set of tiles published along a growth chain using tlog.NewTiles.
type Publisher struct {
	H    int
	Have map[tlog.Tile]bool
}

func NewPublisher(h int, chain []int64) *Publisher {
	p := &Publisher{H: h, Have: map[tlog.Tile]bool{}}
	for i := 0; i+1 < len(chain); i++ {
		for _, t := range tlog.NewTiles(h, chain[i], chain[i+1]) {
			p.Have[t] = true
		}
	}
	return p
}

// Find returns the published tile that can serve t: t itself, else a wider tile with
// the same coordinates (the full one first).
func (p *Publisher) Find(t tlog.Tile) (tlog.Tile, string, bool) {
	if p.Have[t] {
		return t, "exact", true
	}
	full := t
	full.W = 1 << uint(t.H)
	if p.Have[full] {
		return full, "full-tile-fallback", true
	}
	for w := t.W + 1; w < full.W; w++ {
		x := t
		x.W = w
		if p.Have[x] {
			return x, "wider-partial", true
		}
	}
	return tlog.Tile{}, "", false
}

func TileString(t tlog.Tile) string { return fmt.Sprintf("%s", t.Path()) }
