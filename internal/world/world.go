package world

import (
	"bytes"
	"crypto/sha256"
	"encoding/base64"
	"fmt"
	"io"
	"strings"
	"sync"

	"golang.org/x/mod/module"
	"golang.org/x/mod/sumdb/note"
	"golang.org/x/mod/sumdb/tlog"

	"verif/internal/tlogx"
)

// detRand is a deterministic byte stream (keys must be reproducible across runs and workers).
type detRand struct {
	seed string
	ctr  int
	buf  []byte
}

func (d *detRand) Read(p []byte) (int, error) {
	for len(d.buf) < len(p) {
		s := sha256.Sum256([]byte(fmt.Sprintf("%s/%d", d.seed, d.ctr)))
		d.ctr++
		d.buf = append(d.buf, s[:]...)
	}
	copy(p, d.buf[:len(p)])
	d.buf = d.buf[len(p):]
	return len(p), nil
}

var _ io.Reader = (*detRand)(nil)

// Keys of the worlds: the log's real key and an attacker key with the same name.
type Keys struct {
	Name               string
	Signer, Verifier   string
	AttSigner, AttVKey string
	S, A               note.Signer
	V                  note.Verifier
}

var (
	keysOnce sync.Once
	keys     *Keys
)

func TheKeys() *Keys {
	keysOnce.Do(func() {
		k := &Keys{Name: "verif.example/log"}
		var err error
		k.Signer, k.Verifier, err = note.GenerateKey(&detRand{seed: "real"}, k.Name)
		if err != nil {
			panic(err)
		}
		k.AttSigner, k.AttVKey, err = note.GenerateKey(&detRand{seed: "attacker"}, k.Name)
		if err != nil {
			panic(err)
		}
		k.S, _ = note.NewSigner(k.Signer)
		k.A, _ = note.NewSigner(k.AttSigner)
		k.V, _ = note.NewVerifier(k.Verifier)
		keys = k
	})
	return keys
}

// Mod is one logged module version.
type Mod struct {
	Path, Version string
	Text          []byte // record text: the go.sum lines
}

func (m Mod) Lines(goMod bool) []string {
	v := m.Version
	if goMod {
		v += "/go.mod"
	}
	var out []string
	for _, l := range strings.Split(string(m.Text), "\n") {
		if strings.HasPrefix(l, m.Path+" "+v+" ") {
			out = append(out, l)
		}
	}
	return out
}

func h1(s string) string {
	x := sha256.Sum256([]byte(s))
	return "h1:" + base64.StdEncoding.EncodeToString(x[:])
}

// MakeMod builds the i'th module of a world; variant changes the hashes (a forged or forked record).
func MakeMod(i int, variant string) Mod {
	p := fmt.Sprintf("m%d.example/p%d", i, i)
	if i%5 == 2 {
		p = fmt.Sprintf("m%d.example/Upper%d", i, i)
	}
	v := fmt.Sprintf("v1.0.%d", i)
	switch i % 4 {
	case 1:
		v = fmt.Sprintf("v1.0.%d-RC.%d", i, i) // upper case in the version: escaped in lookup and cache paths
	case 3:
		v = fmt.Sprintf("v0.0.0-20240102150405-ABCdef%06d", i)
	}
	// how a version ends: a digit, or one of the letters of a pre-release word or a revision, among them the
	// letters of the "/go.mod" suffix a lookup may carry
	switch i % 8 {
	case 5:
		v += ".mod"
	case 7:
		v = fmt.Sprintf("v0.0.0-20240102150405-ABCdef%05dd", i)
	case 4:
		v += "-go"
	case 6:
		v += "-rc.g"
	}
	text := fmt.Sprintf("%s %s %s\n%s %s/go.mod %s\n", p, v, h1(p+v+variant), p, v, h1(p+v+"mod"+variant))
	return Mod{p, v, []byte(text)}
}

// SignedLog is a log of modules with signed heads for every size.
type SignedLog struct {
	Mods  []Mod
	Log   *tlogx.Log
	// DefaultExtra, if set, is appended as extension text lines to every tree head of this log that is
	// requested without explicit extra lines (tlog.ParseTree ignores such lines; they are signed).
	DefaultExtra string
	mu    sync.Mutex
	heads map[string][]byte
}

func NewSignedLog(mods []Mod) *SignedLog {
	var recs [][]byte
	for _, m := range mods {
		recs = append(recs, m.Text)
	}
	lg, err := tlogx.Build(recs)
	if err != nil {
		panic(err)
	}
	if lg.Ref == nil {
		lg, _ = tlogx.Build(nil)
	}
	return &SignedLog{Mods: mods, Log: lg, heads: map[string][]byte{}}
}

// Honest returns the canonical honest log of n records.
func Honest(n int) *SignedLog {
	var mods []Mod
	for i := 0; i < n; i++ {
		mods = append(mods, MakeMod(i, ""))
	}
	return NewSignedLog(mods)
}

// Fork returns a log sharing the first p records with Honest(.) and diverging after, n records long.
func Fork(p, n int, variant string) *SignedLog {
	var mods []Mod
	for i := 0; i < n; i++ {
		if i < p {
			mods = append(mods, MakeMod(i, ""))
		} else {
			mods = append(mods, MakeMod(i, variant))
		}
	}
	return NewSignedLog(mods)
}

func (l *SignedLog) N() int { return len(l.Mods) }

func (l *SignedLog) Tree(size int) tlog.Tree {
	if size == 0 {
		h, _ := tlog.TreeHash(0, nil)
		return tlog.Tree{N: 0, Hash: h}
	}
	return tlog.Tree{N: int64(size), Hash: l.Log.Root(size)}
}

// HeadText is the tree description of the first size records, with optional extra lines.
func (l *SignedLog) HeadText(size int, extra string) string {
	return string(tlog.FormatTree(l.Tree(size))) + extra
}

// Head returns the tree head of the given size signed by who ("real", "attacker", "both"),
// with optional extra text lines (forward-compatible extension of the tree note).
func (l *SignedLog) Head(size int, who, extra string) []byte {
	tag := extra
	if extra == "" {
		extra = l.DefaultExtra
		tag = "<default>"
	}
	key := fmt.Sprintf("%d|%s|%s", size, who, tag)
	l.mu.Lock()
	if b, ok := l.heads[key]; ok {
		l.mu.Unlock()
		return b
	}
	l.mu.Unlock()
	if base, ok := strings.CutSuffix(who, "-twice"); ok {
		// the same head with every signature line written twice (byte-identical repetition)
		b := l.Head(size, base, extra)
		i := bytes.Index(b, []byte("\n\n"))
		sigs := b[i+2:]
		out := append(append(append([]byte(nil), b[:i+2]...), sigs...), sigs...)
		l.mu.Lock()
		l.heads[key] = out
		l.mu.Unlock()
		return out
	}
	k := TheKeys()
	var signers []note.Signer
	switch who {
	case "real":
		signers = []note.Signer{k.S}
	case "attacker":
		signers = []note.Signer{k.A}
	case "both":
		signers = []note.Signer{k.A, k.S}
	}
	b, err := note.Sign(&note.Note{Text: l.HeadText(size, extra)}, signers...)
	if err != nil {
		panic(err)
	}
	l.mu.Lock()
	l.heads[key] = b
	l.mu.Unlock()
	return b
}

// Find returns the record id of module path@version (version without /go.mod), or -1.
func (l *SignedLog) Find(path, vers string) int {
	for i, m := range l.Mods {
		if m.Path == path && m.Version == vers {
			return i
		}
	}
	return -1
}

// LookupResponse is what an honest server at the given size answers for record id.
func (l *SignedLog) LookupResponse(id, size int) []byte {
	msg, err := tlog.FormatRecord(int64(id), l.Mods[id].Text)
	if err != nil {
		panic(err)
	}
	return append(msg, l.Head(size, "real", "")...)
}

// ServeCompacting is an honest server that, like a static file tree maintained with tlog.NewTiles
// and periodic clean-up, no longer has a partial tile once the corresponding full tile exists.
// (The client is documented to fall back to the full tile in that case.)
func (l *SignedLog) ServeCompacting(rpath string, size int) ([]byte, error) {
	if strings.HasPrefix(rpath, "/tile/") {
		if t, err := tlog.ParseTilePath(rpath[1:]); err == nil && t.L >= 0 && t.W < 1<<uint(t.H) {
			full := t
			full.W = 1 << uint(t.H)
			if _, ok := TrueTile(l.Log, size, full); ok {
				// a plain error value: ClientOps.ReadRemote promises nothing about error types
				return nil, fmt.Errorf("GET %s: 404 Not Found", rpath)
			}
		}
	}
	return l.Serve(rpath, size)
}

// Serve answers a remote path the way an honest server holding the first size records does.
func (l *SignedLog) Serve(rpath string, size int) ([]byte, error) {
	switch {
	case rpath == "/latest":
		return l.Head(size, "real", ""), nil
	case strings.HasPrefix(rpath, "/lookup/"):
		mv := strings.TrimPrefix(rpath, "/lookup/")
		i := strings.Index(mv, "@")
		if i < 0 {
			return nil, fmt.Errorf("400 bad lookup path")
		}
		p, err1 := module.UnescapePath(mv[:i])
		v, err2 := module.UnescapeVersion(mv[i+1:])
		if err1 != nil || err2 != nil {
			return nil, fmt.Errorf("400 bad escaped path")
		}
		id := l.Find(p, v)
		if id < 0 || id >= size {
			return nil, fmt.Errorf("GET %s: 404 Not Found", rpath)
		}
		return l.LookupResponse(id, size), nil
	case strings.HasPrefix(rpath, "/tile/"):
		t, err := tlog.ParseTilePath(rpath[1:])
		if err != nil || t.L < 0 {
			return nil, fmt.Errorf("400 bad tile path")
		}
		d, ok := TrueTile(l.Log, size, t)
		if !ok {
			return nil, fmt.Errorf("GET %s: 404 Not Found", rpath)
		}
		return d, nil
	}
	return nil, fmt.Errorf("GET %s: 404 Not Found", rpath)
}

// SignText signs an arbitrary note text with the real key (a misbehaving operator).
func SignText(text string) []byte {
	b, err := note.Sign(&note.Note{Text: text}, TheKeys().S)
	if err != nil {
		panic(err)
	}
	return b
}
