// Package semverref is a naive reference model of the version grammar documented in
// golang.org/x/mod/semver and of SemVer 2.0.0 precedence. It shares no code with /repo.
package semverref

import (
	"math/big"
	"regexp"
	"strings"
)

const (
	num    = `(?:0|[1-9][0-9]*)`
	preID  = `(?:0|[1-9][0-9]*|[0-9]*[A-Za-z-][0-9A-Za-z-]*)`
	bldID  = `[0-9A-Za-z-]+`
	preRE  = `(-` + preID + `(?:\.` + preID + `)*)`
	bldRE  = `(\+` + bldID + `(?:\.` + bldID + `)*)`
	fullRE = `^v(` + num + `)(?:\.(` + num + `)(?:\.(` + num + `)` + preRE + `?` + bldRE + `?)?)?$`
)

var re = regexp.MustCompile(fullRE)

type V struct {
	Valid               bool
	Major, Minor, Patch string // digits; Minor/Patch "" when shortened
	Pre, Build          string // with leading - / +, or ""
}

func Parse(s string) V {
	m := re.FindStringSubmatch(s)
	if m == nil {
		return V{}
	}
	return V{Valid: true, Major: m[1], Minor: m[2], Patch: m[3], Pre: m[4], Build: m[5]}
}

func (v V) minor() string {
	if v.Minor == "" {
		return "0"
	}
	return v.Minor
}
func (v V) patch() string {
	if v.Patch == "" {
		return "0"
	}
	return v.Patch
}

func (v V) Canonical() string {
	if !v.Valid {
		return ""
	}
	return "v" + v.Major + "." + v.minor() + "." + v.patch() + v.Pre
}
func (v V) MajorS() string {
	if !v.Valid {
		return ""
	}
	return "v" + v.Major
}
func (v V) MajorMinor() string {
	if !v.Valid {
		return ""
	}
	return "v" + v.Major + "." + v.minor()
}
func (v V) Prerelease() string {
	if !v.Valid {
		return ""
	}
	return v.Pre
}
func (v V) BuildS() string {
	if !v.Valid {
		return ""
	}
	return v.Build
}

func cmpNum(a, b string) int {
	x, _ := new(big.Int).SetString(a, 10)
	y, _ := new(big.Int).SetString(b, 10)
	return x.Cmp(y)
}

func isNum(s string) bool {
	if s == "" {
		return false
	}
	for _, c := range s {
		if c < '0' || c > '9' {
			return false
		}
	}
	return true
}

// Compare is SemVer 2.0.0 section 11 precedence, with invalid versions equal to each
// other and below every valid one.
func Compare(a, b V) int {
	switch {
	case !a.Valid && !b.Valid:
		return 0
	case !a.Valid:
		return -1
	case !b.Valid:
		return 1
	}
	if c := cmpNum(a.Major, b.Major); c != 0 {
		return c
	}
	if c := cmpNum(a.minor(), b.minor()); c != 0 {
		return c
	}
	if c := cmpNum(a.patch(), b.patch()); c != 0 {
		return c
	}
	switch {
	case a.Pre == "" && b.Pre == "":
		return 0
	case a.Pre == "":
		return 1
	case b.Pre == "":
		return -1
	}
	x := strings.Split(a.Pre[1:], ".")
	y := strings.Split(b.Pre[1:], ".")
	for i := 0; i < len(x) && i < len(y); i++ {
		p, q := x[i], y[i]
		pn, qn := isNum(p), isNum(q)
		switch {
		case pn && qn:
			if c := cmpNum(p, q); c != 0 {
				return c
			}
		case pn:
			return -1
		case qn:
			return 1
		default:
			if p < q {
				return -1
			}
			if p > q {
				return 1
			}
		}
	}
	switch {
	case len(x) < len(y):
		return -1
	case len(x) > len(y):
		return 1
	}
	return 0
}
