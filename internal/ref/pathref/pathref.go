// Package pathref is a naive reference model of the path rules documented in
// golang.org/x/mod/module (CheckPath, CheckImportPath, CheckFilePath, SplitPathVersion,
// Check, MatchPrefixPatterns). It is written from the doc comments and shares no code
// with /repo. Four clauses of the exported documentation are not what the code does;
// they are switchable (Opt) so a disagreement can be attributed to exactly one of them.
package pathref

import (
	"path"
	"regexp"
	"strings"
	"unicode"
	"unicode/utf8"

	"verif/internal/ref/semverref"
)

type Kind int

const (
	Module Kind = iota
	Import
	File
)

func (k Kind) String() string { return [...]string{"module", "import", "file"}[k] }

// Opt selects, per clause, the exported documentation (false) or the implemented variant (true).
type Opt struct {
	AllowDotDot        bool // doc: an element must not contain two dots in a row; code accepts "a..b"
	TildeOnShortPrefix bool // doc: the *element* must not end in ~digits; code tests the part before the first dot
	FileNoTildeRule    bool // doc: file paths = import paths with more characters (so the ~digits rule applies); code skips it for file paths
	ImportLeadingDash  bool // doc: silent; code refuses import (and module) paths whose first byte is '-'
}

var Doc = Opt{}
var Impl = Opt{true, true, true, true}

// Classes lists the four clauses by name, in the order used for attribution.
var Classes = []struct {
	Name string
	Set  func(*Opt, bool)
}{
	{"dotdot-inside-element", func(o *Opt, v bool) { o.AllowDotDot = v }},
	{"tilde-digits-on-part-before-first-dot", func(o *Opt, v bool) { o.TildeOnShortPrefix = v }},
	{"file-path-skips-tilde-digits-rule", func(o *Opt, v bool) { o.FileNoTildeRule = v }},
	{"import-path-leading-dash", func(o *Opt, v bool) { o.ImportLeadingDash = v }},
}

var reserved = map[string]bool{}

func init() {
	for _, n := range []string{"con", "prn", "aux", "nul"} {
		reserved[n] = true
	}
	for _, d := range "123456789" {
		reserved["com"+string(d)] = true
		reserved["lpt"+string(d)] = true
	}
}

func asciiLetter(r rune) bool { return 'a' <= r && r <= 'z' || 'A' <= r && r <= 'Z' }
func digit(r rune) bool       { return '0' <= r && r <= '9' }

func charOK(r rune, k Kind) bool {
	if asciiLetter(r) || digit(r) {
		return true
	}
	switch k {
	case Module:
		return strings.ContainsRune("-._~", r)
	case Import:
		return strings.ContainsRune("-._~+", r)
	default:
		if r < 0x80 {
			return strings.ContainsRune("!#$%&()+,-.=@[]^_{}~ ", r)
		}
		return unicode.In(r, unicode.Lu, unicode.Ll, unicode.Lt, unicode.Lm, unicode.Lo)
	}
}

var tildeDigits = regexp.MustCompile(`~[0-9]+$`)

func elemOK(e string, k Kind, o Opt) bool {
	if e == "" {
		return false
	}
	for _, r := range e {
		if !charOK(r, k) {
			return false
		}
	}
	if strings.HasSuffix(e, ".") { // also excludes "." and every all-dot element
		return false
	}
	if strings.Trim(e, ".") == "" {
		return false
	}
	if !o.AllowDotDot && strings.Contains(e, "..") {
		return false
	}
	short := e
	if i := strings.IndexByte(e, '.'); i >= 0 {
		short = e[:i]
	}
	if reserved[strings.ToLower(short)] {
		return false
	}
	if k != File || !o.FileNoTildeRule {
		subject := e
		if o.TildeOnShortPrefix {
			subject = short
		}
		if tildeDigits.MatchString(subject) {
			return false
		}
	}
	if k == Module && e[0] == '.' {
		return false
	}
	return true
}

func generic(p string, k Kind, o Opt) bool {
	if !utf8.ValidString(p) || p == "" {
		return false
	}
	if o.ImportLeadingDash && k != File && p[0] == '-' {
		return false
	}
	for _, e := range strings.Split(p, "/") { // empty elements cover leading, trailing and double slashes
		if !elemOK(e, k, o) {
			return false
		}
	}
	return true
}

var (
	firstElem  = regexp.MustCompile(`^[a-z0-9.-]+$`)
	looksVN    = regexp.MustCompile(`^v[0-9.]+$`)
	goodVN     = regexp.MustCompile(`^v[1-9][0-9]*$`)
	gopkgMajor = regexp.MustCompile(`\.v(0|[1-9][0-9]*)(-unstable)?$`)
)

// Split is the reference for SplitPathVersion on arbitrary strings.
func Split(p string) (prefix, major string, ok bool) {
	if strings.HasPrefix(p, "gopkg.in/") {
		loc := gopkgMajor.FindStringIndex(p)
		if loc == nil || loc[0] == 0 {
			return p, "", false
		}
		m := p[loc[0]:]
		if m == ".v0-unstable" { // the implementation allows a zero major only as plain ".v0" (see DESIGN 7)
			return p, "", false
		}
		return p[:loc[0]], m, true
	}
	i := strings.LastIndexByte(p, '/')
	if i <= 0 { // "final path element of the form /vN" needs a non-empty prefix and a slash
		return p, "", true
	}
	last := p[i+1:]
	if !looksVN.MatchString(last) {
		return p, "", true
	}
	if !goodVN.MatchString(last) || last == "v1" {
		return p, "", false
	}
	return p[:i], p[i:], true
}

// Valid reports whether p is a valid path of kind k under option set o.
func Valid(p string, k Kind, o Opt) bool {
	if !generic(p, k, o) {
		return false
	}
	if k != Module {
		return true
	}
	first := p
	if i := strings.IndexByte(p, '/'); i >= 0 {
		first = p[:i]
	}
	if !firstElem.MatchString(first) || !strings.Contains(first, ".") || first[0] == '-' {
		return false
	}
	_, _, ok := Split(p)
	return ok
}

// MajorMatches is the reference for CheckPathMajor(v, pathMajor)==nil with a valid version
// and a pathMajor produced by Split.
func MajorMatches(v, pathMajor string) bool {
	sv := semverref.Parse(v)
	if !sv.Valid {
		return false
	}
	m := "v" + sv.Major
	switch {
	case pathMajor == "":
		return m == "v0" || m == "v1" || sv.Build == "+incompatible"
	case pathMajor[0] == '/':
		return m == pathMajor[1:]
	default:
		pm := strings.TrimSuffix(pathMajor, "-unstable")
		if pm == ".v1" && strings.HasPrefix(v, "v0.0.0-") {
			return true
		}
		return m == pm[1:]
	}
}

// Check is the reference for module.Check(path, version)==nil.
func Check(p, v string, o Opt) bool {
	if !Valid(p, Module, o) || !semverref.Parse(v).Valid {
		return false
	}
	_, major, _ := Split(p)
	return MajorMatches(v, major)
}

// MatchPrefix is the documented definition: some pattern of the comma-separated list
// (empty ones and malformed ones ignored, one trailing slash ignored) matches, by
// path.Match, some prefix of target made of whole leading path elements.
func MatchPrefix(globs, target string) bool {
	elems := strings.Split(target, "/")
	for _, g := range strings.Split(globs, ",") {
		g = strings.TrimSuffix(g, "/")
		if g == "" {
			continue
		}
		for k := 1; k <= len(elems); k++ {
			if ok, err := path.Match(g, strings.Join(elems[:k], "/")); err == nil && ok {
				return true
			}
		}
	}
	return false
}
