// Package rfc6962 is a naive transcription of RFC 6962 section 2.1 (MTH, PATH, PROOF on
// the record list) and of the iterative verification algorithms of RFC 9162 sections
// 2.1.3.2 and 2.1.4.2. It shares no code with /repo and never uses stored-hash indexes.
package rfc6962

import (
	"crypto/sha256"
	"sync"
)

type Hash = [32]byte

func Leaf(d []byte) Hash {
	return sha256.Sum256(append([]byte{0}, d...))
}

func Node(l, r Hash) Hash {
	b := make([]byte, 0, 65)
	b = append(b, 1)
	b = append(b, l[:]...)
	b = append(b, r[:]...)
	return sha256.Sum256(b)
}

// Tree memoises MTH over ranges of one record list.
type Tree struct {
	Leaves []Hash // leaf hashes of D
	memo   map[[2]int]Hash
	mu     sync.RWMutex
}

func New(records [][]byte) *Tree {
	t := &Tree{memo: map[[2]int]Hash{}}
	for _, r := range records {
		t.Leaves = append(t.Leaves, Leaf(r))
	}
	return t
}

func NewFromLeaves(l []Hash) *Tree { return &Tree{Leaves: l, memo: map[[2]int]Hash{}} }

// split: the largest power of two smaller than n (n > 1).
func split(n int) int {
	k := 1
	for k*2 < n {
		k *= 2
	}
	return k
}

// MTH of D[lo:hi].
func (t *Tree) MTH(lo, hi int) Hash {
	n := hi - lo
	if n == 0 {
		return sha256.Sum256(nil)
	}
	if n == 1 {
		return t.Leaves[lo]
	}
	key := [2]int{lo, hi}
	t.mu.RLock()
	h, ok := t.memo[key]
	t.mu.RUnlock()
	if ok {
		return h
	}
	k := split(n)
	h = Node(t.MTH(lo, lo+k), t.MTH(lo+k, hi))
	t.mu.Lock()
	t.memo[key] = h
	t.mu.Unlock()
	return h
}

// Path is PATH(m, D[lo:hi]) with m relative to lo.
func (t *Tree) Path(m, lo, hi int) []Hash {
	n := hi - lo
	if n == 1 {
		return nil
	}
	k := split(n)
	if m < k {
		return append(t.Path(m, lo, lo+k), t.MTH(lo+k, hi))
	}
	return append(t.Path(m-k, lo+k, hi), t.MTH(lo, lo+k))
}

// Proof is PROOF(m, D[0:n]) for 0 < m <= n (empty for m == n).
func (t *Tree) Proof(m, n int) []Hash {
	if m == n {
		return nil
	}
	return t.subproof(m, 0, n, true)
}

func (t *Tree) subproof(m, lo, hi int, b bool) []Hash {
	n := hi - lo
	if m == n {
		if b {
			return nil
		}
		return []Hash{t.MTH(lo, hi)}
	}
	k := split(n)
	if m <= k {
		return append(t.subproof(m, lo, lo+k, b), t.MTH(lo+k, hi))
	}
	return append(t.subproof(m-k, lo+k, hi, false), t.MTH(lo, lo+k))
}

// VerifyInclusion is RFC 9162 2.1.3.2.
func VerifyInclusion(path []Hash, treeSize, leafIndex int64, root, leaf Hash) bool {
	if leafIndex < 0 || treeSize < 0 || leafIndex >= treeSize {
		return false
	}
	fn, sn := uint64(leafIndex), uint64(treeSize-1)
	r := leaf
	for _, p := range path {
		if sn == 0 {
			return false
		}
		if fn&1 == 1 || fn == sn {
			r = Node(p, r)
			if fn&1 == 0 {
				for fn&1 == 0 && fn != 0 {
					fn >>= 1
					sn >>= 1
				}
			}
		} else {
			r = Node(r, p)
		}
		fn >>= 1
		sn >>= 1
	}
	return sn == 0 && r == root
}

// VerifyConsistency is RFC 9162 2.1.4.2, extended with the trivial case first == second
// (empty proof, equal hashes) that tlog also defines.
func VerifyConsistency(path []Hash, first, second int64, firstHash, secondHash Hash) bool {
	if first < 1 || second < 1 || first > second {
		return false
	}
	if first == second {
		return len(path) == 0 && firstHash == secondHash
	}
	if len(path) == 0 {
		return false
	}
	if first&(first-1) == 0 {
		path = append([]Hash{firstHash}, path...)
	}
	fn, sn := uint64(first-1), uint64(second-1)
	for fn&1 == 1 {
		fn >>= 1
		sn >>= 1
	}
	fr, sr := path[0], path[0]
	for _, c := range path[1:] {
		if sn == 0 {
			return false
		}
		if fn&1 == 1 || fn == sn {
			fr = Node(c, fr)
			sr = Node(c, sr)
			if fn&1 == 0 {
				for fn&1 == 0 && fn != 0 {
					fn >>= 1
					sn >>= 1
				}
			}
		} else {
			sr = Node(sr, c)
		}
		fn >>= 1
		sn >>= 1
	}
	return fr == firstHash && sr == secondHash && sn == 0
}
