// Package zipref is a naive reference model of which files belong in a module zip
// (golang.org/x/mod/zip.CheckFiles) and of the restrictions on module zip archives
// (zip.CheckZip / Unzip). It is written from the package documentation and the documented
// decision order, uses pairwise strings.EqualFold instead of a folding key, and shares no
// code with /repo.
package zipref

import (
	"go/version"
	"path"
	"strings"

	"golang.org/x/mod/modfile"

	"verif/internal/ref/pathref"
)

const (
	MaxZipFile = 500 << 20
	MaxGoMod   = 16 << 20
	MaxLICENSE = 16 << 20
)

type Mode int

const (
	Regular Mode = iota
	Symlink
	Dir
	Irregular // named pipe, device, ...
)

type File struct {
	Path     string
	Mode     Mode
	Size     int64
	LstatErr bool
	Data     string // content (used for the root go.mod only)
	OpenErr  bool
}

type Class int

const (
	Valid Class = iota
	Omitted
	Invalid
)

func (c Class) String() string { return [...]string{"valid", "omitted", "invalid"}[c] }

type Report struct {
	Valid     []string
	Omitted   []string
	Invalid   []string
	SizeError bool
}

func (r Report) OK() bool { return !r.SizeError && len(r.Invalid) == 0 }

// GoLang returns the language version ("go1.24") declared by the root go.mod, or "".
func GoLang(files []File) string {
	v := ""
	for _, f := range files {
		if f.Path == "go.mod" && !f.LstatErr && f.Mode == Regular && !f.OpenErr {
			mf, err := modfile.ParseLax("go.mod", []byte(f.Data), nil)
			if err != nil || mf.Go == nil {
				v = ""
			} else {
				v = version.Lang("go" + mf.Go.Version)
			}
		}
	}
	return v
}

// Vendored: a file in a package whose import path contains (but does not end with) the
// element "vendor"; with the documented pre-1.24 quirk and the 1.24 vendor/modules.txt rule.
func Vendored(name, lang string) bool {
	new := version.Compare(lang, "go1.24") >= 0
	if new && name == "vendor/modules.txt" {
		return true
	}
	var rest string
	switch {
	case strings.HasPrefix(name, "vendor/"):
		rest = name[len("vendor/"):]
	case strings.Contains(name, "/vendor/"):
		if new {
			rest = name[strings.Index(name, "/vendor/")+len("/vendor/"):]
		} else {
			// golang.org/issue/37397: older versions skipped len("/vendor/") bytes from the start of the name
			rest = name[len("/vendor/"):]
		}
	default:
		return false
	}
	return strings.Contains(rest, "/")
}

type entry struct {
	path  string
	isDir bool
}

type registry []entry

// check registers p (and its parent directories) and reports a collision.
func (r *registry) check(p string, isDir bool) bool {
	found := false
	for _, e := range *r {
		if strings.EqualFold(e.path, p) {
			found = true
			if e.path != p || e.isDir != isDir || !isDir {
				return false
			}
			break
		}
	}
	if !found {
		*r = append(*r, entry{p, isDir})
	}
	if parent := path.Dir(p); parent != "." {
		return r.check(parent, true)
	}
	return true
}

// Classify is the reference for zip.CheckFiles.
func Classify(files []File) Report {
	var rep Report
	reported := map[string]bool{}
	add := func(p string, c Class) {
		if reported[p] {
			return // repeated reports for one path are collapsed
		}
		reported[p] = true
		if c == Omitted {
			rep.Omitted = append(rep.Omitted, p)
		} else {
			rep.Invalid = append(rep.Invalid, p)
		}
	}
	lang := GoLang(files)
	// directories that contain a go.mod (any case) are modules of their own
	modDirs := map[string]bool{}
	for _, f := range files {
		dir, base := path.Split(f.Path)
		if strings.EqualFold(base, "go.mod") {
			if f.LstatErr {
				add(f.Path, Invalid)
				continue
			}
			if f.Mode == Regular {
				modDirs[dir] = true
			}
		}
	}
	inSubmodule := func(p string) bool {
		for {
			dir, _ := path.Split(p)
			if dir == "" {
				return false
			}
			if modDirs[dir] {
				return true
			}
			p = dir[:len(dir)-1]
		}
	}
	var reg registry
	remaining := int64(MaxZipFile)
	for _, f := range files {
		p := f.Path
		switch {
		case p != path.Clean(p):
			add(p, Invalid)
		case path.IsAbs(p):
			add(p, Invalid)
		case Vendored(p, lang):
			add(p, Omitted)
		case inSubmodule(p):
			add(p, Omitted)
		case p == ".hg_archival.txt":
			add(p, Omitted)
		case !pathref.Valid(p, pathref.File, pathref.Impl):
			add(p, Invalid)
		case strings.ToLower(p) == "go.mod" && p != "go.mod":
			add(p, Invalid)
		case f.LstatErr:
			add(p, Invalid)
		case !reg.check(p, f.Mode == Dir):
			add(p, Invalid)
		case f.Mode == Symlink:
			add(p, Omitted)
		case f.Mode != Regular:
			add(p, Omitted)
		default:
			if f.Size >= 0 && f.Size <= remaining {
				remaining -= f.Size
			} else {
				rep.SizeError = true
			}
			if p == "go.mod" && f.Size > MaxGoMod || p == "LICENSE" && f.Size > MaxLICENSE {
				add(p, Invalid)
				continue
			}
			rep.Valid = append(rep.Valid, p)
		}
	}
	return rep
}

// ZipEntry is one entry of an archive as seen by the reference validator.
type ZipEntry struct {
	Name     string
	Declared uint64 // declared uncompressed size
}

// CheckZipEntries is the reference for the documented restrictions on archive entries
// (what zip.CheckZip validates): returns the invalid entry names and whether the archive is acceptable.
func CheckZipEntries(modPath, vers string, entries []ZipEntry) (invalid []string, sizeErr bool) {
	prefix := modPath + "@" + vers + "/"
	var reg registry
	var total int64
	for _, e := range entries {
		if !strings.HasPrefix(e.Name, prefix) {
			invalid = append(invalid, e.Name)
			continue
		}
		name := e.Name[len(prefix):]
		if name == "" {
			continue
		}
		isDir := strings.HasSuffix(name, "/")
		if isDir {
			name = name[:len(name)-1]
		}
		switch {
		case path.Clean(name) != name:
			invalid = append(invalid, e.Name)
			continue
		case !pathref.Valid(name, pathref.File, pathref.Impl):
			invalid = append(invalid, e.Name)
			continue
		case !reg.check(name, isDir):
			invalid = append(invalid, e.Name)
			continue
		}
		if isDir {
			continue
		}
		if strings.EqualFold(path.Base(name), "go.mod") && name != "go.mod" {
			invalid = append(invalid, e.Name)
			continue
		}
		sz := int64(e.Declared)
		if sz >= 0 && MaxZipFile-total >= sz {
			total += sz
		} else {
			sizeErr = true
		}
		if name == "go.mod" && sz > MaxGoMod || name == "LICENSE" && sz > MaxLICENSE {
			invalid = append(invalid, e.Name)
		}
	}
	return invalid, sizeErr
}
