// Package tlogx builds small logs with the real tlog code next to the RFC 6962 reference tree.
package tlogx

import (
	"fmt"

	"golang.org/x/mod/sumdb/tlog"

	"verif/internal/ref/rfc6962"
)

type Log struct {
	Records [][]byte
	Store   []tlog.Hash // dense stored-hash array as produced by tlog.StoredHashes
	Ref     *rfc6962.Tree
}

// Pattern returns n records: 0 all distinct, 1 all equal, 2 period three.
func Pattern(kind, n int) [][]byte {
	out := make([][]byte, n)
	for i := range out {
		switch kind {
		case 0:
			out[i] = []byte(fmt.Sprintf("record %d\n", i))
		case 1:
			out[i] = []byte("same\n")
		case 3:
			// record lengths around hash block sizes and common stack buffer sizes
			lens := []int{0, 1, 31, 32, 55, 56, 63, 64, 65, 119, 127, 128, 255, 256, 257, 511, 512, 1023, 1024, 4096, 65536}
			b := make([]byte, lens[i%len(lens)])
			for j := range b {
				b[j] = byte('a' + (i+j)%26)
			}
			out[i] = b
		default:
			out[i] = []byte(fmt.Sprintf("p%d\n", i%3))
		}
	}
	return out
}

func (l *Log) ReadHashes(indexes []int64) ([]tlog.Hash, error) {
	out := make([]tlog.Hash, len(indexes))
	for i, x := range indexes {
		if x < 0 || x >= int64(len(l.Store)) {
			return nil, fmt.Errorf("tlogx: stored hash index %d out of range [0,%d)", x, len(l.Store))
		}
		out[i] = l.Store[x]
	}
	return out, nil
}

// Build appends the records one at a time with tlog.StoredHashes.
func Build(records [][]byte) (*Log, error) {
	l := &Log{}
	for _, r := range records {
		if err := l.Append(r); err != nil {
			return nil, err
		}
	}
	return l, nil
}

func (l *Log) Append(rec []byte) error {
	hs, err := tlog.StoredHashes(int64(len(l.Records)), rec, l)
	if err != nil {
		return err
	}
	l.Records = append(l.Records, rec)
	l.Store = append(l.Store, hs...)
	if l.Ref == nil {
		l.Ref = rfc6962.New(nil)
	}
	l.Ref.Leaves = append(l.Ref.Leaves, rfc6962.Leaf(rec))
	return nil
}

func (l *Log) N() int { return len(l.Records) }

// Root is the reference tree hash of the first n records.
func (l *Log) Root(n int) tlog.Hash { return tlog.Hash(l.Ref.MTH(0, n)) }
