// Package c04: version comparison is the SemVer 2.0.0 total preorder on the documented grammar.
package c04

import (
	"encoding/json"
	"fmt"
	"math/big"
	"sort"
	"strconv"
	"strings"
	"sync"

	"golang.org/x/mod/module"
	"golang.org/x/mod/semver"

	"verif/internal/enum"
	"verif/internal/fw"
	"verif/internal/ref/semverref"
)

var alphabet = []string{"v", "0", "1", "9", ".", "-", "+", "a", "B", "~"}

type caseT struct {
	Kind   string   `json:"kind"` // "unary", "pair", "triple", "sort"
	Inputs []string `json:"inputs_quoted"`
}

func q(ss ...string) []string {
	out := make([]string, len(ss))
	for i, s := range ss {
		out[i] = strconv.QuoteToASCII(s)
	}
	return out
}

// unary checks validity and the accessors of one string; returns "" or a message.
func unary(s string) (string, bool) {
	ref := semverref.Parse(s)
	if got := semver.IsValid(s); got != ref.Valid {
		return fmt.Sprintf("IsValid(%q)=%v, documented grammar says %v", s, got, ref.Valid), ref.Valid
	}
	if got, want := semver.Canonical(s), ref.Canonical(); got != want {
		return fmt.Sprintf("Canonical(%q)=%q want %q", s, got, want), ref.Valid
	}
	if got, want := semver.Major(s), ref.MajorS(); got != want {
		return fmt.Sprintf("Major(%q)=%q want %q", s, got, want), ref.Valid
	}
	if got, want := semver.MajorMinor(s), ref.MajorMinor(); got != want {
		return fmt.Sprintf("MajorMinor(%q)=%q want %q", s, got, want), ref.Valid
	}
	if got, want := semver.Prerelease(s), ref.Prerelease(); got != want {
		return fmt.Sprintf("Prerelease(%q)=%q want %q", s, got, want), ref.Valid
	}
	if got, want := semver.Build(s), ref.BuildS(); got != want {
		return fmt.Sprintf("Build(%q)=%q want %q", s, got, want), ref.Valid
	}
	want := ref.Canonical()
	if ref.Valid && ref.Build == "+incompatible" {
		want += "+incompatible"
	}
	if got := module.CanonicalVersion(s); got != want {
		return fmt.Sprintf("module.CanonicalVersion(%q)=%q want %q", s, got, want), ref.Valid
	}
	return "", ref.Valid
}

func pair(a, b string) string {
	ra, rb := semverref.Parse(a), semverref.Parse(b)
	c := semver.Compare(a, b)
	if c != -1 && c != 0 && c != 1 {
		return fmt.Sprintf("Compare(%q,%q)=%d not in {-1,0,1}", a, b, c)
	}
	if want := semverref.Compare(ra, rb); c != want {
		return fmt.Sprintf("Compare(%q,%q)=%d, SemVer precedence says %d", a, b, c, want)
	}
	if d := semver.Compare(b, a); d != -c {
		return fmt.Sprintf("Compare(%q,%q)=%d but Compare(%q,%q)=%d (antisymmetry)", a, b, c, b, a, d)
	}
	if (c == 0) != (semver.Canonical(a) == semver.Canonical(b)) {
		return fmt.Sprintf("Compare(%q,%q)=%d but Canonical %q vs %q", a, b, c, semver.Canonical(a), semver.Canonical(b))
	}
	return ""
}

func triple(a, b, c string) string {
	ab, bc, ac := semver.Compare(a, b), semver.Compare(b, c), semver.Compare(a, c)
	if ab <= 0 && bc <= 0 && ac > 0 {
		return fmt.Sprintf("transitivity: %q<=%q<=%q but Compare(a,c)=%d", a, b, c, ac)
	}
	if ab == 0 && bc == 0 && ac != 0 {
		return fmt.Sprintf("transitivity of equality: %q,%q,%q", a, b, c)
	}
	if ab < 0 && bc <= 0 && ac >= 0 || ab <= 0 && bc < 0 && ac >= 0 {
		return fmt.Sprintf("strict transitivity: %q,%q,%q ab=%d bc=%d ac=%d", a, b, c, ab, bc, ac)
	}
	return ""
}

func sortCase(list []string) string {
	in := append([]string(nil), list...)
	out := append([]string(nil), list...)
	semver.Sort(out)
	// permutation
	x := append([]string(nil), in...)
	y := append([]string(nil), out...)
	sort.Strings(x)
	sort.Strings(y)
	if strings.Join(x, "\x00") != strings.Join(y, "\x00") {
		return fmt.Sprintf("Sort(%q)=%q is not a permutation", in, out)
	}
	for i := 0; i+1 < len(out); i++ {
		c := semverref.Compare(semverref.Parse(out[i]), semverref.Parse(out[i+1]))
		if c > 0 || c == 0 && out[i] > out[i+1] {
			return fmt.Sprintf("Sort(%q)=%q not ordered by (Compare, string) at %d", in, out, i)
		}
	}
	return ""
}

func structured() []string {
	fields := []string{"0", "1", "9", "10", "18446744073709551615", "18446744073709551616", "100000000000000000000000000000"}
	var out []string
	for _, a := range fields {
		for _, b := range fields {
			out = append(out, "v"+a+"."+b+".0", "v1."+a+"."+b, "v1.0.0-"+a+"."+b, "v1.0.0-"+a+".x"+b)
		}
		out = append(out, "v"+a, "v1."+a, "v1.2.3-"+a, "v1.2.3-a"+a, "v1.2.3-"+a+"a", "v1.2.3+"+a, "v1.2.3-"+a+"+"+a, "v0"+a+".1.1")
	}
	out = append(out, "v1.2.3-alpha", "v1.2.3-alpha.1", "v1.2.3-alpha.beta", "v1.2.3-beta", "v1.2.3-beta.2", "v1.2.3-beta.11", "v1.2.3-rc.1", "v1.2.3",
		"v1.2.3+incompatible", "v1.2.3-pre+incompatible", "v1.2.3+meta", "v1.2.3-0", "v1.2.3--", "v1.2.3-0a", "v1.2.3-a.0", "v1.2.3-a.00", "v1.2.3-00", "v1.2.3-01a",
		"v1.2-pre", "v1+meta", "v1.2+meta", "v2", "v2.0", "v2.0.0", "v1.2.3-A", "v1.2.3-a-", "v1.2.3-1-", "v1.2.3-Z.a", "v1.2.3-a.Z")
	return out
}

var invalids = []string{"", "1.0.0", "v", "v1.", "v01", "vx", "v1.2.3-", "v1.2.3+", "v1.2.3-a..b", "V1.0.0"}

// FirstCalls is the menu of the fresh-process call-order check.
func FirstCalls() []fw.Call {
	var out []fw.Call
	vs := []string{"v1.2.3-rc.1+meta", "v1.2.3", "v1.2", "bad", "v1.10.0-0123"}
	for _, v := range vs {
		v := v
		out = append(out, fw.Call{Name: "accessors(" + v + ")", F: func() string {
			return fmt.Sprintf("%v %q %q %q %q %q", semver.IsValid(v), semver.Canonical(v), semver.Major(v), semver.MajorMinor(v), semver.Prerelease(v), semver.Build(v))
		}})
	}
	out = append(out, fw.Call{Name: "Compare", F: func() string {
		return fmt.Sprint(semver.Compare(vs[0], vs[1]), semver.Compare(vs[1], vs[2]), semver.Compare(vs[3], vs[4]), semver.Max(vs[0], vs[1]))
	}})
	out = append(out, fw.Call{Name: "Sort", F: func() string {
		l := append([]string(nil), vs...)
		semver.Sort(l)
		return fmt.Sprint(l)
	}})
	return out
}

func Run(r *fw.Run) {
	defer fw.FirstCallOrders(r, r.ID, FirstCalls(), nil)
	L := r.Pick(8, 9)
	Lv := r.Pick(7, 8)
	r.Bounds["alphabet"] = alphabet
	r.Bounds["max_len_unary"] = L
	r.Bounds["pool_valid_max_len"] = Lv
	r.Rule = "every string over the alphabet up to max_len is an input (state); non-trivial = unary input accepted as valid by the reference grammar, or a pair / triple / list drawn from the pools; pairs/triples over the pool of all valid strings up to pool_valid_max_len plus structured long-number members plus invalid strings; outcome = validity/compare-result class"
	r.Assume = []string{"reference grammar and precedence (internal/ref/semverref) transcribe the package doc and SemVer 2.0.0 section 11 correctly", "strings outside the alphabet/length bound behave like those inside"}

	// (a) unary, all strings
	var poolMu sync.Mutex
	var pool []string
	enum.Strings(alphabet, L, fw.Workers(), func(w int) (func([]byte, int), func()) {
		l := fw.NewLocal()
		var mine []string
		return func(b []byte, d int) {
				s := string(b)
				l.States++
				l.Transitions++
				l.Execs++
				msg, valid := unary(s)
				if valid {
					l.Nontrivial++
					l.Outcomes["unary:valid"]++
					if len(s) <= Lv {
						mine = append(mine, s)
					}
				} else {
					l.Outcomes["unary:invalid"]++
				}
				if msg != "" {
					r.Violation("unary:"+strconv.QuoteToASCII(s), msg, caseT{"unary", q(s)})
				}
			}, func() {
				r.Merge(l)
				poolMu.Lock()
				pool = append(pool, mine...)
				poolMu.Unlock()
			}
	})
	sort.Strings(pool)

	// (a2) byte sweep: every byte value (and a few multi-byte sequences) in every kind of position of
	// otherwise valid versions - the small alphabet above has one representative per character class only
	{
		l := fw.NewLocal()
		slots := [][2]string{
			{"", "1.2.3"}, {"v", ".2.3"}, {"v1", ".2.3"}, {"v1.", ".3"}, {"v1.2", ""}, {"v1.2.", ""}, {"v1.2.3", ""},
			{"v1.2.3-", ""}, {"v1.2.3-a", ""}, {"v1.2.3-a", "b"}, {"v1.2.3-a.", ""}, {"v1.2.3-1", ""}, {"v1.2.3-", ".b"},
			{"v1.2.3+", ""}, {"v1.2.3+a", ""}, {"v1.2.3+a", ".b"}, {"v1.2.3-a+", ""}, {"v1.2.3-a+b", "c"}, {"v1", ""}, {"v1.2", "+a"},
		}
		var fills []string
		for b := 0; b < 256; b++ {
			fills = append(fills, string([]byte{byte(b)}))
		}
		fills = append(fills, "é", "\u212a", "\ufffd", "\u00a0", "\u2028", "\xe2\x82", "١")
		fills = append(fills, enum.LongFills('a')...)
		fills = append(fills, enum.BoundaryRunes()...)
		fills = append(fills, enum.LongFills('7')[:6]...) // numbers of up to 4097 digits (the reference uses math/big)
		fills = append(fills, enum.LongFills('0')[:6]...)
		r.Bounds["byte_sweep"] = fmt.Sprintf("%d slots x (256 byte values + %d multi-byte fills)", len(slots), len(fills)-256)
		var swept []string
		for _, sl := range slots {
			for _, f := range fills {
				s := sl[0] + f + sl[1]
				swept = append(swept, s)
				l.States++
				l.Transitions++
				l.Execs++
				msg, valid := unary(s)
				if valid {
					l.Nontrivial++
					l.Outcomes["unary:valid"]++
				} else {
					l.Outcomes["unary:invalid"]++
				}
				if msg != "" {
					r.Violation("unary:"+strconv.QuoteToASCII(s), msg, caseT{"unary", q(s)})
				}
			}
		}
		// Compare of every swept string against a few fixed versions must agree with the reference too
		for _, s := range swept {
			for _, o := range []string{"v1.2.3", "v1.2.3-a", "bad", "v0.0.0-0", "v1.2.3+a"} {
				l.Transitions++
				l.Execs++
				if msg := pair(s, o); msg != "" {
					r.Violation("pair:"+strconv.QuoteToASCII(s)+","+strconv.QuoteToASCII(o), msg, caseT{"pair", q(s, o)})
				}
			}
		}
		r.Merge(l)
	}
	// dense length sweep: an identifier, a number and build metadata of every length 0..enum.DenseMax; each
	// string alone and compared with its predecessor in length
	{
		var mu sync.Mutex
		dslots := []struct {
			pre, post string
			c         byte
		}{{"v1.2.3-", "", 'a'}, {"v1.2.3-x.", ".y", 'b'}, {"v1.", ".3", '7'}, {"v1.2.3-", "", '9'}, {"v1.2.3+", "", 'm'}, {"v1.2.3-a.", "", '0'},
			// a leading zero makes a numeric identifier invalid whatever its length (and value)
			{"v1.2.3-0", "", '9'}, {"v1.2.3-a.0", ".b", '1'}, {"v1.2.3-00", "", '0'}, {"v1.0", ".3", '7'}, {"v0", ".2.3", '5'}, {"v1.2.3-0", "", 'a'}}
		r.Bounds["dense_length_sweep"] = fmt.Sprintf("%d slots x every fill length 0..%d", len(dslots), enum.DenseMax)
		fw.Parallel(len(dslots), func(i int) {
			l := fw.NewLocal()
			defer r.Merge(l)
			sl := dslots[i]
			prev := ""
			enum.EachLength(sl.c, enum.DenseMax, func(f string) {
				s := sl.pre + f + sl.post
				l.States++
				l.Transitions += 2
				l.Execs += 2
				msg, valid := unary(s)
				if valid {
					l.Nontrivial++
				}
				if msg == "" && prev != "" {
					msg = pair(prev, s)
				}
				if msg != "" {
					mu.Lock()
					r.Violation(fmt.Sprintf("dense:%d:%d", i, len(f)), msg, caseT{"pair", q(prev, s)})
					mu.Unlock()
				}
				prev = s
			})
		})
	}
	// numeric boundaries: 2^k-1, 2^k, 2^k+1 for every k up to 70 as major, minor, patch and numeric
	// pre-release; every version alone, against a few fixed versions, and (k <= 26) all pairs
	{
		var mu sync.Mutex
		var small, all []string
		for k := 0; k <= 70; k++ {
			for _, d := range []int64{-1, 0, 1} {
				n := new(big.Int).Lsh(big.NewInt(1), uint(k))
				n.Add(n, big.NewInt(d))
				if n.Sign() < 0 {
					continue
				}
				ds := n.String()
				vs := []string{"v1.0." + ds, "v1." + ds + ".0", "v" + ds + ".0.0", "v1.0.0-" + ds, "v1.1." + ds}
				all = append(all, vs...)
				if k <= 26 {
					small = append(small, vs[:3]...)
				}
			}
		}
		r.Bounds["numeric_boundaries"] = fmt.Sprintf("%d versions around powers of two up to 2^70; all pairs of the %d with k <= 26", len(all), len(small))
		fixed := []string{"v1.0.0", "v1.0.1", "v1.1.0", "v1.1.1", "v2.0.0", "v0.0.0", "v1.0.0-0", "v1.0.0-1", "v1.2097152.0", "v1.0.4294967296", "v1.0.18446744073709551616"}
		fw.Parallel(16, func(sh int) {
			l := fw.NewLocal()
			defer r.Merge(l)
			rep := func(a, b, msg string) {
				mu.Lock()
				r.Violation("pair:"+strconv.QuoteToASCII(a)+","+strconv.QuoteToASCII(b), msg, caseT{"pair", q(a, b)})
				mu.Unlock()
			}
			for i := sh; i < len(all); i += 16 {
				l.States++
				l.Execs++
				if msg, ok := unary(all[i]); msg != "" {
					rep(all[i], "", msg)
				} else if ok {
					l.Nontrivial++
				}
				for _, f := range fixed {
					l.Execs++
					l.Transitions++
					if msg := pair(all[i], f); msg != "" {
						rep(all[i], f, msg)
					}
				}
			}
			for i := sh; i < len(small); i += 16 {
				for j := range small {
					l.Execs++
					l.Transitions++
					if msg := pair(small[i], small[j]); msg != "" {
						rep(small[i], small[j], msg)
					}
				}
			}
		})
	}
	r.Sample(map[string]any{"kind": "unary", "examples_valid": pool[:min(8, len(pool))]})

	// structured members, unary too
	st := structured()
	for _, s := range append(append([]string{}, st...), invalids...) {
		r.States.Add(1)
		r.Execs.Add(1)
		msg, valid := unary(s)
		if valid {
			r.Nontrivial.Add(1)
		}
		if msg != "" {
			r.Violation("unary:"+strconv.QuoteToASCII(s), msg, caseT{"unary", q(s)})
		}
	}

	// (a2) long structured versions (composed from part lists, well beyond the length bound): unary agreement
	nums := []string{"0", "1", "9", "10", "01", "18446744073709551615", "18446744073709551616", "100000000000000000000000000000", "00"}
	pparts := []string{"", "-0", "-1", "-a", "-a.b", "-0.a", "-a-b", "-rc-10", "-rc-9", "-01", "-a..b", "-a.", "-", "-20190101000000-abcdefabcdef", "-0.20190101000000-abcdefabcdef", "-alpha.beta.gamma.delta.1.2.3", "-" + strings.Repeat("x", 70), "-é"}
	bparts := []string{"", "+a", "+incompatible", "+meta-data", "+a.b-c.01", "+", "+a..b", "+a+b", "+" + strings.Repeat("9", 40),
		// the one build tag with a meaning elsewhere, continued, cut short and re-cased (all plain metadata here)
		"+incompatible.1", "+incompatible-fork", "+incompatible2", "+incompatibl", "+Incompatible", "+incompatible.", "+x.incompatible", "+incompatible+incompatible"}
	var longs []string
	for _, a := range nums {
		for _, b := range nums {
			for _, c := range nums {
				for _, p := range pparts {
					for _, d := range bparts {
						longs = append(longs, "v"+a+"."+b+"."+c+p+d)
					}
				}
			}
		}
		for _, p := range pparts {
			longs = append(longs, "v"+a+p, "v"+a+"."+a+p)
		}
	}
	r.Bounds["long_structured_versions"] = len(longs)
	fw.Parallel(16, func(sh int) {
		l := fw.NewLocal()
		for i := sh; i < len(longs); i += 16 {
			l.States++
			l.Execs++
			msg, valid := unary(longs[i])
			if valid {
				l.Nontrivial++
				l.Outcomes["unary:valid"]++
			} else {
				l.Outcomes["unary:invalid"]++
			}
			if msg != "" {
				r.Violation("unary:"+strconv.QuoteToASCII(longs[i]), msg, caseT{"unary", q(longs[i])})
			}
		}
		r.Merge(l)
	})

	// (b) pairs
	seen := map[string]bool{}
	var V []string
	for _, s := range append(append(pool, st...), invalids...) {
		if !seen[s] {
			seen[s] = true
			V = append(V, s)
		}
	}
	if !r.Thorough() && len(V) > 2500 {
		// quick: thin the enumerated part deterministically, keep all structured ones
		var thin []string
		for i, s := range V {
			if i%(len(V)/1200+1) == 0 || i >= len(pool) {
				thin = append(thin, s)
			}
		}
		V = thin
	}
	r.Bounds["pair_pool_size"] = len(V)
	r.Sample(map[string]any{"kind": "pair", "a": V[len(V)/3], "b": V[len(V)/2], "compare": semver.Compare(V[len(V)/3], V[len(V)/2])})
	fw.Parallel(len(V), func(i int) {
		l := fw.NewLocal()
		a := V[i]
		for _, b := range V {
			l.Execs++
			l.Transitions++
			if msg := pair(a, b); msg != "" {
				r.Violation("pair:"+strconv.QuoteToASCII(a)+","+strconv.QuoteToASCII(b), msg, caseT{"pair", q(a, b)})
			}
			l.Outcomes["compare:"+strconv.Itoa(semver.Compare(a, b))]++
		}
		l.Nontrivial += int64(len(V))
		r.Merge(l)
	})

	// (b2) prerelease pool: every single identifier of <= 4 characters and every pair of identifiers of
	// <= 2 characters over {0 1 9 a -}: all pairs of "v1.0.0-<pre>" (identifiers with inner hyphens, numeric
	// vs alphanumeric tails, different lengths)
	idAlpha := []string{"0", "1", "9", "a", "-"}
	var pres []string
	for _, id := range enum.AllStrings(idAlpha, 4) {
		if id != "" && semverref.Parse("v1.0.0-"+id).Valid {
			pres = append(pres, "v1.0.0-"+id)
		}
	}
	short := enum.AllStrings(idAlpha, 2)
	for _, a := range short {
		for _, b := range short {
			if v := "v1.0.0-" + a + "." + b; a != "" && b != "" && semverref.Parse(v).Valid {
				pres = append(pres, v)
			}
		}
	}
	pres = append(pres, "v1.0.0", "v1.0.0-a-10+x", "v1.0.1-0", "v1.0.0-20190101000000-900000000000", "v1.0.0-20190101000000-1000000000ab", "v1.0.0-0.20190101000000-abcdef", "v1.0.0-0.20190101000001-abcdef")
	r.Bounds["prerelease_pool_size"] = len(pres)
	fw.Parallel(len(pres), func(i int) {
		l := fw.NewLocal()
		for _, b := range pres {
			l.Execs++
			l.Transitions++
			if msg := pair(pres[i], b); msg != "" {
				r.Violation("pair:"+strconv.QuoteToASCII(pres[i])+","+strconv.QuoteToASCII(b), msg, caseT{"pair", q(pres[i], b)})
			}
		}
		l.Nontrivial += int64(len(pres))
		r.Merge(l)
	})

	// (c) triples over a sub-pool
	nT := r.Pick(250, 600)
	var T []string
	step := len(V)/nT + 1
	for i := 0; i < len(V); i += step {
		T = append(T, V[i])
	}
	// always include tricky ones
	T = append(T, "v1.0.0-9", "v1.0.0-10", "v1.0.0-a", "v1.0.0-1a", "v1.0.0-18446744073709551616", "v1.0.0-9.1", "v1.0.0", "v1", "v1.0", "v1.0.0+a", "", "x")
	r.Bounds["triple_pool_size"] = len(T)
	fw.Parallel(len(T), func(i int) {
		l := fw.NewLocal()
		for _, b := range T {
			for _, c := range T {
				l.Execs++
				l.Transitions++
				if msg := triple(T[i], b, c); msg != "" {
					r.Violation("triple:"+strings.Join(q(T[i], b, c), ","), msg, caseT{"triple", q(T[i], b, c)})
				}
			}
		}
		l.Nontrivial += int64(len(T) * len(T))
		r.Merge(l)
	})

	// (d) Sort: all lists of length <= 4 over a 12-element pool
	sp := []string{"v1.0.0", "v1", "v1.0", "v1.0.0+a", "v1.0.0+b", "v1.0.0-a", "v1.0.0-9", "v1.0.0-10", "v2.0.0", "v0.9.9", "bad", ""}
	maxList := r.Pick(4, 5)
	r.Bounds["sort_pool"] = sp
	r.Bounds["sort_max_list"] = maxList
	var lists [][]int
	enum.Sequences(len(sp), maxList, func(seq []int) { lists = append(lists, append([]int(nil), seq...)) })
	fw.Parallel(16, func(sh int) {
		l := fw.NewLocal()
		for i := sh; i < len(lists); i += 16 {
			list := make([]string, len(lists[i]))
			for k, x := range lists[i] {
				list[k] = sp[x]
			}
			l.Execs++
			l.States++
			l.Transitions++
			l.Nontrivial++
			if msg := sortCase(list); msg != "" {
				r.Violation("sort:"+strings.Join(q(list...), ","), msg, caseT{"sort", q(list...)})
			}
		}
		r.Merge(l)
	})
	// many identifiers: prereleases and build metadata with 1..130 dot-separated identifiers (counts on both
	// sides of 8, 16, 32, 64, 128), sharing a long common prefix and differing in the last identifier in
	// every way that matters to precedence (numeric lengths, numeric vs alphanumeric, hyphen, one more)
	{
		l := fw.NewLocal()
		tails := []string{"9", "10", "a", "-", "9a", "0", "1", "A"}
		var many []string
		for _, n := range []int{1, 7, 8, 9, 15, 16, 17, 31, 32, 33, 63, 64, 65, 66, 127, 128, 129, 130} {
			pre := strings.Repeat("x.", n-1)
			for _, t := range tails {
				many = append(many, "v1.0.0-"+pre+t)
			}
			many = append(many, "v1.0.0-"+strings.TrimSuffix(pre, "."), "v1.0.0-"+pre+"9.1", "v1.0.0+"+pre+"b", "v1.0.0-"+strings.Repeat("1.", n-1)+"2")
		}
		r.Bounds["many_identifier_versions"] = len(many)
		for _, a := range many {
			l.States++
			l.Execs++
			if msg, _ := unary(a); msg != "" {
				r.Violation("unary:"+strconv.QuoteToASCII(a), msg, caseT{"unary", q(a)})
			}
			for _, b := range many {
				l.Execs++
				l.Transitions++
				if msg := pair(a, b); msg != "" {
					r.Violation("pair:"+strconv.QuoteToASCII(a)+","+strconv.QuoteToASCII(b), msg, caseT{"pair", q(a, b)})
				}
			}
		}
		r.Merge(l)
	}
	// call histories: every ordered pair of a set of closely related versions, queried back to back in one
	// goroutine (a result must not depend on what was asked just before)
	{
		l := fw.NewLocal()
		rel := []string{"v1.2.3", "v1.2.3+a", "v1.2.3+b", "v1.2.3-a", "v1.2.3-a+a", "v1.2", "v1", "v1.2.3-A", "V1.2.3", "v1.2.3 ", "v1.2.30", "v1.2.03", "v01.2.3", "v1.2.3-", "v1.2.3+", "v10.2.3", "v1.2.3-a.b", "v1.2.3-a.b+c", "bad", "", "v2", "v2.0.0+incompatible", "v2.0.0", "v1.2.3-10", "v1.2.3-9"}
		r.Bounds["call_histories"] = fmt.Sprintf("all ordered pairs of %d related versions", len(rel))
		for _, a := range rel {
			for _, b := range rel {
				l.States++
				l.Execs += 3
				l.Transitions++
				unary(a)
				if msg, _ := unary(b); msg != "" {
					r.Violation("history:"+strconv.QuoteToASCII(a)+","+strconv.QuoteToASCII(b), "right after the same queries for "+strconv.Quote(a)+": "+msg, caseT{"unary", q(b)})
				}
				if msg := pair(a, b); msg != "" {
					r.Violation("pair:"+strconv.QuoteToASCII(a)+","+strconv.QuoteToASCII(b), msg, caseT{"pair", q(a, b)})
				}
			}
		}
		r.Merge(l)
	}
	// histories of two comparisons: every pair of arguments followed by every pair of arguments, over versions
	// and strings made of two versions joined by a character that a cache key or a packed representation might
	// use as separator (space, NUL, |, comma, newline)
	{
		var mu sync.Mutex
		base := []string{"v1", "v2", "v3"}
		set := append([]string{}, base...)
		for _, sep := range []string{" ", "\x00", "|", ",", "\n"} {
			for _, x := range base {
				for _, y := range base {
					if x != y {
						set = append(set, x+sep+y)
					}
				}
			}
		}
		r.Bounds["comparison_histories"] = fmt.Sprintf("all ordered pairs of comparisons over %d strings (%d histories)", len(set), len(set)*len(set)*len(set)*len(set))
		fw.Parallel(len(set), func(i int) {
			l := fw.NewLocal()
			defer r.Merge(l)
			a := set[i]
			for _, b := range set {
				for _, c := range set {
					for _, d := range set {
						l.States++
						l.Execs += 2
						l.Transitions++
						semver.Compare(a, b)
						if msg := pair(c, d); msg != "" {
							mu.Lock()
							r.Violation("history2:"+strconv.QuoteToASCII(a+"|"+b+"|"+c+"|"+d), fmt.Sprintf("right after Compare(%q, %q): %s", a, b, msg), caseT{"pair", q(c, d)})
							mu.Unlock()
						}
					}
				}
			}
		})
	}
	// long lists: lengths around the thresholds at which sorting code changes strategy (insertion sort up
	// to 12, pre-parsing above some size, ...), built from a pool with invalid strings that fail at different
	// points of the grammar, in several arrangements
	{
		l := fw.NewLocal()
		lp := append(append([]string{}, sp...), "v2.x", "v1.0.0-", "v3", "v1.2.3.4", "v01.0.0", "v1.0.0-01", "vv", "v1.0.0+", "v10.0.0", "v9.0.0", "v1.10.0", "v1.9.0", "v1.0.0-rc.10", "v1.0.0-rc.9")
		r.Bounds["sort_long_lists"] = "lengths 11..14, 31..34, 63..66, 127..130, 1000; 4 arrangements each"
		for _, n := range []int{11, 12, 13, 14, 31, 32, 33, 34, 63, 64, 65, 66, 127, 128, 129, 130, 1000} {
			for arr := 0; arr < 4; arr++ {
				list := make([]string, n)
				for i := range list {
					switch arr {
					case 0:
						list[i] = lp[i%len(lp)]
					case 1:
						list[i] = lp[(n-1-i)%len(lp)]
					case 2:
						list[i] = lp[(i*7+3)%len(lp)]
					default:
						list[i] = lp[(i*i+arr)%len(lp)]
					}
				}
				l.Execs++
				l.States++
				l.Transitions++
				l.Nontrivial++
				if msg := sortCase(list); msg != "" {
					r.Violation(fmt.Sprintf("sort-long:%d:%d", n, arr), msg, caseT{"sort", q(list...)})
				}
			}
		}
		r.Merge(l)
	}
	r.Sample(map[string]any{"kind": "sort", "list": []string{"v1.0.0+b", "v1", "v1.0.0-10", "v1.0.0-9"}})
}

func Replay(r *fw.Run, raw json.RawMessage) {
	var c caseT
	if err := json.Unmarshal(raw, &c); err != nil {
		r.Violation("replay", "bad replay file: "+err.Error(), nil)
		return
	}
	in := make([]string, len(c.Inputs))
	for i, s := range c.Inputs {
		in[i], _ = strconv.Unquote(s)
	}
	r.States.Add(1)
	r.Transitions.Add(1)
	r.Execs.Add(1)
	var msg string
	switch c.Kind {
	case "unary":
		msg, _ = unary(in[0])
	case "pair":
		msg = pair(in[0], in[1])
	case "triple":
		msg = triple(in[0], in[1], in[2])
	case "sort":
		msg = sortCase(in)
	}
	r.Sample(c)
	if msg != "" {
		r.Violation(c.Kind+":"+strings.Join(c.Inputs, ","), msg, c)
	}
}
