// Package c12: extraction enforces every zip restriction and never writes outside its directory.
package c12

import (
	"archive/zip"
	"bytes"
	"compress/flate"
	"encoding/json"
	"fmt"
	"hash/crc32"
	"io/fs"
	"os"
	"path/filepath"
	"sort"
	"strconv"
	"strings"
	"sync/atomic"
	"time"
	"verif/props/zipx"

	"golang.org/x/mod/module"
	modzip "golang.org/x/mod/zip"

	"verif/internal/fw"
	"verif/internal/ref/zipref"
)

type entryT struct {
	Name string `json:"name_quoted"`
	Size string `json:"declared_size"` // honest | smaller | zero | half | larger | huge-gomod | huge-license | huge-total
	Dir  bool   `json:"directory_entry,omitempty"`
	Mode string `json:"header_mode_bits,omitempty"`
	Form string `json:"header_form,omitempty"`
}

type caseT struct {
	ModPath string   `json:"module_path"`
	Version string   `json:"version"`
	Entries []entryT `json:"entries"`
}

func (c caseT) key() string { b, _ := json.Marshal(c); return string(b) }

const (
	goodMod  = "example.com/m"
	goodVers = "v1.0.0"
)

var prefixes = []string{goodMod + "@" + goodVers + "/", "example.com/n@v1.0.0/", "Example.com/m@v1.0.0/", "", goodMod + "@" + goodVers, goodMod + "@v1.0.1/"}

var paths = []string{"a", "A", "a/b", "a/", "a//b", "./a", "..", "../x", "../../x", "/abs", "a\\b", "", "go.mod", "GO.MOD", "sub/go.mod", "sub/GO.MOD", "LICENSE", "con", "é", "K", "k", "\u212a", "\u017f", "s", "a/b/", "x.", "sub/", "σ", "ς", "a/../b", "sub/x.go", "a//", "a/b///"}

type ent struct {
	name    string
	content string
	size    string
	mode    string // "" | dir | symlink | exec | device: mode bits in the entry's header (the name decides what an entry is, not these)
	// form: "" (stored) | deflate | comment (entry comment and extra field) | old (modification time in 1980)
	form string
}

func (e ent) fileMode() (fs.FileMode, bool) {
	switch e.mode {
	case "dir":
		return fs.ModeDir | 0o755, true
	case "symlink":
		return fs.ModeSymlink | 0o777, true
	case "exec":
		return 0o755, true
	case "device":
		return fs.ModeDevice | 0o600, true
	}
	return 0, false
}

func contentOf(name string) string { return "content of <" + name + ">\n" }

// build writes the archive with archive/zip; dishonest sizes use raw headers.
func build(entries []ent) ([]byte, error) {
	var buf bytes.Buffer
	zw := zip.NewWriter(&buf)
	for _, e := range entries {
		data := []byte(e.content)
		if strings.HasSuffix(e.name, "/") {
			data = nil
		}
		declared := uint64(len(data))
		switch e.size {
		case "smaller":
			if declared > 0 {
				declared--
			}
		case "zero":
			declared = 0
		case "half":
			declared /= 2
		case "larger":
			declared += 5
		case "huge-gomod", "huge-license":
			declared = zipref.MaxGoMod + 1
		case "huge-total":
			declared = zipref.MaxZipFile + 1
		case "maxint64":
			declared = 1<<63 - 1
		case "near-maxint64":
			declared = 1<<63 - 2
		case "above-int64":
			declared = 1 << 63
		}
		if e.size == "honest" {
			fh := &zip.FileHeader{Name: e.name, Method: zip.Store}
			if m, ok := e.fileMode(); ok {
				fh.SetMode(m)
			}
			switch e.form {
			case "deflate":
				fh.Method = zip.Deflate
			case "comment":
				fh.Comment = "entry comment with a / and .. and \x00"
				fh.Extra = []byte{0x99, 0x99, 4, 0, 1, 2, 3, 4}
			case "old":
				fh.Modified = time.Date(1980, 1, 1, 0, 0, 0, 0, time.UTC)
			}
			w, err := zw.CreateHeader(fh)
			if err != nil {
				return nil, err
			}
			w.Write(data)
			continue
		}
		h := &zip.FileHeader{Name: e.name, Method: zip.Store, CRC32: crc32.ChecksumIEEE(data), CompressedSize64: uint64(len(data)), UncompressedSize64: declared}
		w, err := zw.CreateRaw(h)
		if err != nil {
			return nil, err
		}
		w.Write(data)
	}
	if err := zw.Close(); err != nil {
		return nil, err
	}
	return buf.Bytes(), nil
}

var counter atomic.Int64

func snapshot(root string) []string {
	var out []string
	filepath.Walk(root, func(p string, info os.FileInfo, err error) error {
		if err == nil {
			rel, _ := filepath.Rel(root, p)
			out = append(out, rel)
		}
		return nil
	})
	sort.Strings(out)
	return out
}

func one(scratch string, modPath, vers string, entries []ent) (msg, class string) {
	data, err := build(entries)
	if err != nil {
		return "", "unbuildable"
	}
	id := counter.Add(1)
	sandbox := filepath.Join(scratch, strconv.FormatInt(id, 10))
	target := filepath.Join(sandbox, "t1", "t2", "t3", "out")
	os.MkdirAll(filepath.Dir(target), 0o755)
	defer func() {
		filepath.Walk(sandbox, func(p string, info os.FileInfo, err error) error {
			if err == nil && info.IsDir() {
				os.Chmod(p, 0o755)
			}
			return nil
		})
		os.RemoveAll(sandbox)
	}()
	zp := filepath.Join(sandbox, "m.zip")
	if err := os.WriteFile(zp, data, 0o644); err != nil {
		return "scratch: " + err.Error(), ""
	}
	before := snapshot(sandbox)
	m := module.Version{Path: modPath, Version: vers}
	var cz modzip.CheckedFiles
	var czErr, uzErr error
	func() {
		defer func() {
			if e := recover(); e != nil {
				msg = fmt.Sprintf("panic: %v", e)
			}
		}()
		cz, czErr = modzip.CheckZip(m, zp)
		uzErr = modzip.Unzip(target, m, zp)
	}()
	if msg != "" {
		return msg, ""
	}
	// nothing outside the target directory
	after := snapshot(sandbox)
	inside := filepath.Join("t1", "t2", "t3", "out")
	known := map[string]bool{}
	for _, b := range before {
		known[b] = true
	}
	for _, a := range after {
		if known[a] || a == inside || strings.HasPrefix(a, inside+string(filepath.Separator)) {
			continue
		}
		return fmt.Sprintf("extraction created %q outside the target directory", a), ""
	}
	honest := true
	for _, e := range entries {
		if e.size != "honest" {
			honest = false
		}
	}
	// reference verdict
	var zes []zipref.ZipEntry
	zr, zerr := zip.NewReader(bytes.NewReader(data), int64(len(data)))
	if zerr != nil {
		if uzErr == nil {
			return "archive unreadable by archive/zip but Unzip succeeded", ""
		}
		return "", "unreadable"
	}
	for _, f := range zr.File {
		zes = append(zes, zipref.ZipEntry{Name: f.Name, Declared: f.UncompressedSize64})
	}
	mvOK := modPath == goodMod && vers == goodVers || module.Check(modPath, vers) == nil && module.CanonicalVersion(vers) == vers
	inv, sizeErr := zipref.CheckZipEntries(modPath, vers, zes)
	refOK := mvOK && len(inv) == 0 && !sizeErr
	if (czErr == nil) != refOK {
		return fmt.Sprintf("CheckZip err=%v, documented restrictions say acceptable=%v (invalid %q, sizeErr=%v)", czErr, refOK, inv, sizeErr), ""
	}
	if czErr == nil || mvOK {
		got := append([]string(nil), pathsOf(cz.Invalid)...)
		if mvOK && strings.Join(got, "|") != strings.Join(inv, "|") {
			return fmt.Sprintf("CheckZip invalid entries %q, reference %q", got, inv), ""
		}
	}
	if honest {
		if (uzErr == nil) != (czErr == nil) {
			return fmt.Sprintf("Unzip err=%v but CheckZip err=%v", uzErr, czErr), ""
		}
	} else if uzErr == nil {
		// dishonest declarations must make extraction fail, unless the lie is about an empty file
		for _, e := range entries {
			if e.size != "honest" && !strings.HasSuffix(e.name, "/") && !((e.size == "smaller" || e.size == "zero" || e.size == "half") && len(e.content) == 0) {
				return fmt.Sprintf("Unzip succeeded although entry %q declares a size that differs from its content", e.name), ""
			}
		}
	}
	if uzErr != nil {
		if honest && refOK {
			return fmt.Sprintf("acceptable archive failed to extract: %v", uzErr), ""
		}
		return "", "rejected"
	}
	// extracted tree equals the file entries
	prefix := modPath + "@" + vers + "/"
	want := map[string]string{}
	for _, e := range entries {
		n := strings.TrimPrefix(e.name, prefix)
		if n == "" || strings.HasSuffix(n, "/") {
			continue
		}
		want[n] = e.content
	}
	got := map[string]string{}
	filepath.Walk(target, func(p string, info os.FileInfo, err error) error {
		if err == nil && !info.IsDir() {
			rel, _ := filepath.Rel(target, p)
			b, _ := os.ReadFile(p)
			got[filepath.ToSlash(rel)] = string(b)
		}
		return nil
	})
	if len(got) != len(want) {
		return fmt.Sprintf("extracted files %v, archive file entries %v", keys(got), keys(want)), ""
	}
	for k, v := range want {
		if got[k] != v {
			return fmt.Sprintf("extracted file %q has content %q, want %q", k, got[k], v), ""
		}
	}
	return "", "extracted"
}

func pathsOf(fe []modzip.FileError) []string {
	var out []string
	for _, e := range fe {
		out = append(out, e.Path)
	}
	return out
}

func keys(m map[string]string) []string {
	var out []string
	for k := range m {
		out = append(out, k)
	}
	sort.Strings(out)
	return out
}

// FirstCalls is the menu of the fresh-process call-order check.
func FirstCalls() []fw.Call {
	var out []fw.Call
	pre := goodMod + "@" + goodVers + "/"
	for i, es := range [][]ent{
		{{name: pre + "go.mod", content: "module example.com/m\n"}, {name: pre + "a.go", content: "package a\n"}},
		{{name: pre + "a", content: "x"}, {name: pre + "A", content: "y"}},
		{{name: pre + "../x", content: "x"}},
		{{name: pre + "sub/go.mod", content: "module s\n"}, {name: pre + "con", content: "y"}},
		{{name: "other@v1.0.0/a", content: "x"}},
	} {
		i, es := i, es
		out = append(out, fw.Call{Name: fmt.Sprintf("archive-%d", i), F: func() string {
			scratch, err := os.MkdirTemp("/dev/shm", "verif-first-")
			if err != nil {
				return "no scratch"
			}
			defer os.RemoveAll(scratch)
			msg, class := one(scratch, goodMod, goodVers, es)
			return msg + "|" + class
		}})
	}
	return out
}

func Run(r *fw.Run) {
	defer fw.FirstCallOrders(r, r.ID, FirstCalls(), nil)
	scratch := r.Scratch()
	r.Bounds["prefix_variants"] = prefixes
	r.Bounds["paths"] = len(paths)
	r.Bounds["declared_size_variants"] = []string{"honest", "smaller", "zero", "half", "larger", "huge-gomod", "huge-license", "huge-total", "maxint64", "near-maxint64", "above-int64"}
	r.Rule = "every archive of 1..2 entries over (6 prefix variants x " + strconv.Itoa(len(paths)) + " paths) and every archive of 3 correctly prefixed entries (quick: over 17 paths, thorough: all of them), each single entry also with every dishonest declared-size variant, and 9 module/version pairs: CheckZip and Unzip on the real archive in a per-case tmpfs sandbox whose target lies three levels deep; oracle: CheckZip == documented restrictions (reference), Unzip succeeds iff CheckZip accepts (honest sizes), dishonest sizes fail, the extracted tree equals the file entries, nothing is created outside the target. non-trivial = archive accepted and extracted"
	r.Assume = []string{"Linux tmpfs; archive/zip of the standard library reads the archives"}
	var names []string
	for _, pf := range prefixes {
		for _, p := range paths {
			names = append(names, pf+p)
		}
	}
	type job struct {
		mod, vers string
		es        []ent
	}
	var jobs []job
	mk := func(n string) ent { return ent{name: n, content: contentOf(n), size: "honest"} }
	for i, a := range names {
		jobs = append(jobs, job{goodMod, goodVers, []ent{mk(a)}})
		for _, sz := range []string{"smaller", "zero", "half", "larger", "huge-gomod", "huge-license", "huge-total", "maxint64", "near-maxint64", "above-int64"} {
			e := mk(a)
			e.size = sz
			jobs = append(jobs, job{goodMod, goodVers, []ent{e}})
			jobs = append(jobs, job{goodMod, goodVers, []ent{mk(prefixes[0] + "z"), e}})
		}
		for j := i; j < len(names); j++ {
			jobs = append(jobs, job{goodMod, goodVers, []ent{mk(a), mk(names[j])}})
			if i != j {
				jobs = append(jobs, job{goodMod, goodVers, []ent{mk(names[j]), mk(a)}})
			}
		}
	}
	p3 := paths
	if !r.Thorough() {
		p3 = []string{"a", "A", "a/b", "a/", "a//", "go.mod", "GO.MOD", "sub/go.mod", "LICENSE", "K", "k", "a/b/", "sub/", "../x", "", "σ", "ς"}
	}
	for i := range p3 {
		for j := range p3 {
			for k := range p3 {
				if i <= j && j <= k || r.Thorough() {
					jobs = append(jobs, job{goodMod, goodVers, []ent{mk(prefixes[0] + p3[i]), mk(prefixes[0] + p3[j]), mk(prefixes[0] + p3[k])}})
				}
			}
		}
	}
	// three entries where one carries a wrong prefix, at every position
	for _, wp := range prefixes[1:] {
		for _, w := range []string{"a", "../x", "go.mod"} {
			for i := range p3 {
				for j := i; j < len(p3); j++ {
					a, b, c := mk(prefixes[0]+p3[i]), mk(prefixes[0]+p3[j]), mk(wp+w)
					jobs = append(jobs, job{goodMod, goodVers, []ent{c, a, b}}, job{goodMod, goodVers, []ent{a, c, b}}, job{goodMod, goodVers, []ent{a, b, c}})
				}
			}
		}
	}
	// other module/version pairs over a few archives
	for _, mv := range [][2]string{{"example.com/m/v2", "v2.0.0"}, {"gopkg.in/y.v1", "v1.0.0"}, {"example.com/M", "v2.0.0+incompatible"}, {"example.com/m", "v2.0.0"}, {"example.com/m", "v1"}, {"example.com/m", "v1.0.0+meta"}, {"bad path", "v1.0.0"}, {"example.com/m/v1", "v1.0.0"}} {
		pf := mv[0] + "@" + mv[1] + "/"
		for _, p := range paths {
			jobs = append(jobs, job{mv[0], mv[1], []ent{mk(pf + p)}})
			jobs = append(jobs, job{mv[0], mv[1], []ent{mk(pf + "go.mod"), mk(pf + p)}})
		}
	}
	// other header forms: deflated content, entry comments and extra fields, an old modification time,
	// alone and mixed with stored entries; an archive comment
	for _, fm := range []string{"deflate", "comment", "old"} {
		for _, n := range []string{"a.go", "go.mod", "sub/x.go", "d/", "LICENSE", "../x", "A.GO"} {
			e := mk(prefixes[0] + n)
			e.form = fm
			if fm == "deflate" {
				e.content = strings.Repeat(e.content, 2000) // compresses well: declared size far above the stored bytes
			}
			jobs = append(jobs, job{goodMod, goodVers, []ent{e}}, job{goodMod, goodVers, []ent{mk(prefixes[0] + "a.go"), e}}, job{goodMod, goodVers, []ent{e, mk(prefixes[0] + "N")}})
		}
	}
	// directories whose names are string prefixes of each other, in every order, with a collision on the
	// shorter one (another case, or the same name as a file)
	{
		mini := []string{"tool-x/a.go", "tool.d/a.go", "toolbox/a.go", "tool/b.go", "Tool/c.go", "tool", "TOOL/sub/d.go", "tool/sub/e.go",
			"\u212a/ab", "\u212a/a", "k/ab", "d\u2126/a.go", "d\u03c9/b.go", "\u212a\u212a/x", "\u017f\u017f/y/z", "ss/y/w", "\u212b/q",
			// a folding-shortening letter spelled the same in two paths, an ordinary case difference after it
			"\u017fa/x.go", "\u017fA/y.go", "\u212ab/x", "\u212aB/y", "\u212a/b/z", "\u212a/B/w", "\u2126x/q/r", "\u2126X/q/s"}
		for i := range mini {
			for j := range mini {
				if i == j {
					continue
				}
				jobs = append(jobs, job{goodMod, goodVers, []ent{mk(prefixes[0] + mini[i]), mk(prefixes[0] + mini[j])}})
				for k := range mini {
					if k != i && k != j {
						jobs = append(jobs, job{goodMod, goodVers, []ent{mk(prefixes[0] + mini[i]), mk(prefixes[0] + mini[j]), mk(prefixes[0] + mini[k])}})
					}
				}
			}
		}
	}
	// the module@version/ prefix text once more inside a name (vendored copies, test data): only the leading
	// occurrence is the prefix
	{
		pre := prefixes[0]
		for _, es := range [][]string{
			{pre + "testdata/cache/" + pre + "m.go"}, {pre + pre + "go.mod"}, {pre + pre + "a", pre + "a"}, {pre + "a", pre + pre + "a"},
			{pre + "go.mod", pre + pre + "go.mod"}, {pre + "x/" + pre + pre + "y"}, {pre + strings.TrimSuffix(pre, "/")}, {pre + "d/" + strings.TrimSuffix(pre, "/")},
		} {
			var e []ent
			for _, n := range es {
				e = append(e, mk(n))
			}
			jobs = append(jobs, job{goodMod, goodVers, e})
		}
	}
	// siblings whose names are what an implementation might use for its own temporary or backup files
	// (N.tmp, N~, .N.tmp, N.part ...), as files and as directories, in every order
	{
		mini := []string{"a", "a.tmp", "a.tmp/x", "a~", "a.bak", "a.new", "a.part", ".a.tmp", "a.tmp.tmp", "a.lock", "a.orig", "d/b.go", "d/b.go.tmp", "d/b.go.tmp/c", "d.tmp/e", "d.tmp"}
		for i := range mini {
			for j := range mini {
				if i == j {
					continue
				}
				jobs = append(jobs, job{goodMod, goodVers, []ent{mk(prefixes[0] + mini[i]), mk(prefixes[0] + mini[j])}})
			}
		}
	}
	// counts: archives with many entries, all valid, and with a colliding or badly prefixed one at the end
	for _, n := range []int{9, 17, 63, 64, 65, 129, 1000} {
		var es []ent
		for i := 0; i < n; i++ {
			es = append(es, mk(prefixes[0]+fmt.Sprintf("d%d/f%04d.go", i%5, i)))
		}
		jobs = append(jobs, job{goodMod, goodVers, append([]ent{}, es...)})
		jobs = append(jobs, job{goodMod, goodVers, append(append([]ent{}, es...), mk(prefixes[0]+"D0/F0000.GO"))})
		jobs = append(jobs, job{goodMod, goodVers, append(append([]ent{}, es...), mk(prefixes[1]+"x.go"))})
	}
	// mode bits in entry headers
	for _, md := range []string{"dir", "symlink", "exec", "device"} {
		for _, n := range []string{"a.go", "go.mod", "sub/x.go", "d/", "LICENSE"} {
			e := mk(prefixes[0] + n)
			e.mode = md
			jobs = append(jobs, job{goodMod, goodVers, []ent{e}}, job{goodMod, goodVers, []ent{mk(prefixes[0] + "N"), e}}, job{goodMod, goodVers, []ent{e, mk(prefixes[0] + "N")}})
		}
	}
	// byte sweep over entry names
	for _, n := range zipx.SweepNames() {
		jobs = append(jobs, job{goodMod, goodVers, []ent{mk(prefixes[0] + n)}}, job{goodMod, goodVers, []ent{mk(prefixes[0] + "N"), mk(prefixes[0] + n)}})
	}
	r.Bounds["archives"] = len(jobs)
	fw.Parallel(len(jobs), func(i int) {
		if r.Failed() {
			return
		}
		l := fw.NewLocal()
		defer r.Merge(l)
		j := jobs[i]
		l.States++
		l.Transitions++
		l.Execs += 2
		msg, class := one(scratch, j.mod, j.vers, j.es)
		if class == "extracted" {
			l.Nontrivial++
		}
		if class != "" {
			l.Outcomes[class]++
		}
		if msg != "" {
			c := caseT{ModPath: j.mod, Version: j.vers}
			for _, e := range j.es {
				c.Entries = append(c.Entries, entryT{Name: strconv.QuoteToASCII(e.name), Size: e.size, Mode: e.mode, Form: e.form})
			}
			l.Outcomes["VIOLATION"]++
			r.Violation(c.key(), msg, c)
		}
	})
	targetSpellings(r, "")
	sizeSweep(r)
	// resources: a valid archive with more entries than the process may have descriptors open (sequential:
	// the limit is process wide); extraction must not need a descriptor per entry
	{
		var es []ent
		for i := 0; i < 600; i++ {
			es = append(es, mk(prefixes[0]+fmt.Sprintf("d%d/f%04d.go", i%7, i)))
		}
		var msg string
		ok := fw.WithFDLimit(160, func() { msg, _ = one(scratch, goodMod, goodVers, es) })
		r.Bounds["descriptor_limit"] = "600 entries with at most 160 open descriptors"
		r.States.Add(1)
		r.Execs.Add(2)
		if !ok {
			r.Note("descriptor limit could not be lowered; that phase did not run")
		} else if msg != "" {
			c := caseT{ModPath: goodMod, Version: goodVers, Entries: []entryT{{Name: strconv.QuoteToASCII("fd-limit:600"), Size: "honest"}}}
			r.Violation("fd-limit", "600 valid entries with at most 160 open descriptors: "+msg, c)
		}
	}
	r.Sample(caseT{ModPath: goodMod, Version: goodVers, Entries: []entryT{{Name: strconv.QuoteToASCII(prefixes[0] + "go.mod"), Size: "honest"}, {Name: strconv.QuoteToASCII(prefixes[0] + "../../x"), Size: "honest"}}})
}

// targetSpellings extracts one valid archive into an empty directory spelled in every way (absolute,
// relative to the working directory, the working directory itself, through a parent, with trailing
// separators); sequential, because the working directory is process wide. only (replay) = one spelling.
func targetSpellings(r *fw.Run, only string) {
	scratch := r.Scratch()
	base := filepath.Join(scratch, "spell")
	os.RemoveAll(base)
	defer os.RemoveAll(base)
	os.MkdirAll(base, 0o755)
	pre := goodMod + "@" + goodVers + "/"
	es := []ent{{name: pre + "go.mod", content: "module example.com/m\n", size: "honest"}, {name: pre + "a/b.go", content: "package a\n", size: "honest"}, {name: pre + ".hidden", content: "h", size: "honest"}}
	data, err := build(es)
	if err != nil {
		r.Note("target spellings skipped: %v", err)
		return
	}
	zp := filepath.Join(base, "m.zip")
	os.WriteFile(zp, data, 0o644)
	old, err := os.Getwd()
	if err != nil {
		return
	}
	defer os.Chdir(old)
	type sp struct{ wd, dir string } // wd relative to base ("" = base); dir as given to Unzip
	sps := []sp{{"", filepath.Join(base, "out")}, {"", filepath.Join(base, "out") + "/"}, {"", base + "/./out"}, {"", base + "/x/../out"}, {"", "out"}, {"", "./out"}, {"", "out/"}, {"", "out/."}, {"", "x/../out"},
		{"out", "."}, {"out", "./"}, {"out", "./."}, {"out", "../out"}, {"out", "sub/.."}, {"out/sub", ".."}, {"out/sub", "../"}, {"out/sub", "../."}, {"x", "../out"}}
	if only == "" {
		r.Bounds["target_directory_spellings"] = len(sps)
	}
	l := fw.NewLocal()
	defer r.Merge(l)
	for _, s := range sps {
		key := s.wd + "|" + strings.TrimPrefix(s.dir, base)
		if only != "" && only != key {
			continue
		}
		out := filepath.Join(base, "out")
		os.RemoveAll(out)
		os.MkdirAll(filepath.Join(base, "x"), 0o755)
		os.MkdirAll(out, 0o755)
		needSub := strings.Contains(s.wd, "sub") || strings.Contains(s.dir, "sub")
		if needSub {
			// the target must be empty for Unzip: these spellings go through a sibling instead
			os.MkdirAll(filepath.Join(base, "subhost", "sub"), 0o755)
		}
		wd := filepath.Join(base, s.wd)
		dir := s.dir
		if needSub {
			// run from (or through) <base>/subhost/sub, naming <base>/subhost as the target
			out = filepath.Join(base, "subhost")
			wd = filepath.Join(base, strings.Replace(s.wd, "out", "subhost", 1))
			os.RemoveAll(filepath.Join(out, "sub"))
			if strings.HasPrefix(s.wd, "out/sub") {
				os.MkdirAll(filepath.Join(base, "elsewhere"), 0o755)
				wd = filepath.Join(base, "elsewhere")
				dir = "../subhost"
			} else {
				dir = "../subhost/."
			}
		}
		if err := os.Chdir(wd); err != nil {
			continue
		}
		l.States++
		l.Execs++
		l.Transitions++
		uzErr := modzip.Unzip(dir, module.Version{Path: goodMod, Version: goodVers}, zp)
		os.Chdir(old)
		c := caseT{ModPath: goodMod, Version: goodVers, Entries: []entryT{{Name: strconv.QuoteToASCII("target-spelling:" + key), Size: "honest"}}}
		if uzErr != nil {
			r.Violation("target:"+key, fmt.Sprintf("Unzip of a valid archive into an empty directory spelled %q (working directory <scratch>/%s) fails: %v", dir, strings.TrimPrefix(wd, base+"/"), uzErr), c)
			continue
		}
		for _, e := range es {
			b, err := os.ReadFile(filepath.Join(out, strings.TrimPrefix(e.name, pre)))
			if err != nil || string(b) != e.content {
				r.Violation("target:"+key, fmt.Sprintf("Unzip into %q (working directory <scratch>/%s): extracted file %s missing or different (%v)", dir, strings.TrimPrefix(wd, base+"/"), strings.TrimPrefix(e.name, pre), err), c)
			}
		}
		l.Nontrivial++
		l.Outcomes["target-spelling:ok"]++
		os.RemoveAll(filepath.Join(base, "subhost"))
	}
}

// sizeCase: one archive whose file a/data declares `declared` bytes while its stream (stored or deflated)
// holds declared+delta bytes. delta == 0 must extract to exactly the content; anything else must fail.
func sizeCase(scratch string, declared, delta int, method uint16) string {
	n := declared + delta
	if n < 0 {
		return ""
	}
	data := make([]byte, n)
	for i := range data {
		data[i] = byte('a' + (i*7+i/251)%26)
	}
	stream := data
	if method == zip.Deflate {
		var cb bytes.Buffer
		fl, _ := flate.NewWriter(&cb, flate.BestSpeed)
		fl.Write(data)
		fl.Close()
		stream = cb.Bytes()
	}
	var buf bytes.Buffer
	zw := zip.NewWriter(&buf)
	pre := goodMod + "@" + goodVers + "/"
	w, _ := zw.Create(pre + "go.mod")
	w.Write([]byte("module example.com/m\n"))
	h := &zip.FileHeader{Name: pre + "a/data", Method: method, CRC32: crc32.ChecksumIEEE(data), CompressedSize64: uint64(len(stream)), UncompressedSize64: uint64(declared)}
	rw, err := zw.CreateRaw(h)
	if err != nil {
		return ""
	}
	rw.Write(stream)
	w, _ = zw.Create(pre + "z.txt")
	w.Write([]byte("last\n"))
	zw.Close()
	id := counter.Add(1)
	sandbox := filepath.Join(scratch, "sz"+strconv.FormatInt(id, 10))
	os.MkdirAll(sandbox, 0o755)
	defer os.RemoveAll(sandbox)
	zp := filepath.Join(sandbox, "m.zip")
	os.WriteFile(zp, buf.Bytes(), 0o644)
	out := filepath.Join(sandbox, "out")
	err = modzip.Unzip(out, module.Version{Path: goodMod, Version: goodVers}, zp)
	if delta != 0 {
		if err == nil {
			got, _ := os.ReadFile(filepath.Join(out, "a", "data"))
			return fmt.Sprintf("Unzip succeeded although a/data declares %d bytes and its stream holds %d (extracted %d bytes)", declared, n, len(got))
		}
		return ""
	}
	if err != nil {
		return fmt.Sprintf("honest archive with a file of %d bytes does not extract: %v", declared, err)
	}
	got, rerr := os.ReadFile(filepath.Join(out, "a", "data"))
	if rerr != nil || !bytes.Equal(got, data) {
		return fmt.Sprintf("honest archive with a file of %d bytes: extracted a/data differs (%d bytes, %v)", declared, len(got), rerr)
	}
	if z, _ := os.ReadFile(filepath.Join(out, "z.txt")); string(z) != "last\n" {
		return fmt.Sprintf("honest archive with a file of %d bytes: the entry after it was extracted as %q", declared, z)
	}
	return ""
}

// sizeSweep runs sizeCase for every declared size 0..dense and around every power of two up to 4 MiB, with a
// stream one byte short, exact, one byte long and twice as long, stored and deflated.
func sizeSweep(r *fw.Run) {
	dense := r.Pick(2100, 8400)
	var sizes []int
	for d := 0; d <= dense; d++ {
		sizes = append(sizes, d)
	}
	for k := 12; k <= 22; k++ {
		for _, d := range []int{1<<k - 1, 1 << k, 1<<k + 1, 3 << (k - 1)} {
			if d > dense {
				sizes = append(sizes, d)
			}
		}
	}
	r.Bounds["declared_size_sweep"] = fmt.Sprintf("declared sizes 0..%d and 2^k-1, 2^k, 2^k+1, 3*2^(k-1) for k<=22 x stream {one byte short, exact, one byte long, twice as long} x {stored, deflated}", dense)
	scratch := r.Scratch()
	fw.Parallel(16, func(sh int) {
		l := fw.NewLocal()
		defer r.Merge(l)
		for i := sh; i < len(sizes); i += 16 {
			d := sizes[i]
			for _, delta := range []int{-1, 0, 1, d} {
				if delta == 0 && d == 0 || delta == d && d <= 1 {
					continue
				}
				for _, method := range []uint16{zip.Store, zip.Deflate} {
					l.States++
					l.Execs++
					l.Transitions++
					if msg := sizeCase(scratch, d, delta, method); msg != "" {
						r.Violation(fmt.Sprintf("size-sweep:%d:%d:%d", d, delta, method), msg, caseT{ModPath: goodMod, Version: goodVers, Entries: []entryT{{Name: strconv.QuoteToASCII(fmt.Sprintf("size-sweep:%d:%d:%d", d, delta, method)), Size: "declared"}}})
						l.Outcomes["size-sweep:VIOLATION"]++
					} else if delta != 0 {
						l.Nontrivial++
						l.Outcomes["size-sweep:refused"]++
					} else {
						l.Outcomes["size-sweep:extracted"]++
					}
				}
			}
		}
	})
}

func Replay(r *fw.Run, raw json.RawMessage) {
	var c caseT
	if err := json.Unmarshal(raw, &c); err != nil {
		r.Violation("replay", err.Error(), nil)
		return
	}
	if len(c.Entries) == 1 {
		if n, _ := strconv.Unquote(c.Entries[0].Name); strings.HasPrefix(n, "fd-limit:") {
			var es []ent
			for i := 0; i < 600; i++ {
				es = append(es, ent{name: prefixes[0] + fmt.Sprintf("d%d/f%04d.go", i%7, i), content: contentOf(fmt.Sprintf("d%d/f%04d.go", i%7, i)), size: "honest"})
			}
			var msg string
			fw.WithFDLimit(160, func() { msg, _ = one(r.Scratch(), goodMod, goodVers, es) })
			if msg != "" {
				r.Violation("fd-limit", msg, c)
			}
			return
		}
		if n, _ := strconv.Unquote(c.Entries[0].Name); strings.HasPrefix(n, "size-sweep:") {
			var d, delta int
			var method uint16
			fmt.Sscanf(n, "size-sweep:%d:%d:%d", &d, &delta, &method)
			r.Sample(c)
			r.States.Add(1)
			r.Execs.Add(1)
			if msg := sizeCase(r.Scratch(), d, delta, method); msg != "" {
				r.Violation(n, msg, c)
			}
			return
		}
		if n, _ := strconv.Unquote(c.Entries[0].Name); strings.HasPrefix(n, "target-spelling:") {
			r.Sample(c)
			targetSpellings(r, strings.TrimPrefix(n, "target-spelling:"))
			return
		}
	}
	var es []ent
	for _, e := range c.Entries {
		n, _ := strconv.Unquote(e.Name)
		ee := ent{name: n, content: contentOf(n), size: e.Size, mode: e.Mode, form: e.Form}
		if e.Form == "deflate" {
			ee.content = strings.Repeat(ee.content, 2000)
		}
		es = append(es, ee)
	}
	r.States.Add(1)
	r.Transitions.Add(1)
	r.Execs.Add(2)
	r.Sample(c)
	if msg, _ := one(r.Scratch(), c.ModPath, c.Version, es); msg != "" {
		r.Violation(c.key(), msg, c)
	}
}
