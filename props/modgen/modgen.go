// Package modgen enumerates well-formed go.mod / go.work files from a small grammar:
// statement variants (directive kind x layout x quoting x comments) combined into files.
package modgen

import (
	"strings"
)

// Stmt is one statement variant.
type Stmt struct {
	Text string // one or more lines, each ending in "\n"
	Kind string // module, go, toolchain, godebug, require, exclude, replace, retract, tool, use, comment, unknown
	Fix  bool   // needs a version fixer (non-canonical version)
	Lax  bool   // only the lax parser accepts it
}

// ModStmts returns the go.mod statement variants.
func ModStmts() []Stmt {
	var out []Stmt
	add := func(kind, text string) { out = append(out, Stmt{Text: text, Kind: kind}) }
	addFix := func(kind, text string) { out = append(out, Stmt{Text: text, Kind: kind, Fix: true}) }
	addLax := func(kind, text string) { out = append(out, Stmt{Text: text, Kind: kind, Lax: true}) }
	// module
	add("module", "module example.com/m\n")
	add("module", "module \"example.com/m\"\n")
	add("module", "module example.com/m // Deprecated: gone\n")
	add("module", "// Deprecated: use example.com/n\nmodule example.com/m\n")
	add("module", "// intro\n// Deprecated: two\n// lines\nmodule example.com/m // s\n")
	add("module", "module (\n\texample.com/m\n)\n")
	add("module", "module \"example.com/\\x6d\"\n")
	add("module", "module \"example.com/\\u006d\" // s\n")
	add("module", "module \"example.com\\x2fm\\057v2\"\n")
	add("module", "module example.com/m/v2\n")
	// go / toolchain
	add("go", "go 1.21\n")
	add("go", "go 1.21.0 // s\n")
	add("go", "// b\ngo 1.21rc1\n")
	add("go", "go 1.9\n")
	add("toolchain", "toolchain go1.21.0\n")
	add("toolchain", "toolchain default // s\n")
	// godebug
	add("godebug", "godebug panicnil=1\n")
	add("godebug", "godebug (\n\tpanicnil=1 // s\n\n\t// b\n\tasynctimerchan=0\n)\n")
	// require
	add("require", "require a.com/x v1.0.0\n")
	add("require", "require a.com/x v1.0.0 // indirect\n")
	add("require", "require a.com/x v1.0.0 // indirect; note\n")
	add("require", "require \"a.com/x\" \"v1.0.0\" // s\n")
	add("require", "require (\n\ta.com/x v1.0.0\n)\n")
	add("require", "// bb\nrequire ( // sl\n\t// b1\n\ta.com/x v1.0.0 // s1\n\n\tb.com/y v1.1.0 // indirect\n\t// tail\n) // sr\n")
	add("require", "require (\n\ta.com/x/v2 v2.0.0\n\tb.com/y v2.0.0+incompatible\n\tgopkg.in/y.v1 v1.2.3-pre\n)\n")
	add("require", "require ()\n")
	addFix("require", "require a.com/x v1\n")
	addFix("require", "require (\n\ta.com/x latest // s\n\tb.com/y v1.2\n)\n")
	// exclude
	add("exclude", "exclude a.com/x v1.0.0 // s\n")
	add("exclude", "exclude (\n\ta.com/x v1.1.0\n\t// b\n\tb.com/y v1.0.0\n)\n")
	// replace
	add("replace", "replace a.com/x => b.com/y v1.0.0\n")
	add("replace", "replace a.com/x v1.0.0 => b.com/y v1.1.0 // s\n")
	add("replace", "replace a.com/x => ../x\n")
	add("replace", "replace a.com/x v1.0.0 => \"../dir with space\"\n")
	add("replace", "replace a.com/x => \"..\\u002fesc\"\n")
	add("replace", "replace a.com/x => \"../a//b\" // s\n")
	add("replace", "replace a.com/x => \"./(\"\n")
	add("replace", "replace a.com/x => \"./o'brien\"\n")
	add("replace", "replace a.com/x => \"./say\\\"hi\\\"\" // s\n")
	add("replace", "replace a.com/x => \"./back`tick\"\n")
	add("replace", "replace a.com/x => \"./tab\\there\"\n")
	// escapes other than \\ and \" inside quoted strings, and values that end in a backslash
	add("replace", "replace a.com/x => \"../my dir\\x5c\"\n")
	add("replace", "replace a.com/x => \"../q\\134\" // s\n")
	add("replace", "replace a.com/x => \"../a b\\u005c\\u005c\"\n")
	add("replace", "replace a.com/x => \"../\\x22quoted\\x22 dir\"\n")
	add("replace", "replace a.com/x => \"../nl\\x0adir\"\n")
	// escapes that produce bytes which are not valid UTF-8, or U+FFFD itself
	add("replace", "replace a.com/x => \"./caf\\xe9\"\n")
	add("replace", "replace a.com/x => \"./x\\ufffdy\" // s\n")
	add("replace", "replace a.com/x => \"./\\377\\xc3\"\n")
	// an invalid byte next to something else that needs quoting (space, bracket, comma, //), no other escape
	add("replace", "replace a.com/x => \"../my dir\\xff\"\n")
	add("replace", "replace a.com/x v1.0.0 => \"../a [fork]\\xfe\" // s\n")
	add("replace", "replace a.com/x => \"../a,b\\377\"\n")
	add("replace", "replace a.com/x => \"../a//b\\x80\"\n")
	add("replace", "replace (\n\ta.com/x => ./x\n\t// b\n\tb.com/y v1.0.0 => c.com/z v1.2.0 // s\n)\n")
	addFix("replace", "replace a.com/x v1 => b.com/y v1.1\n")
	addFix("replace", "replace a.com/x => b.com/y v1\n")
	addFix("replace", "replace (\n\ta.com/x v1 => ../x\n\tb.com/y => c.com/z v1.2 // s\n)\n")
	addFix("exclude", "exclude a.com/x v1.0\n")
	addFix("exclude", "exclude (\n\ta.com/x v1\n\tb.com/y v1.2.0\n)\n")
	addFix("require", "require a.com/x v1 // indirect\n")
	// retract
	add("retract", "retract v1.0.0\n")
	add("retract", "// bad\nretract v1.0.0 // really\n")
	add("retract", "retract [v1.0.0, v1.1.0] // range\n")
	add("retract", "retract (\n\tv1.0.0 // one\n\t// two\n\t[v1.1.0, v1.2.0]\n)\n")
	add("retract", "// all bad\nretract (\n\tv1.0.0\n\tv1.1.0\n)\n")
	addFix("retract", "retract [v1, v1.1]\n")
	add("retract", "retract [v1.2.0, v1.2.0]\n")
	// comments that end in white space other than blank and tab (rationale and deprecation texts are
	// taken from comments)
	add("retract", "retract v1.0.0 // why\u00a0\n")
	add("retract", "// because\u3000\nretract v1.0.0\n")
	add("retract", "retract v1.0.0 // cr\r\r\n")
	add("retract", "retract v1.0.0 // vt\v\n")
	add("module", "// Deprecated: use n\u00a0\nmodule example.com/m\n")
	add("module", "module example.com/m // Deprecated: gone\u2003\n")
	add("retract", "retract (\n\t[v1.0.0, v1.0.0] // same\n\tv1.3.0\n)\n")
	addFix("retract", "retract [v1.2, v1.2]\n")
	addFix("retract", "retract v1 // short\n")
	// comments, blank lines and directives in every order inside a block (and a block comment above)
	add("retract", "retract (\n\t// why\n\n\tv1.0.0\n)\n")
	add("retract", "// block\nretract (\n\t// p1\n\n\t// p2\n\tv1.0.0\n\n\tv1.1.0 // s\n\n\t// p3\n\n)\n")
	add("require", "require (\n\t// c1\n\n\ta.com/x v1.0.0\n\n\t// c2\n\n\t// c3\n\tb.com/y v1.1.0 // indirect\n)\n")
	add("module", "// Deprecated: gone\nmodule (\n\t// c\n\n\texample.com/m\n)\n")
	add("exclude", "exclude (\n\n\t// c\n\n\ta.com/x v1.0.0\n\n)\n")
	// tool
	add("tool", "tool a.com/x/cmd\n")
	add("tool", "tool (\n\ta.com/x/cmd // s\n\tb.com/y/cmd\n)\n")
	// free-standing comments
	add("comment", "// lone comment\n")
	add("comment", "// two\n// lines\n")
	// comments that talk about directives, keyword doubled, keyword first
	add("comment", "// The module module example.com/old was renamed\n")
	add("comment", "// module example.com/commented-out\n")
	add("comment", "//module\tmodule\texample.com/tabbed\n")
	add("comment", "// require module module v1.0.0\n")
	// a requirement on a module whose path is the word "module" (the quick path extractor scans lines)
	add("require", "require (\n\tmodule v1.0.0\n)\n")
	add("replace", "replace (\n\tmodule => ../x\n)\n")
	// module paths spelled like punctuation the directive parsers look for (written quoted, printed bare)
	add("replace", "replace \"=>\" => ../x\n")
	add("replace", "replace \"=>\" v1.0.0 => ../y // s\n")
	add("replace", "replace (\n\t\"=>\" => \"=>\" v1.0.0\n)\n")
	add("require", "require \"=>\" v1.0.0\n")
	add("exclude", "exclude \"=>\" v1.0.0\n")
	add("require", "require \"//\" v1.0.0\n")
	add("require", "require \"=\" v1.0.0 // indirect\n")
	add("godebug", "godebug \"=\"=x\n")
	// unknown directives and blocks: lax only
	addLax("unknown", "frobnicate a b c\n")
	addLax("unknown", "frobnicate (\n\ta b\n\tc\n)\n")
	addLax("unknown", "use ./x\n")
	return out
}

// WorkStmts returns the go.work statement variants.
func WorkStmts() []Stmt {
	var out []Stmt
	add := func(kind, text string) { out = append(out, Stmt{Text: text, Kind: kind}) }
	add("go", "go 1.21\n")
	add("go", "// b\ngo 1.21.0 // s\n")
	add("toolchain", "toolchain go1.21.0\n")
	add("godebug", "godebug panicnil=1\n")
	add("godebug", "godebug (\n\tpanicnil=1\n\tasynctimerchan=0 // s\n)\n")
	add("use", "use ./a\n")
	add("use", "use \"./dir with space\" // s\n")
	add("use", "use \"./o'brien\"\n")
	add("use", "use \"./say\\\"hi\\\"\"\n")
	add("use", "use \"./my modules\\x5c\"\n")
	add("use", "use \"./my dir\\xff\"\n")
	add("use", "use \"./a (old)\\xc3\" // s\n")
	add("use", "use \"./caf\\xe9\"\n")
	add("use", "use \"./a\\u00a0b\"\n")
	add("use", "use \"./a\\134\" // s\n")
	add("use", "use (\n\t./a\n\t// b\n\t../b // s\n)\n")
	add("use", "// bb\nuse (\n\t./a\n\n\t./c\n)\n")
	add("replace", "replace a.com/x => ../x\n")
	add("replace", "replace (\n\ta.com/x v1.0.0 => b.com/y v1.1.0 // s\n\tb.com/y => \"../dir with space\"\n)\n")
	add("comment", "// lone comment\n")
	out = append(out, Stmt{Text: "replace a.com/x v1 => b.com/y v1.1\n", Kind: "replace", Fix: true})
	return out
}

// once lists directive kinds that may appear at most once in a file.
var once = map[string]bool{"module": true, "go": true, "toolchain": true}

// File is one generated file.
type File struct {
	Text  string
	Stmts []int // indexes into the statement list
	Fix   bool
	Lax   bool
	CRLF  bool
	Blank bool
}

// Files enumerates every sequence of 1..k statements (respecting at-most-once kinds), with
// both separators (newline, blank line) and both line endings.
func Files(stmts []Stmt, k int, visit func(f File)) {
	var rec func(cur []int)
	rec = func(cur []int) {
		if len(cur) > 0 {
			for _, blank := range []bool{false, true} {
				for _, crlf := range []bool{false, true} {
					var b strings.Builder
					f := File{Stmts: append([]int(nil), cur...), CRLF: crlf, Blank: blank}
					for i, s := range cur {
						if i > 0 && blank {
							b.WriteString("\n")
						}
						b.WriteString(stmts[s].Text)
						f.Fix = f.Fix || stmts[s].Fix
						f.Lax = f.Lax || stmts[s].Lax
					}
					f.Text = b.String()
					if crlf {
						f.Text = strings.ReplaceAll(f.Text, "\n", "\r\n")
					}
					visit(f)
				}
			}
		}
		if len(cur) == k {
			return
		}
		for i, s := range stmts {
			if once[s.Kind] {
				dup := false
				for _, c := range cur {
					if stmts[c].Kind == s.Kind {
						dup = true
					}
				}
				if dup {
					continue
				}
			}
			rec(append(cur, i))
		}
	}
	rec(nil)
}
