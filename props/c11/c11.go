// Package c11: path and version escaping is a lossless, case-collision-free encoding.
package c11

import (
	"encoding/json"
	"fmt"
	"strconv"
	"strings"
	"sync"
	"unicode"

	"golang.org/x/mod/module"

	"verif/internal/enum"
	"verif/internal/fw"
	"verif/internal/ref/pathref"
)

type caseT struct {
	Kind string `json:"kind"` // path, version, unpath, unversion
	In   string `json:"input_quoted"`
}

var alphabet = []string{"a", "B", "Z", "!", ".", "/", "1", "-", "é"}

func refEscape(s string) string {
	var b strings.Builder
	for _, c := range s {
		if 'A' <= c && c <= 'Z' {
			b.WriteByte('!')
			b.WriteRune(unicode.ToLower(c))
		} else {
			b.WriteRune(c)
		}
	}
	return b.String()
}

func ascii(s string) bool {
	for i := 0; i < len(s); i++ {
		if s[i] >= 0x80 {
			return false
		}
	}
	return true
}

func versionAllowed(v string) bool {
	return ascii(v) && !strings.Contains(v, "!") && !strings.Contains(v, "/") && pathref.Valid(v, pathref.File, pathref.Impl)
}

func hasUpper(s string) bool { return strings.IndexFunc(s, unicode.IsUpper) >= 0 }

// forward checks Escape on one input; returns message, accepted.
func forward(kind, s string) (string, bool) {
	var esc string
	var err error
	var want bool
	if kind == "path" {
		esc, err = module.EscapePath(s)
		want = pathref.Valid(s, pathref.Module, pathref.Impl)
		if (module.CheckPath(s) == nil) != (err == nil) {
			return fmt.Sprintf("EscapePath(%q) err=%v but CheckPath err=%v", s, err, module.CheckPath(s)), err == nil
		}
	} else {
		esc, err = module.EscapeVersion(s)
		want = versionAllowed(s)
	}
	if (err == nil) != want {
		return fmt.Sprintf("Escape %s %q: accepted=%v, reference says valid=%v (err=%v)", kind, s, err == nil, want, err), err == nil
	}
	if err != nil {
		if esc != "" {
			return fmt.Sprintf("Escape %s %q failed but returned %q", kind, s, esc), false
		}
		return "", false
	}
	if hasUpper(esc) {
		return fmt.Sprintf("Escape %s %q = %q contains an upper-case letter", kind, s, esc), true
	}
	if esc != refEscape(s) {
		return fmt.Sprintf("Escape %s %q = %q, documented form is %q", kind, s, esc, refEscape(s)), true
	}
	var back string
	if kind == "path" {
		back, err = module.UnescapePath(esc)
	} else {
		back, err = module.UnescapeVersion(esc)
	}
	if err != nil || back != s {
		return fmt.Sprintf("Unescape(Escape %s %q = %q) = %q, %v", kind, s, esc, back, err), true
	}
	return "", true
}

// backward checks Unescape on one arbitrary string.
func backward(kind, e string) (string, bool) {
	var v string
	var err error
	if kind == "unpath" {
		v, err = module.UnescapePath(e)
	} else {
		v, err = module.UnescapeVersion(e)
	}
	if err != nil {
		if v != "" {
			return fmt.Sprintf("%s(%q) failed but returned %q", kind, e, v), false
		}
		// completeness: if e is the escape of a valid input, unescape must succeed
		return "", false
	}
	var again string
	var err2 error
	var valid bool
	if kind == "unpath" {
		again, err2 = module.EscapePath(v)
		valid = pathref.Valid(v, pathref.Module, pathref.Impl)
	} else {
		again, err2 = module.EscapeVersion(v)
		valid = versionAllowed(v)
	}
	if !valid {
		return fmt.Sprintf("%s(%q) = %q which is not a valid input", kind, e, v), true
	}
	if err2 != nil || again != e {
		return fmt.Sprintf("%s(%q) = %q but escaping that gives %q, %v: %q is not the escape of any valid input", kind, e, v, again, err2, e), true
	}
	return "", true
}

// FirstCalls is the menu of the fresh-process call-order check: the four functions on inputs with and
// without upper-case letters and exclamation marks.
func FirstCalls() []fw.Call {
	var out []fw.Call
	add := func(name string, f func(string) (string, error), in string) {
		out = append(out, fw.Call{Name: name + "(" + strconv.QuoteToASCII(in) + ")", F: func() string {
			s, err := f(in)
			return fmt.Sprintf("%q err=%v", s, err)
		}})
	}
	for _, in := range []string{"github.com/Azure/x", "github.com/!azure/x", "example.com/a"} {
		add("EscapePath", module.EscapePath, in)
		add("UnescapePath", module.UnescapePath, in)
	}
	for _, in := range []string{"v1.0.0-RC1", "v1.0.0-!r!c1", "v1.0.0"} {
		add("EscapeVersion", module.EscapeVersion, in)
		add("UnescapeVersion", module.UnescapeVersion, in)
	}
	return out
}

func Run(r *fw.Run) {
	defer fw.FirstCallOrders(r, "C11", FirstCalls(), nil)
	L := r.Pick(8, 9)
	Ltab := r.Pick(7, 8)
	r.Bounds["alphabet"] = alphabet
	r.Bounds["max_len"] = L
	r.Bounds["injectivity_table_max_len"] = Ltab
	r.Rule = "every string over the alphabet up to max_len is used as module path, as version, and as escaped form of either (4 executions per string); non-trivial = input accepted by Escape*/Unescape*; a global table lower(escape(x)) -> x over all accepted inputs up to injectivity_table_max_len checks case-insensitive injectivity directly"
	r.Assume = []string{"'allowed version' = ASCII valid file-name element without '!' (DESIGN 7)", "path validity is pathref's implemented variant; disagreements about validity itself are C06's business"}
	type ent struct{ low, in string }
	var mu sync.Mutex
	tabP := map[string]string{}
	tabV := map[string]string{}
	enum.Strings(alphabet, L, fw.Workers(), func(w int) (func([]byte, int), func()) {
		l := fw.NewLocal()
		var ps, vs []ent
		return func(b []byte, d int) {
				s := string(b)
				l.States++
				l.Transitions++
				for _, kind := range []string{"path", "version"} {
					l.Execs++
					msg, ok := forward(kind, s)
					if ok {
						l.Nontrivial++
						l.Outcomes["escape-"+kind+":ok"]++
						if len(s) <= Ltab {
							var e string
							if kind == "path" {
								e, _ = module.EscapePath(s)
								ps = append(ps, ent{strings.ToLower(e), s})
							} else {
								e, _ = module.EscapeVersion(s)
								vs = append(vs, ent{strings.ToLower(e), s})
							}
						}
					}
					if msg != "" {
						r.Violation(kind+":"+strconv.QuoteToASCII(s), msg, caseT{kind, strconv.QuoteToASCII(s)})
					}
				}
				for _, kind := range []string{"unpath", "unversion"} {
					l.Execs++
					msg, ok := backward(kind, s)
					if ok {
						l.Nontrivial++
						l.Outcomes[kind+":ok"]++
					}
					if msg != "" {
						r.Violation(kind+":"+strconv.QuoteToASCII(s), msg, caseT{kind, strconv.QuoteToASCII(s)})
					}
				}
			}, func() {
				r.Merge(l)
				mu.Lock()
				defer mu.Unlock()
				for _, e := range ps {
					if prev, ok := tabP[e.low]; ok && prev != e.in {
						r.Violation("collide-path:"+strconv.QuoteToASCII(e.in), fmt.Sprintf("paths %q and %q escape to strings equal ignoring case (%q)", prev, e.in, e.low), caseT{"path", strconv.QuoteToASCII(e.in)})
					}
					tabP[e.low] = e.in
				}
				for _, e := range vs {
					if prev, ok := tabV[e.low]; ok && prev != e.in {
						r.Violation("collide-version:"+strconv.QuoteToASCII(e.in), fmt.Sprintf("versions %q and %q escape to strings equal ignoring case (%q)", prev, e.in, e.low), caseT{"version", strconv.QuoteToASCII(e.in)})
					}
					tabV[e.low] = e.in
				}
			}
	})
	// second alphabet: punctuation and a Windows reserved name, for versions (file-name elements) and paths
	alpha2 := []string{"c", "o", "n", ".", "+", "~", " ", "A", "_", "/", "!"}
	L2 := r.Pick(6, 7)
	r.Bounds["second_alphabet"] = alpha2
	r.Bounds["second_alphabet_max_len"] = L2
	enum.Strings(alpha2, L2, fw.Workers(), func(w int) (func([]byte, int), func()) {
		l := fw.NewLocal()
		return func(b []byte, d int) {
			s := string(b)
			l.States++
			l.Transitions++
			for _, kind := range []string{"path", "version"} {
				l.Execs++
				msg, ok := forward(kind, s)
				if ok {
					l.Nontrivial++
					l.Outcomes["escape-"+kind+":ok"]++
				}
				if msg != "" {
					r.Violation(kind+":"+strconv.QuoteToASCII(s), msg, caseT{kind, strconv.QuoteToASCII(s)})
				}
			}
			for _, kind := range []string{"unpath", "unversion"} {
				l.Execs++
				msg, ok := backward(kind, s)
				if ok {
					l.Nontrivial++
					l.Outcomes[kind+":ok"]++
				}
				if msg != "" {
					r.Violation(kind+":"+strconv.QuoteToASCII(s), msg, caseT{kind, strconv.QuoteToASCII(s)})
				}
			}
		}, func() { r.Merge(l) }
	})
	// byte sweep: every byte value (and a few multi-byte fills) in slots of inputs with and without
	// upper-case letters and exclamation marks, as path, version and escaped form
	{
		l := fw.NewLocal()
		slots := [][2]string{{"", ""}, {"a", "b"}, {"A", "b"}, {"a", "B"}, {"v1.0.0-RC", "1"}, {"v1.0.0-rc", "1"}, {"example.com/", "/x"}, {"example.com/A", "/x"},
			{"!a", ""}, {"a!", "b"}, {"", "!b"}, {"x.y/!a", "z"}, {"CON", ""}, {"", ".A"}, {"aB", "cD"}}
		var fills []string
		for b := 0; b < 256; b++ {
			fills = append(fills, string([]byte{byte(b)}))
		}
		fills = append(fills, "é", "É", "\u212a", "\ufffd", "\u0130", "\xe2\x82", "!!", "!Z", "!z")
		fills = append(fills, enum.LongFills('a')...)
		fills = append(fills, enum.BoundaryRunes()...)
		fills = append(fills, enum.LongFills('Z')...)
		r.Bounds["byte_sweep"] = fmt.Sprintf("%d slots x (256 byte values + %d other fills)", len(slots), len(fills)-256)
		for _, sl := range slots {
			for _, f := range fills {
				s := sl[0] + f + sl[1]
				l.States++
				l.Transitions++
				for _, kind := range []string{"path", "version"} {
					l.Execs++
					msg, ok := forward(kind, s)
					if ok {
						l.Nontrivial++
						l.Outcomes["escape-"+kind+":ok"]++
					}
					if msg != "" {
						r.Violation(kind+":"+strconv.QuoteToASCII(s), msg, caseT{kind, strconv.QuoteToASCII(s)})
					}
				}
				for _, kind := range []string{"unpath", "unversion"} {
					l.Execs++
					msg, ok := backward(kind, s)
					if ok {
						l.Nontrivial++
						l.Outcomes[kind+":ok"]++
					}
					if msg != "" {
						r.Violation(kind+":"+strconv.QuoteToASCII(s), msg, caseT{kind, strconv.QuoteToASCII(s)})
					}
				}
			}
		}
		r.Merge(l)
	}
	// dense length sweep: lower-case, upper-case and alternating fills of every length 0..enum.DenseMax
	{
		var mu sync.Mutex
		dslots := []struct {
			pre, post string
			c         byte
		}{{"example.com/", "", 'a'}, {"example.com/", "/x", 'Z'}, {"example.com/a", "Q", 'b'}, {"v1.0.0-", "", 'R'}, {"v1.0.0-a", "B", 'c'}, {"!", "", 'a'}, {"example.com/!a", "!b", 'c'}}
		r.Bounds["dense_length_sweep"] = fmt.Sprintf("%d slots x every fill length 0..%d x 4 functions", len(dslots), enum.DenseMax)
		fw.Parallel(len(dslots), func(i int) {
			l := fw.NewLocal()
			defer r.Merge(l)
			sl := dslots[i]
			enum.EachLength(sl.c, enum.DenseMax, func(f string) {
				s := sl.pre + f + sl.post
				l.States++
				l.Transitions++
				for _, kind := range []string{"path", "version", "unpath", "unversion"} {
					l.Execs++
					var msg string
					var ok bool
					if kind == "path" || kind == "version" {
						msg, ok = forward(kind, s)
					} else {
						msg, ok = backward(kind, s)
					}
					if ok {
						l.Nontrivial++
					}
					if msg != "" {
						mu.Lock()
						r.Violation(fmt.Sprintf("dense:%s:%d:%d", kind, i, len(f)), msg, caseT{kind, strconv.QuoteToASCII(s)})
						mu.Unlock()
					}
				}
			})
		})
	}
	// call histories: every ordered pair of related inputs, back to back in one goroutine
	{
		l := fw.NewLocal()
		rel := []string{"example.com/a", "example.com/A", "example.com/!a", "Example.com/a", "example.com/a!", "v1.0.0", "V1.0.0", "!v1.0.0", "v1.0.0-RC1", "v1.0.0-rc1", "v1.0.0-!r!c1", "CON", "con", "!c!o!n", "a.b/c", "A.b/C", "!a.b/!c", "", "!", "!!", "v0.0.0-20190101000000-ABCDEF123456", "v0.0.0-20190101000000-abcdef123456"}
		r.Bounds["call_histories"] = fmt.Sprintf("all ordered pairs of %d related inputs x 4 functions", len(rel))
		for _, a := range rel {
			for _, b := range rel {
				l.States++
				l.Transitions++
				for _, kind := range []string{"path", "version"} {
					l.Execs += 2
					forward(kind, a)
					if msg, _ := forward(kind, b); msg != "" {
						r.Violation(kind+":"+strconv.QuoteToASCII(b), "right after the same query for "+strconv.Quote(a)+": "+msg, caseT{kind, strconv.QuoteToASCII(b)})
					}
				}
				for _, kind := range []string{"unpath", "unversion"} {
					l.Execs += 2
					backward(kind, a)
					if msg, _ := backward(kind, b); msg != "" {
						r.Violation(kind+":"+strconv.QuoteToASCII(b), "right after the same query for "+strconv.Quote(a)+": "+msg, caseT{kind, strconv.QuoteToASCII(b)})
					}
				}
			}
		}
		r.Merge(l)
	}
	r.Extra["injectivity_table_paths"] = len(tabP)
	r.Extra["injectivity_table_versions"] = len(tabV)
	e, _ := module.EscapePath("a.a/BaZ")
	r.Sample(map[string]any{"kind": "path", "input": "a.a/BaZ", "escaped": e})
	_, err := module.UnescapePath("a.a/!1")
	r.Sample(map[string]any{"kind": "unpath", "input": "a.a/!1", "error": fmt.Sprint(err)})
	// extra structured inputs outside the alphabet
	for _, s := range []string{"github.com/Azure/azure-sdk-for-go", "github.com/GoogleCloudPlatform/cloudsql-proxy", "v1.0.0+Incompatible", "V1", "v1.0.0-20190101000000-ABCDEF", "a.b/K", "a.b/K", "a.b/x y", "con", "a~1", "a.b/!a", "a.b/!!a", "a.b/!A", "!a.b/c", "a.b/c!"} {
		for _, kind := range []string{"path", "version"} {
			r.States.Add(1)
			r.Execs.Add(1)
			if msg, _ := forward(kind, s); msg != "" {
				r.Violation(kind+":"+strconv.QuoteToASCII(s), msg, caseT{kind, strconv.QuoteToASCII(s)})
			}
		}
		for _, kind := range []string{"unpath", "unversion"} {
			r.Execs.Add(1)
			if msg, _ := backward(kind, s); msg != "" {
				r.Violation(kind+":"+strconv.QuoteToASCII(s), msg, caseT{kind, strconv.QuoteToASCII(s)})
			}
		}
	}
}

func Replay(r *fw.Run, raw json.RawMessage) {
	var c caseT
	json.Unmarshal(raw, &c)
	s, _ := strconv.Unquote(c.In)
	r.States.Add(1)
	r.Transitions.Add(1)
	r.Execs.Add(1)
	r.Sample(c)
	var msg string
	if c.Kind == "path" || c.Kind == "version" {
		msg, _ = forward(c.Kind, s)
	} else {
		msg, _ = backward(c.Kind, s)
	}
	if msg != "" {
		r.Violation(c.Kind+":"+c.In, msg, c)
	}
}
