// Package c09: the log's tree hash and stored-hash layout are exactly RFC 6962 for every log.
package c09

import (
	"bytes"
	"encoding/base64"
	"encoding/json"
	"fmt"
	"math/bits"
	"strconv"
	"strings"
	"sync"
	"unicode/utf8"
	"verif/internal/coop"

	"golang.org/x/mod/sumdb/tlog"

	"verif/internal/enum"
	"verif/internal/fw"
	"verif/internal/ref/rfc6962"
	"verif/internal/tlogx"
)

type caseT struct {
	Kind    string `json:"kind"` // layout | treehash | coord | tree | record | hash
	Pattern int    `json:"pattern,omitempty"`
	N       int64  `json:"n,omitempty"`
	M       int64  `json:"m,omitempty"`
	Level   int    `json:"level,omitempty"`
	Text    string `json:"text_quoted,omitempty"`
	Tail    string `json:"tail_quoted,omitempty"`
}

// prefixReader serves only the first limit stored hashes (what exists after n records).
type prefixReader struct {
	lg    *tlogx.Log
	limit int64
}

func (p prefixReader) ReadHashes(ix []int64) ([]tlog.Hash, error) {
	for _, x := range ix {
		if x >= p.limit {
			return nil, fmt.Errorf("read of stored hash %d beyond the %d hashes that exist", x, p.limit)
		}
	}
	return p.lg.ReadHashes(ix)
}

func FailingAppends(r *fw.Run) {
	l := fw.NewLocal()
	defer r.Merge(l)
	N := r.Pick(40, 100)
	r.Bounds["failing_append_histories_up_to"] = N
	A, errA := tlogx.Build(tlogx.Pattern(0, N))
	B, errB := tlogx.Build(tlogx.Pattern(2, N+3))
	if errA != nil || errB != nil {
		r.Violation("failing:build", "clean build failed", nil)
		return
	}
	good := func(lg *tlogx.Log, n int64) tlog.HashReader {
		return prefixReader{lg, tlog.StoredHashCount(n)}
	}
	bad := func(lg *tlogx.Log, n int64, mode int) tlog.HashReader {
		return tlog.HashReaderFunc(func(ix []int64) ([]tlog.Hash, error) {
			hs, err := good(lg, n).ReadHashes(ix)
			if err != nil {
				return nil, err
			}
			switch mode {
			case 0:
				return nil, fmt.Errorf("injected read error")
			case 1:
				if len(hs) > 0 {
					return hs[:len(hs)-1], nil
				}
				return nil, fmt.Errorf("injected read error")
			case 3:
				// an error together with a slice of the right length (a reader that fills what it can)
				out := make([]tlog.Hash, len(hs))
				for i := range out {
					out[i][0] = 0xee
				}
				return out, fmt.Errorf("injected read error with a full-length answer")
			default:
				return append(hs, hs...), nil
			}
		})
	}
	check := func(name string, lg *tlogx.Log, n int64, hist string) {
		l.Execs++
		l.Transitions++
		hs, err := tlog.StoredHashes(n, lg.Records[n], good(lg, n))
		base := tlog.StoredHashCount(n)
		ok := err == nil && int64(len(hs)) == tlog.StoredHashCount(n+1)-base
		for i := 0; ok && i < len(hs); i++ {
			ok = hs[i] == lg.Store[base+int64(i)]
		}
		if !ok {
			r.Violation(fmt.Sprintf("failing:%s:%d:%s", name, n, hist), fmt.Sprintf("%s: StoredHashes for record %d of log %s returned hashes that differ from a clean build of that log (err=%v)", hist, n, name, err), caseT{Kind: "failing", N: n, Text: hist})
		}
	}
	// a reader that answers with one hash too few or with too many: every prover must report an error, not
	// panic and not return a result
	for n := int64(1); n <= int64(N); n++ {
		for mode := 1; mode <= 3; mode++ {
			for _, c := range []struct {
				name string
				f    func(rd tlog.HashReader) error
			}{
				{"TreeHash", func(rd tlog.HashReader) error { _, err := tlog.TreeHash(n, rd); return err }},
				{"ProveRecord", func(rd tlog.HashReader) error { _, err := tlog.ProveRecord(n, n/2, rd); return err }},
				{"ProveTree", func(rd tlog.HashReader) error { _, err := tlog.ProveTree(n, n/2+1, rd); return err }},
			} {
				l.States++
				l.Execs++
				l.Transitions++
				asked := 0
				rd := tlog.HashReaderFunc(func(ix []int64) ([]tlog.Hash, error) {
					asked += len(ix)
					return bad(A, n, mode).ReadHashes(ix)
				})
				var err error
				pan := ""
				func() {
					defer func() {
						if e := recover(); e != nil {
							pan = fmt.Sprint(e)
						}
					}()
					err = c.f(rd)
				}()
				if pan != "" || (err == nil && asked > 0) {
					r.Violation(fmt.Sprintf("failing:count:%s:%d:%d", c.name, n, mode), fmt.Sprintf("%s on a %d-record log whose reader returns the wrong number of hashes (mode %d): err=%v panic=%q", c.name, n, mode, err, pan), caseT{Kind: "failing", N: n, Text: c.name})
				}
			}
		}
	}
	for n := int64(0); n < int64(N); n++ {
		for mode := 0; mode <= 3; mode++ {
			for _, m := range []int64{n, n + 1, n + 2, n + 3} {
				l.States++
				hist := fmt.Sprintf("after a failed call (mode %d) for record %d of log A", mode, n)
				l.Execs++
				if _, err := tlog.StoredHashes(n, A.Records[n], bad(A, n, mode)); err == nil && n > 0 && tlog.StoredHashCount(n+1)-tlog.StoredHashCount(n) > 1 {
					r.Violation(fmt.Sprintf("failing:accepted:%d:%d", n, mode), fmt.Sprintf("StoredHashes(%d) succeeded although the reader failed (mode %d)", n, mode), caseT{Kind: "failing", N: n})
				}
				check("B", B, m, hist)
				check("A", A, n, hist+" and an append to log B")
			}
		}
	}
}

// hugeLogs checks TreeHash, ProveRecord/CheckRecord and ProveTree/CheckTree on logs of identical
// records with sizes around every power of two up to 2^62 and with sparse and dense bit patterns.
// HugeLogs checks TreeHash, the provers and the checkers on virtual logs of up to 2^62 identical records
// against RFC 6962 computed independently (every subtree hash of such a log depends on its size only).
func HugeLogs(r *fw.Run) {
	l := fw.NewLocal()
	defer r.Merge(l)
	leaf := tlog.RecordHash([]byte("same\n"))
	level := []tlog.Hash{leaf}
	for i := 1; i <= 63; i++ {
		level = append(level, tlog.NodeHash(level[i-1], level[i-1]))
	}
	rd := tlog.HashReaderFunc(func(ix []int64) ([]tlog.Hash, error) {
		out := make([]tlog.Hash, len(ix))
		for i, x := range ix {
			if x < 0 {
				return nil, fmt.Errorf("negative index %d", x)
			}
			lev, _ := tlog.SplitStoredHashIndex(x)
			out[i] = level[lev]
		}
		return out, nil
	})
	// RFC 6962 MTH of n identical records
	memo := map[int64]tlog.Hash{}
	var mth func(n int64) tlog.Hash
	mth = func(n int64) tlog.Hash {
		if n&(n-1) == 0 {
			return level[bits.TrailingZeros64(uint64(n))]
		}
		if h, ok := memo[n]; ok {
			return h
		}
		k := int64(1) << uint(63-bits.LeadingZeros64(uint64(n-1)))
		h := tlog.NodeHash(mth(k), mth(n-k))
		memo[n] = h
		return h
	}
	var sizes []int64
	for k := uint(1); k <= 62; k++ {
		for _, d := range []int64{-3, -2, -1, 0, 1, 2, 3, 5, 8, 255, 256, 257, 65536, int64(1) << (k / 2), int64(1)<<(k/2) + 1} {
			if n := int64(1)<<k + d; n >= 1 && n <= 1<<62 && d < int64(1)<<k {
				sizes = append(sizes, n)
			}
		}
	}
	for k := uint(8); k <= 61; k += 3 {
		sizes = append(sizes, int64(1)<<k|int64(1)<<(k/2), (int64(1)<<k-1)&^(int64(1)<<(k/2)), int64(0x5555555555555555)>>(62-k), int64(0x2aaaaaaaaaaaaaaa)>>(62-k), 3<<(k-1)-1)
	}
	sizes = append(sizes, 0x5ffffffffffff, 0x207fffffffffffff, 0x1017fffffffffffe, 1<<62-1)
	// above 2^62 the stored-hash index of a node no longer fits in 63 bits, so nothing can be read or proved
	// there; the checkers take sizes up to 2^63-1, and their proofs can be one hash longer (64)
	sizes = append(sizes, 1<<62+1, 1<<62+2, 1<<62+3, 1<<62+6, 1<<62+12345, 1<<62+1<<61, 1<<62+1<<61+1<<31+5, 0x5555555555555555, 0x6aaaaaaaaaaaaaab, 1<<63-3, 1<<63-2, 1<<63-1)
	r.Bounds["virtual_huge_logs"] = fmt.Sprintf("%d sizes up to 2^62 (around every power of two, sparse and dense bit patterns), identical records; 12 sizes between 2^62 and 2^63-1 for the checkers only", len(sizes)-12)
	seen := map[int64]bool{}
	for _, n := range sizes {
		if n < 1 || seen[n] {
			continue
		}
		seen[n] = true
		l.States++
		l.Execs++
		l.Transitions++
		want := mth(n)
		checkOnly := n > 1<<62
		got, err := want, error(nil)
		if !checkOnly {
			got, err = tlog.TreeHash(n, rd)
		}
		if err != nil || got != want {
			r.Violation(fmt.Sprintf("huge:treehash:%d", n), fmt.Sprintf("TreeHash(%d) of a log of identical records = %v, %v; RFC 6962 MTH = %v", n, got, err, want), caseT{Kind: "huge", N: n})
			continue
		}
		l.Nontrivial++
		pow := int64(1) << uint(63-bits.LeadingZeros64(uint64(n))) // largest power of two <= n
		for _, m := range []int64{0, 1, 2, 3, 5, 6, n / 2, n/2 + 12345, n - 3, n - 2, n - 1, pow/2 - 1, pow - 1, pow, pow + 1, pow + (n-pow)/2} {
			if m < 0 || m >= n {
				continue
			}
			l.Execs += 2
			// RFC 6962 2.1.1 audit path, innermost sibling first
			var refPath func(m, n int64) []tlog.Hash
			refPath = func(m, n int64) []tlog.Hash {
				if n == 1 {
					return nil
				}
				k := int64(1) << uint(63-bits.LeadingZeros64(uint64(n-1)))
				if m < k {
					return append(refPath(m, k), mth(n-k))
				}
				return append(refPath(m-k, n-k), mth(k))
			}
			wantP := refPath(m, n)
			var p tlog.RecordProof
			var err error
			same := true
			if !checkOnly {
				p, err = tlog.ProveRecord(n, m, rd)
				// tlog uses the RFC's order: innermost sibling first
				same = err == nil && len(p) == len(wantP)
				for i := 0; same && i < len(p); i++ {
					same = p[i] == wantP[i]
				}
			}
			if !same {
				r.Violation(fmt.Sprintf("huge:record:%d:%d", n, m), fmt.Sprintf("ProveRecord(%d,%d) over a log of identical records is not the RFC 6962 audit path (err=%v, %d hashes, RFC has %d)", n, m, err, len(p), len(wantP)), caseT{Kind: "huge", N: n, M: m})
			}
			rp := make(tlog.RecordProof, len(wantP))
			for i := range wantP {
				rp[i] = wantP[i]
			}
			if err := tlog.CheckRecord(rp, n, want, m, leaf); err != nil {
				r.Violation(fmt.Sprintf("huge:checkrecord:%d:%d", n, m), fmt.Sprintf("CheckRecord rejects the RFC 6962 audit path of record %d in a log of %d identical records: %v", m, n, err), caseT{Kind: "huge", N: n, M: m})
			}
			if len(rp) > 0 {
				bad := append(tlog.RecordProof(nil), rp...)
				bad[len(bad)/2][7] ^= 1
				if tlog.CheckRecord(bad, n, want, m, leaf) == nil {
					r.Violation(fmt.Sprintf("huge:checkrecord-forged:%d:%d", n, m), fmt.Sprintf("CheckRecord accepts an audit path with one flipped bit (record %d, log of %d)", m, n), caseT{Kind: "huge", N: n, M: m})
				}
			}
			if m >= 1 {
				// RFC 6962 2.1.2 consistency proof
				var sub func(m, n int64, b bool) []tlog.Hash
				sub = func(m, n int64, b bool) []tlog.Hash {
					if m == n {
						if b {
							return nil
						}
						return []tlog.Hash{mth(m)}
					}
					k := int64(1) << uint(63-bits.LeadingZeros64(uint64(n-1)))
					if m <= k {
						return append(sub(m, k, b), mth(n-k))
					}
					return append(sub(m-k, n-k, false), mth(k))
				}
				wantT := sub(m, n, true)
				var tp tlog.TreeProof
				var err error
				same := true
				if !checkOnly {
					tp, err = tlog.ProveTree(n, m, rd)
					same = err == nil && len(tp) == len(wantT)
					for i := 0; same && i < len(tp); i++ {
						same = tp[i] == wantT[i]
					}
				}
				if !same {
					r.Violation(fmt.Sprintf("huge:tree:%d:%d", n, m), fmt.Sprintf("ProveTree(%d,%d) over a log of identical records is not the RFC 6962 consistency proof (err=%v, %d hashes, RFC has %d)", n, m, err, len(tp), len(wantT)), caseT{Kind: "huge", N: n, M: m})
				}
				rt := make(tlog.TreeProof, len(wantT))
				for i := range wantT {
					rt[i] = wantT[i]
				}
				if err := tlog.CheckTree(rt, n, want, m, mth(m)); err != nil {
					r.Violation(fmt.Sprintf("huge:checktree:%d:%d", n, m), fmt.Sprintf("CheckTree rejects the RFC 6962 consistency proof between %d and %d identical records: %v", m, n, err), caseT{Kind: "huge", N: n, M: m})
				}
				if len(rt) > 0 {
					bad := append(tlog.TreeProof(nil), rt...)
					bad[len(bad)/2][9] ^= 1
					if tlog.CheckTree(bad, n, want, m, mth(m)) == nil {
						r.Violation(fmt.Sprintf("huge:checktree-forged:%d:%d", n, m), fmt.Sprintf("CheckTree accepts a consistency proof with one flipped bit (%d, %d)", m, n), caseT{Kind: "huge", N: n, M: m})
					}
				}
			}
		}
	}
}

type aliasReader struct {
	store    []tlog.Hash
	memo     map[string][]tlog.Hash
	memoCopy map[string][]tlog.Hash
}

func (a *aliasReader) ReadHashes(ix []int64) ([]tlog.Hash, error) {
	for _, x := range ix {
		if x < 0 || x >= int64(len(a.store)) {
			return nil, fmt.Errorf("index %d out of range", x)
		}
	}
	consecutive := len(ix) > 0
	for i := 1; i < len(ix); i++ {
		if ix[i] != ix[i-1]+1 {
			consecutive = false
		}
	}
	if consecutive {
		return a.store[ix[0] : ix[0]+int64(len(ix))], nil // zero copy
	}
	k := fmt.Sprint(ix)
	if s, ok := a.memo[k]; ok {
		return s, nil
	}
	out := make([]tlog.Hash, len(ix))
	for i, x := range ix {
		out[i] = a.store[x]
	}
	a.memo[k] = out
	a.memoCopy[k] = append([]tlog.Hash(nil), out...)
	return out, nil
}

// Overlap explores every interleaving (switching at the HashReader callbacks) of two calls out of
// TreeHash / ProveRecord / ProveTree / StoredHashes on the same log, each time after a history of calls
// that failed (a reader that returns an error), and checks every result against the clean log. Package
// level scratch state shared between overlapping calls, or left behind by failed ones, shows up here.
// It is shared with C03.
func Overlap(r *fw.Run) {
	l := fw.NewLocal()
	defer r.Merge(l)
	N := 13
	lg, err := tlogx.Build(tlogx.Pattern(0, N))
	if err != nil {
		r.Violation("overlap:build", err.Error(), nil)
		return
	}
	type call struct {
		name string
		f    func(rd tlog.HashReader) string
	}
	var calls []call
	for _, n := range []int64{5, 7, 12, 13} {
		n := n
		calls = append(calls, call{fmt.Sprintf("TreeHash(%d)", n), func(rd tlog.HashReader) string {
			h, err := tlog.TreeHash(n, rd)
			if err != nil || h != lg.Root(int(n)) {
				return fmt.Sprintf("TreeHash(%d) = %v, %v", n, h, err)
			}
			return ""
		}})
		for _, m := range []int64{0, 3, n - 1} {
			m := m
			calls = append(calls, call{fmt.Sprintf("ProveRecord(%d,%d)", n, m), func(rd tlog.HashReader) string {
				p, err := tlog.ProveRecord(n, m, rd)
				if err != nil || tlog.CheckRecord(p, n, lg.Root(int(n)), m, tlog.Hash(lg.Ref.Leaves[m])) != nil {
					return fmt.Sprintf("ProveRecord(%d,%d) gives a proof that does not verify (err=%v)", n, m, err)
				}
				return ""
			}})
			calls = append(calls, call{fmt.Sprintf("ProveTree(%d,%d)", n, m+1), func(rd tlog.HashReader) string {
				p, err := tlog.ProveTree(n, m+1, rd)
				if err != nil || tlog.CheckTree(p, n, lg.Root(int(n)), m+1, lg.Root(int(m+1))) != nil {
					return fmt.Sprintf("ProveTree(%d,%d) gives a proof that does not verify (err=%v)", n, m+1, err)
				}
				return ""
			}})
		}
	}
	failing := tlog.HashReaderFunc(func(ix []int64) ([]tlog.Hash, error) { return nil, fmt.Errorf("injected read error") })
	histories := [][]string{nil, {"ProveTree"}, {"ProveRecord"}, {"TreeHash"}, {"ProveTree", "ProveTree"}, {"StoredHashes"}}
	r.Bounds["overlapping_calls"] = fmt.Sprintf("all ordered pairs of %d calls on a %d-record log x %d histories of failed calls, every interleaving at reader callbacks", len(calls), N, len(histories))
	for _, hist := range histories {
		for _, a := range calls {
			for _, b := range calls {
				hist, a, b := hist, a, b
				l.States++
				runs, _ := coop.Explore(func() ([]func(func()), func([]int, any)) {
					for _, h := range hist {
						switch h {
						case "ProveTree":
							tlog.ProveTree(13, 5, failing)
						case "ProveRecord":
							tlog.ProveRecord(13, 5, failing)
						case "TreeHash":
							tlog.TreeHash(11, failing)
						default:
							tlog.StoredHashes(11, lg.Records[11], failing)
						}
					}
					var ra, rb string
					mk := func(c call, out *string) func(func()) {
						return func(yield func()) {
							rd := tlog.HashReaderFunc(func(ix []int64) ([]tlog.Hash, error) {
								// a reader takes time: other calls may run before it looks at its argument,
								// while it works, and before it returns
								yield()
								first := append([]int64(nil), ix...)
								yield()
								hs, err := lg.ReadHashes(ix)
								for k := range first {
									if k < len(ix) && first[k] != ix[k] {
										return nil, fmt.Errorf("the index list handed to the reader changed while the reader was running")
									}
								}
								yield()
								return hs, err
							})
							*out = c.f(rd)
						}
					}
					return []func(func()){mk(a, &ra), mk(b, &rb)}, func(schedule []int, pan any) {
						msg := ""
						switch {
						case pan != nil:
							msg = fmt.Sprintf("panic: %v", pan)
						case ra != "":
							msg = ra
						case rb != "":
							msg = rb
						}
						if msg != "" {
							r.Violation(fmt.Sprintf("overlap:%v:%s:%s", hist, a.name, b.name), fmt.Sprintf("after failed calls %v, %s overlapping with %s (interleaving %v at the reader callbacks): %s", hist, a.name, b.name, schedule, msg), caseT{Kind: "overlap", Text: fmt.Sprintf("%v|%s|%s|%v", hist, a.name, b.name, schedule)})
						}
					}
				}, 200)
				l.Execs += int64(runs)
				l.Transitions += int64(runs)
			}
		}
	}
}

// Aliasing is shared with C03 (the provers are part of both properties).
func Aliasing(r *fw.Run) { aliasing(r) }

func aliasing(r *fw.Run) {
	l := fw.NewLocal()
	defer r.Merge(l)
	N := r.Pick(40, 70)
	r.Bounds["aliasing_readers_up_to"] = N
	lg, err := tlogx.Build(tlogx.Pattern(0, N))
	if err != nil {
		r.Violation("aliasing:build", err.Error(), nil)
		return
	}
	pristine := append([]tlog.Hash(nil), lg.Store...)
	ar := &aliasReader{store: append([]tlog.Hash(nil), lg.Store...), memo: map[string][]tlog.Hash{}, memoCopy: map[string][]tlog.Hash{}}
	intact := func(what string, n, m int64) bool {
		for i := range pristine {
			if ar.store[i] != pristine[i] {
				r.Violation("aliasing:"+what, fmt.Sprintf("%s(%d,%d) wrote into memory handed out by the HashReader: stored hash %d changed", what, n, m, i), caseT{Kind: "aliasing", N: n, M: m, Text: what})
				copy(ar.store, pristine)
				return false
			}
		}
		for k, s := range ar.memo {
			for i := range s {
				if s[i] != ar.memoCopy[k][i] {
					r.Violation("aliasing:"+what, fmt.Sprintf("%s(%d,%d) wrote into a slice returned by the HashReader (request %s, element %d)", what, n, m, k, i), caseT{Kind: "aliasing", N: n, M: m, Text: what})
					copy(s, ar.memoCopy[k])
					return false
				}
			}
		}
		return true
	}
	for n := int64(1); n <= int64(N); n++ {
		cnt := tlog.StoredHashCount(n)
		sub := &aliasReader{store: ar.store[:cnt], memo: ar.memo, memoCopy: ar.memoCopy}
		for rep := 0; rep < 2; rep++ {
			l.States++
			l.Execs += 3
			l.Transitions += 3
			th, err := tlog.TreeHash(n, sub)
			if err != nil || th != lg.Root(int(n)) {
				r.Violation(fmt.Sprintf("aliasing:treehash:%d:%d", n, rep), fmt.Sprintf("TreeHash(%d) over a reader that hands out its own memory (call %d) = %v, %v; RFC 6962 says %v", n, rep+1, th, err, lg.Root(int(n))), caseT{Kind: "aliasing", N: n, Text: "TreeHash"})
			}
			intact("TreeHash", n, 0)
			for m := int64(0); m < n; m++ {
				p, err := tlog.ProveRecord(n, m, sub)
				if err != nil || tlog.CheckRecord(p, n, lg.Root(int(n)), m, tlog.Hash(lg.Ref.Leaves[m])) != nil {
					r.Violation(fmt.Sprintf("aliasing:proverecord:%d:%d", n, m), fmt.Sprintf("ProveRecord(%d,%d) over a reader that hands out its own memory (call %d) gives a proof that does not verify (err=%v)", n, m, rep+1, err), caseT{Kind: "aliasing", N: n, M: m, Text: "ProveRecord"})
				}
				intact("ProveRecord", n, m)
				tp, err := tlog.ProveTree(n, m+1, sub)
				if err != nil || tlog.CheckTree(tp, n, lg.Root(int(n)), m+1, lg.Root(int(m+1))) != nil {
					r.Violation(fmt.Sprintf("aliasing:provetree:%d:%d", n, m+1), fmt.Sprintf("ProveTree(%d,%d) over a reader that hands out its own memory (call %d) gives a proof that does not verify (err=%v)", n, m+1, rep+1, err), caseT{Kind: "aliasing", N: n, M: m + 1, Text: "ProveTree"})
				}
				intact("ProveTree", n, m+1)
			}
		}
		if n < int64(N) {
			hs, err := tlog.StoredHashes(n, lg.Records[n], sub)
			if err != nil || len(hs) == 0 || hs[0] != lg.Store[cnt] {
				r.Violation(fmt.Sprintf("aliasing:storedhashes:%d", n), fmt.Sprintf("StoredHashes(%d) over a reader that hands out its own memory: err=%v", n, err), caseT{Kind: "aliasing", N: n, Text: "StoredHashes"})
			}
			for i := range hs {
				if hs[i] != lg.Store[int(cnt)+i] {
					r.Violation(fmt.Sprintf("aliasing:storedhashes:%d", n), fmt.Sprintf("StoredHashes(%d) hash %d differs from the one computed with a copying reader", n, i), caseT{Kind: "aliasing", N: n, Text: "StoredHashes"})
				}
			}
			intact("StoredHashes", n, 0)
		}
		l.Nontrivial++
	}
}

func history(r *fw.Run, pat, N, nSmall int) {
	l := fw.NewLocal()
	defer r.Merge(l)
	lg := &tlogx.Log{}
	recs := tlogx.Pattern(pat, N)
	seen := map[[2]int64]int64{}
	for n := 0; n < N; n++ {
		before := len(lg.Store)
		if int64(before) != tlog.StoredHashCount(int64(n)) {
			r.Violation(fmt.Sprintf("count:%d", n), fmt.Sprintf("store has %d hashes after %d records, StoredHashCount says %d", before, n, tlog.StoredHashCount(int64(n))), caseT{Kind: "layout", Pattern: pat, N: int64(n)})
		}
		if got := tlog.StoredHashIndex(0, int64(n)); got != int64(before) {
			r.Violation(fmt.Sprintf("leafindex:%d", n), fmt.Sprintf("StoredHashIndex(0,%d)=%d but the record's hashes are stored from %d", n, got, before), caseT{Kind: "layout", Pattern: pat, N: int64(n)})
		}
		if err := lg.Append(recs[n]); err != nil {
			r.Violation(fmt.Sprintf("append:%d", n), "StoredHashes failed: "+err.Error(), caseT{Kind: "layout", Pattern: pat, N: int64(n)})
			return
		}
		l.States++
		l.Transitions++
		l.Execs++
		if added := len(lg.Store) - before; added != 1+bits.TrailingZeros64(^uint64(n)) {
			r.Violation(fmt.Sprintf("added:%d", n), fmt.Sprintf("record %d added %d hashes, want 1+trailing ones = %d", n, added, 1+bits.TrailingZeros64(^uint64(n))), caseT{Kind: "layout", Pattern: pat, N: int64(n)})
		}
		// new positions: coordinates, subtree hash
		for p := int64(before); p < int64(len(lg.Store)); p++ {
			l.Execs++
			lev, off := tlog.SplitStoredHashIndex(p)
			if back := tlog.StoredHashIndex(lev, off); back != p {
				r.Violation(fmt.Sprintf("bij:%d", p), fmt.Sprintf("SplitStoredHashIndex(%d)=(%d,%d) but StoredHashIndex gives %d", p, lev, off, back), caseT{Kind: "layout", Pattern: pat, N: int64(n), M: p})
			}
			if prev, dup := seen[[2]int64{int64(lev), off}]; dup {
				r.Violation(fmt.Sprintf("dup:%d", p), fmt.Sprintf("positions %d and %d both map to (%d,%d)", prev, p, lev, off), caseT{Kind: "layout", Pattern: pat, N: int64(n), M: p})
			}
			seen[[2]int64{int64(lev), off}] = p
			lo, hi := off<<uint(lev), (off+1)<<uint(lev)
			if hi != int64(n)+1 {
				r.Violation(fmt.Sprintf("complete:%d", p), fmt.Sprintf("position %d = (%d,%d) covers [%d,%d) but was written with record %d", p, lev, off, lo, hi, n), caseT{Kind: "layout", Pattern: pat, N: int64(n), M: p})
				continue
			}
			if want := tlog.Hash(lg.Ref.MTH(int(lo), int(hi))); lg.Store[p] != want {
				r.Violation(fmt.Sprintf("subtree:%d", p), fmt.Sprintf("stored hash %d = (%d,%d) is not the RFC 6962 hash of records [%d,%d)", p, lev, off, lo, hi), caseT{Kind: "layout", Pattern: pat, N: int64(n), M: p})
			}
			l.Nontrivial++
		}
		// tree hash for all m <= n+1 while the log is small, else for n+1 only
		from := n + 1
		if n < nSmall {
			from = 0
		}
		for m := from; m <= n+1; m++ {
			l.Execs++
			l.Transitions++
			th, err := tlog.TreeHash(int64(m), prefixReader{lg, tlog.StoredHashCount(int64(n + 1))})
			if err != nil || th != lg.Root(m) {
				r.Violation(fmt.Sprintf("treehash:%d:%d", n+1, m), fmt.Sprintf("TreeHash(%d) with %d records stored = %v, %v; RFC 6962 MTH = %v", m, n+1, th, err, lg.Root(m)), caseT{Kind: "treehash", Pattern: pat, N: int64(n + 1), M: int64(m)})
			}
		}
	}
	// final: all m, and converse bijection: every complete subtree has a position below the count
	total := tlog.StoredHashCount(int64(N))
	if total != int64(len(lg.Store)) {
		r.Violation("count:final", fmt.Sprintf("StoredHashCount(%d)=%d, store has %d", N, total, len(lg.Store)), caseT{Kind: "layout", Pattern: pat, N: int64(N)})
	}
	for m := 0; m <= N; m++ {
		l.Execs++
		th, err := tlog.TreeHash(int64(m), lg)
		if err != nil || th != lg.Root(m) {
			r.Violation(fmt.Sprintf("treehash:%d:%d", N, m), fmt.Sprintf("TreeHash(%d) = %v, %v; RFC 6962 MTH = %v", m, th, err, lg.Root(m)), caseT{Kind: "treehash", Pattern: pat, N: int64(N), M: int64(m)})
		}
	}
	cnt := 0
	for lev := 0; (1 << uint(lev)) <= N; lev++ {
		for off := int64(0); (off+1)<<uint(lev) <= int64(N); off++ {
			cnt++
			l.Execs++
			p := tlog.StoredHashIndex(lev, off)
			if p < 0 || p >= total {
				r.Violation(fmt.Sprintf("range:%d:%d", lev, off), fmt.Sprintf("complete subtree (%d,%d) of a %d-record log has index %d outside [0,%d)", lev, off, N, p, total), caseT{Kind: "layout", Pattern: pat, N: int64(N), Level: lev, M: off})
			} else if q, ok := seen[[2]int64{int64(lev), off}]; !ok || q != p {
				r.Violation(fmt.Sprintf("conv:%d:%d", lev, off), fmt.Sprintf("complete subtree (%d,%d) index %d was never written", lev, off, p), caseT{Kind: "layout", Pattern: pat, N: int64(N), Level: lev, M: off})
			}
		}
	}
	if int64(cnt) != total {
		r.Violation("surj", fmt.Sprintf("%d complete subtrees but %d stored hashes", cnt, total), caseT{Kind: "layout", Pattern: pat, N: int64(N)})
	}
	l.Outcomes[fmt.Sprintf("pattern%d:history-complete", pat)]++
}

func coordCase(lev int, off int64) string {
	p := tlog.StoredHashIndex(lev, off)
	l2, o2 := tlog.SplitStoredHashIndex(p)
	if l2 != lev || o2 != off {
		return fmt.Sprintf("StoredHashIndex(%d,%d)=%d but SplitStoredHashIndex gives (%d,%d)", lev, off, p, l2, o2)
	}
	// closed form: the hash (lev,off) is written with record (off+1)*2^lev-1, lev slots after its leaf hash
	last := (off+1)<<uint(lev) - 1
	if want := tlog.StoredHashIndex(0, last) + int64(lev); p != want {
		return fmt.Sprintf("StoredHashIndex(%d,%d)=%d, want leaf index of record %d plus level = %d", lev, off, p, last, want)
	}
	// leaf index closed form: n + (n - popcount(n)) = 2n - popcount(n)
	if lev == 0 {
		if want := 2*off - int64(bits.OnesCount64(uint64(off))); p != want {
			return fmt.Sprintf("StoredHashIndex(0,%d)=%d, closed form 2n-popcount(n) = %d", off, p, want)
		}
	}
	return ""
}

func validText(t []byte) bool { // from the FormatRecord documentation
	if !utf8.Valid(t) || len(t) == 0 || t[len(t)-1] != '\n' {
		return false
	}
	for _, c := range t {
		if c < 0x20 && c != '\n' {
			return false
		}
	}
	return !bytes.Contains(t, []byte("\n\n")) && t[0] != '\n'
}

func recordCase(id int64, text, tail []byte) (msg string, accepted bool) {
	// the text is a window of a longer array (records kept back to back): what lies behind it is the caller's
	textW, intact := enum.Spare(text, byte(0x5e), 3)
	m, err := tlog.FormatRecord(id, textW)
	if !intact() || !bytes.Equal(textW, text) {
		return fmt.Sprintf("FormatRecord(%d,%q) wrote into the caller's array (the text or the bytes behind it)", id, text), false
	}
	if err != nil {
		if validText(text) {
			return fmt.Sprintf("FormatRecord(%d,%q) refused valid record text: %v", id, text, err), false
		}
		return "", false
	}
	want := append([]byte(strconv.FormatInt(id, 10)+"\n"), text...)
	want = append(want, '\n')
	if !bytes.Equal(m, want) {
		return fmt.Sprintf("FormatRecord(%d,%q)=%q, documented encoding %q", id, text, m, want), true
	}
	// the result belongs to the caller: overwriting it must not change the next answer
	for i := range m {
		m[i] = 'X'
	}
	if m2, err := tlog.FormatRecord(id, text); err != nil || !bytes.Equal(m2, want) {
		return fmt.Sprintf("FormatRecord(%d,%q) gives %q, %v after the caller overwrote the previous result", id, text, m2, err), true
	}
	m = append([]byte(nil), want...)
	full, intact2 := enum.Spare(append(append([]byte{}, m...), tail...), byte(0x5e), 3)
	keep := string(full)
	gid, gtext, rest, err := tlog.ParseRecord(full)
	if !intact2() || string(full) != keep {
		return fmt.Sprintf("ParseRecord(%q) wrote into the caller's array", keep), true
	}
	if err != nil || gid != id || !bytes.Equal(gtext, text) || !bytes.Equal(rest, tail) {
		return fmt.Sprintf("ParseRecord(FormatRecord(%d,%q)+%q) = %d,%q,%q,%v", id, text, tail, gid, gtext, rest, err), true
	}
	return "", true
}

func treeCase(n int64, h tlog.Hash, extra string) string {
	b := tlog.FormatTree(tlog.Tree{N: n, Hash: h})
	want := fmt.Sprintf("go.sum database tree\n%d\n%s\n", n, h.String())
	if string(b) != want {
		return fmt.Sprintf("FormatTree = %q want %q", b, want)
	}
	// what is returned belongs to the caller: overwriting it must not change the next answer
	for i := range b {
		b[i] = 'X'
	}
	if b2 := tlog.FormatTree(tlog.Tree{N: n, Hash: h}); string(b2) != want {
		return fmt.Sprintf("FormatTree gives %q after the caller overwrote the previous result (first answer %q)", b2, want)
	}
	b = tlog.FormatTree(tlog.Tree{N: n, Hash: h})
	tr, err := tlog.ParseTree(append(b, extra...))
	if err != nil || tr.N != n || tr.Hash != h {
		return fmt.Sprintf("ParseTree(FormatTree({%d,%v})+%q) = %v, %v", n, h, extra, tr, err)
	}
	// Hash text / JSON round trips
	h2, err := tlog.ParseHash(h.String())
	if err != nil || h2 != h {
		return fmt.Sprintf("ParseHash(String(%v)) = %v, %v", h, h2, err)
	}
	js, err := json.Marshal(h)
	var h3 tlog.Hash
	if err == nil {
		err = json.Unmarshal(js, &h3)
	}
	if err != nil || h3 != h {
		return fmt.Sprintf("JSON round trip of %v gives %v, %v", h, h3, err)
	}
	return ""
}

var textAlpha = []string{"a", " ", "\n", "é", "\x01", "\xff", "\ufffd"}

// FirstCalls is the menu of the fresh-process call-order check.
func FirstCalls() []fw.Call {
	var out []fw.Call
	lgOf := func(n int) *tlogx.Log { lg, _ := tlogx.Build(tlogx.Pattern(0, n)); return lg }
	for _, n := range []int{1, 7, 13} {
		n := n
		out = append(out, fw.Call{Name: fmt.Sprintf("build+TreeHash(%d)", n), F: func() string {
			lg := lgOf(n)
			h, err := tlog.TreeHash(int64(n), lg)
			return fmt.Sprint(h, err, h == lg.Root(n))
		}})
		out = append(out, fw.Call{Name: fmt.Sprintf("proofs(%d)", n), F: func() string {
			lg := lgOf(n)
			p, e1 := tlog.ProveRecord(int64(n), int64(n/2), lg)
			t, e2 := tlog.ProveTree(int64(n), int64(n/2+1), lg)
			return fmt.Sprint(p, e1, t, e2, tlog.CheckRecord(p, int64(n), lg.Root(n), int64(n/2), tlog.Hash(lg.Ref.Leaves[n/2])), tlog.CheckTree(t, int64(n), lg.Root(n), int64(n/2+1), lg.Root(n/2+1)))
		}})
	}
	out = append(out, fw.Call{Name: "failing reader", F: func() string {
		_, e1 := tlog.ProveTree(13, 5, tlog.HashReaderFunc(func([]int64) ([]tlog.Hash, error) { return nil, fmt.Errorf("injected") }))
		_, e2 := tlog.TreeHash(11, tlog.HashReaderFunc(func(ix []int64) ([]tlog.Hash, error) { return make([]tlog.Hash, len(ix)+1), nil }))
		return fmt.Sprint(e1, e2)
	}})
	out = append(out, fw.Call{Name: "records+trees", F: func() string {
		m, e1 := tlog.FormatRecord(10, []byte("a b\nc\n"))
		id, text, rest, e2 := tlog.ParseRecord(append(m, []byte("tail")...))
		t, e3 := tlog.ParseTree(tlog.FormatTree(tlog.Tree{N: 5, Hash: tlog.RecordHash([]byte("x"))}))
		return fmt.Sprint(string(m), e1, id, string(text), string(rest), e2, t, e3, tlog.StoredHashIndex(3, 5), tlog.StoredHashCount(13))
	}})
	return out
}

// HashJSON: the JSON form of a hash. Every hash of a pool survives MarshalJSON / UnmarshalJSON (directly and
// through encoding/json, alone and inside a struct); every single-position mutation of the text (each byte of
// a menu in place of each byte, a deletion, an insertion, every truncation) is decoded into a destination
// that already holds another hash: it is either refused with the destination untouched, or accepted with
// exactly the hash that standard base64 gives for the text.
func HashJSON(r *fw.Run) {
	l := fw.NewLocal()
	defer r.Merge(l)
	var pool []tlog.Hash
	pool = append(pool, tlog.Hash{}, tlog.RecordHash(nil), tlog.RecordHash([]byte("x")))
	var ff, mix tlog.Hash
	for i := range ff {
		ff[i] = 0xff
		mix[i] = byte(i*37 + 11)
	}
	pool = append(pool, ff, mix)
	menu := []byte{'A', 'z', '0', '+', '/', '-', '_', '=', '"', ' ', '\\', '\n', 0, 0x80, 0xff, '!'}
	r.Bounds["hash_json"] = fmt.Sprintf("%d hashes x (round trips + every single-position mutation of the 46-byte text over a menu of %d bytes, deletions, insertions, truncations), each decoded over a held hash", len(pool), len(menu))
	held := tlog.RecordHash([]byte("held"))
	decode := func(text []byte, via string) (tlog.Hash, error) {
		dst := held
		var err error
		switch via {
		case "direct":
			err = dst.UnmarshalJSON(append([]byte(nil), text...))
		case "json":
			err = json.Unmarshal(text, &dst)
		default:
			w := struct {
				A int
				H tlog.Hash
				B string
			}{H: held}
			err = json.Unmarshal([]byte(`{"A":1,"H":`+string(text)+`,"B":"b"}`), &w)
			dst = w.H
		}
		return dst, err
	}
	check := func(text []byte, what string) {
		// reference for the value of an accepted text: standard base64 of the 44 characters between the quotes
		// (which texts besides the marshalled ones are accepted is not the property's business)
		var want tlog.Hash
		ok := false
		if len(text) == 46 && text[0] == '"' && text[45] == '"' {
			if b, err := base64.StdEncoding.DecodeString(string(text[1:45])); err == nil && len(b) == 32 {
				copy(want[:], b)
				ok = true
			}
		}
		canonical := strings.HasSuffix(what, "as marshalled")
		for _, via := range []string{"direct", "json", "struct"} {
			l.States++
			l.Execs++
			l.Transitions++
			got, err := decode(text, via)
			switch {
			case err != nil && got != held:
				r.Violation("hash-json:damaged:"+what+":"+via, fmt.Sprintf("decoding the JSON text %q (%s, %s) failed with %v and left the destination changed: it held %v, now %v", text, what, via, err, held, got), caseT{Kind: "hash-json", Text: what})
			case err == nil && ok && got != want:
				r.Violation("hash-json:value:"+what+":"+via, fmt.Sprintf("decoding %q (%s, %s) gave %v, base64 says %v", text, what, via, got, want), caseT{Kind: "hash-json", Text: what})
			case err != nil && canonical:
				r.Violation("hash-json:refused:"+what+":"+via, fmt.Sprintf("decoding %q (%s, %s) failed: %v", text, what, via, err), caseT{Kind: "hash-json", Text: what})
			case err == nil:
				l.Nontrivial++
			}
		}
	}
	for hi, h := range pool {
		text, err := h.MarshalJSON()
		if err != nil || string(text) != `"`+base64.StdEncoding.EncodeToString(h[:])+`"` {
			r.Violation(fmt.Sprintf("hash-json:marshal:%d", hi), fmt.Sprintf("MarshalJSON(%v) = %q, %v", h, text, err), caseT{Kind: "hash-json", Text: "marshal"})
			continue
		}
		if via, _ := json.Marshal(h); string(via) != string(text) {
			r.Violation(fmt.Sprintf("hash-json:marshal-via:%d", hi), fmt.Sprintf("json.Marshal(%v) = %q, MarshalJSON gives %q", h, via, text), caseT{Kind: "hash-json", Text: "marshal"})
		}
		check(text, fmt.Sprintf("hash %d as marshalled", hi))
		for pos := 0; pos <= len(text); pos++ {
			check(text[:pos], fmt.Sprintf("hash %d cut after %d bytes", hi, pos))
			if pos < len(text) {
				check(append(append([]byte(nil), text[:pos]...), text[pos+1:]...), fmt.Sprintf("hash %d without byte %d", hi, pos))
			}
			for _, b := range menu {
				if pos < len(text) {
					m := append([]byte(nil), text...)
					m[pos] = b
					check(m, fmt.Sprintf("hash %d with byte %d set to %#x", hi, pos, b))
				}
				ins := append(append(append([]byte(nil), text[:pos]...), b), text[pos:]...)
				check(ins, fmt.Sprintf("hash %d with %#x inserted at %d", hi, b, pos))
			}
		}
	}
}

func Run(r *fw.Run) {
	defer fw.FirstCallOrders(r, r.ID, FirstCalls(), nil)
	N := r.Pick(1500, 8000)
	nSmall := r.Pick(160, 320)
	Lt := r.Pick(6, 7)
	r.Bounds["records"] = N
	r.Bounds["all_prefix_tree_hashes_up_to"] = nSmall
	r.Bounds["coord_levels"] = 20
	r.Bounds["coord_offsets"] = 4096
	r.Bounds["record_text_alphabet"] = []string{"a", "space", "\\n", "é", "0x01", "0xFF", "U+FFFD (validly encoded)"}
	r.Bounds["record_text_max_len"] = Lt
	r.Rule = "histories: append records one at a time (3 content patterns), state = log after n appends, every stored position / prefix tree hash compared with the RFC 6962 reference on the record list; coordinates: all (level<=20, offset<=4096) and boundary offsets up to index 2^60; encodings: all record texts over a 6-symbol alphabet x ids x tails, tree heads over sizes x hash patterns. non-trivial = stored position verified / accepted record text"
	r.Assume = []string{"SHA-256 as implemented by the Go standard library", "reference MTH (internal/ref/rfc6962)"}
	fw.Parallel(3, func(pat int) { history(r, pat, N, nSmall) })
	r.Sample(map[string]any{"kind": "layout", "position": 10, "coordinates": fmt.Sprint(tlog.SplitStoredHashIndex(10)), "count_for_7_records": tlog.StoredHashCount(7)})

	// readers that hand out their own memory: a zero-copy store (consecutive positions come back as a
	// sub-slice of the store) and a memoising reader (the same slice again for the same request). Reading
	// must not write: after every TreeHash / ProveRecord / ProveTree / StoredHashes call the store is
	// unchanged, and the same call repeated gives the same (correct) result.
	aliasing(r)

	// append histories with failing readers: two logs are grown in turn; before every append the same call
	// is first made with a reader that fails (an error, or one hash too few), then another log is appended
	// to, then the call is repeated with a good reader. Every successful call must return exactly the
	// hashes a clean build of that log has at those positions.
	FailingAppends(r)

	Overlap(r)
	HashJSON(r)

	// virtual huge logs: a log whose records are all identical has one hash per level, so a HashReader for
	// a log of up to 2^62 records and the RFC 6962 tree hash of any size can be computed without storing it
	HugeLogs(r)

	// record lengths: the leaf hash is SHA-256(0x00 || data) for every length (block boundaries, buffers)
	{
		l := fw.NewLocal()
		var lens []int
		for n := 0; n <= enum.DenseMax; n++ {
			lens = append(lens, n)
		}
		for _, p := range []int{1 << 11, 1 << 12, 1 << 13, 1 << 15, 1 << 16, 1 << 20} {
			lens = append(lens, p-1, p, p+1)
		}
		r.Bounds["record_lengths"] = fmt.Sprintf("0..%d and 2^k-1, 2^k, 2^k+1 for k in {15,16,20}", enum.DenseMax)
		buf := make([]byte, 1<<20+2)
		for i := range buf {
			buf[i] = byte(i*131 + i>>8)
		}
		for _, n := range lens {
			l.States++
			l.Execs++
			got := tlog.RecordHash(buf[:n])
			if want := tlog.Hash(rfc6962.Leaf(buf[:n])); got != want {
				r.Violation(fmt.Sprintf("recordhash:%d", n), fmt.Sprintf("RecordHash of a %d-byte record is not SHA-256(0x00 || data)", n), caseT{Kind: "recordhash", N: int64(n)})
			}
			// two records differing only in the last byte must not collide
			if n > 0 {
				alt := append([]byte(nil), buf[:n]...)
				alt[n-1] ^= 1
				if tlog.RecordHash(alt) == got {
					r.Violation(fmt.Sprintf("recordhash-collide:%d", n), fmt.Sprintf("two %d-byte records differing in the last byte have the same RecordHash", n), caseT{Kind: "recordhash", N: int64(n)})
				}
			}
			l.Nontrivial++
		}
		var a, b tlog.Hash
		for i := range a {
			a[i], b[i] = byte(i), byte(255-i)
		}
		if tlog.NodeHash(a, b) != tlog.Hash(rfc6962.Node(a, b)) || tlog.NodeHash(a, b) == tlog.NodeHash(b, a) {
			r.Violation("nodehash", "NodeHash is not SHA-256(0x01 || left || right)", caseT{Kind: "recordhash"})
		}
		r.Merge(l)
	}

	// coordinates beyond stored logs
	fw.Parallel(21, func(lev int) {
		l := fw.NewLocal()
		for off := int64(0); off <= 4096; off++ {
			l.States++
			l.Execs++
			if msg := coordCase(lev, off); msg != "" {
				r.Violation(fmt.Sprintf("coord:%d:%d", lev, off), msg, caseT{Kind: "coord", Level: lev, M: off})
			}
		}
		r.Merge(l)
	})
	l := fw.NewLocal()
	for lev := 0; lev <= 58; lev++ {
		for k := uint(0); k+uint(lev) <= 59; k++ {
			for _, off := range []int64{1<<k - 1, 1 << k, 1<<k + 1} {
				if off < 0 {
					continue
				}
				l.States++
				l.Execs++
				if msg := coordCase(lev, off); msg != "" {
					r.Violation(fmt.Sprintf("coord:%d:%d", lev, off), msg, caseT{Kind: "coord", Level: lev, M: off})
				}
			}
		}
	}
	r.Merge(l)

	// record encodings
	ids := []int64{0, 1, 9, 10, 1<<63 - 1, -1, -(1 << 62)}
	tails := [][]byte{nil, []byte("x"), []byte("\n"), []byte("5\nz\n\n")}
	enum.Strings(textAlpha, Lt, fw.Workers(), func(w int) (func([]byte, int), func()) {
		l := fw.NewLocal()
		return func(b []byte, d int) {
			l.States++
			text := append([]byte(nil), b...)
			acc := false
			for _, id := range ids {
				for _, tail := range tails {
					l.Execs++
					l.Transitions++
					msg, ok := recordCase(id, text, tail)
					acc = ok
					if msg != "" {
						r.Violation("record:"+strconv.QuoteToASCII(string(text)), msg, caseT{Kind: "record", N: id, Text: strconv.QuoteToASCII(string(text)), Tail: strconv.QuoteToASCII(string(tail))})
					}
				}
			}
			switch {
			case acc && validText(text):
				l.Nontrivial++
				l.Outcomes["record:valid-roundtrip"]++
			case acc:
				l.Outcomes["record:accepted-with-leading-blank-line"]++
			default:
				l.Outcomes["record:refused"]++
			}
		}, func() { r.Merge(l) }
	})
	r.Sample(map[string]any{"kind": "record", "id": 10, "text": "a é\na\n", "tail": "5\nz\n\n"})
	// byte sweep over record texts: every byte value and a few other fills at the start, in the middle
	// and at the end of a line, in one-line and two-line texts
	{
		l := fw.NewLocal()
		var fills []string
		for b := 0; b < 256; b++ {
			fills = append(fills, string([]byte{byte(b)}))
		}
		fills = append(fills, "%s", "%d", "é", "\u212a", "\ufffd", "\u2028", "\u0085", "\xe2\x82", "\r\n", "\n\n")
		fills = append(fills, enum.LongFills('r')...)
		fills = append(fills, enum.BoundaryRunes()...)
		r.Bounds["record_text_byte_sweep"] = fmt.Sprintf("6 slots x (256 byte values + %d other fills) x %d ids x %d tails", len(fills)-256, len(ids), len(tails))
		for _, sl := range [][2]string{{"", "a\n"}, {"a", "b\n"}, {"a", "\n"}, {"a\n", "b\n"}, {"a\nb", "\n"}, {"", ""}} {
			for _, f := range fills {
				text := []byte(sl[0] + f + sl[1])
				l.States++
				for _, id := range ids {
					for _, tail := range tails {
						l.Execs++
						l.Transitions++
						if msg, _ := recordCase(id, text, tail); msg != "" {
							r.Violation("record:"+strconv.QuoteToASCII(string(text)), msg, caseT{Kind: "record", N: id, Text: strconv.QuoteToASCII(string(text)), Tail: strconv.QuoteToASCII(string(tail))})
						}
					}
				}
			}
		}
		r.Merge(l)
	}

	// dense length sweep: a record line, and a tree-head extension line, of every length 0..enum.DenseMax
	{
		var mu sync.Mutex
		r.Bounds["dense_length_sweep"] = fmt.Sprintf("record line and tree-head extension line of every length 0..%d", enum.DenseMax)
		fw.Parallel(16, func(sh int) {
			l := fw.NewLocal()
			defer r.Merge(l)
			var h tlog.Hash
			h[3] = 7
			enum.EachLength('r', enum.DenseMax, func(f string) {
				if len(f)%16 != sh {
					return
				}
				l.States++
				for _, text := range []string{f + "\n", "a\n" + f + "\nb\n"} {
					l.Execs++
					l.Transitions++
					if msg, _ := recordCase(10, []byte(text), []byte("5\nz\n\n")); msg != "" {
						mu.Lock()
						r.Violation(fmt.Sprintf("record:dense:%d", len(f)), msg, caseT{Kind: "record", N: 10, Text: strconv.QuoteToASCII(text), Tail: strconv.QuoteToASCII("5\nz\n\n")})
						mu.Unlock()
					}
				}
				l.Execs++
				if msg := treeCase(99, h, f+"\n"); msg != "" {
					mu.Lock()
					r.Violation(fmt.Sprintf("tree:dense:%d", len(f)), msg, caseT{Kind: "tree", N: 99, Text: strconv.QuoteToASCII(h.String()), Tail: strconv.QuoteToASCII(f + "\n")})
					mu.Unlock()
				}
			})
		})
	}

	// tree heads
	var hs []tlog.Hash
	hs = append(hs, tlog.Hash{}, tlog.RecordHash(nil), tlog.RecordHash([]byte("x")))
	var ff, alt tlog.Hash
	for i := range ff {
		ff[i] = 0xff
		alt[i] = byte(i * 37)
	}
	hs = append(hs, ff, alt)
	for _, n := range []int64{0, 1, 9, 10, 99, 1 << 31, 1<<63 - 1} {
		for _, h := range hs {
			for _, extra := range []string{"", "extra line\n", "\n", "a\nb\n"} {
				r.States.Add(1)
				r.Execs.Add(1)
				r.Nontrivial.Add(1)
				if msg := treeCase(n, h, extra); msg != "" {
					r.Violation(fmt.Sprintf("tree:%d:%s:%q", n, h, extra), msg, caseT{Kind: "tree", N: n, Text: strconv.QuoteToASCII(h.String()), Tail: strconv.QuoteToASCII(extra)})
				}
			}
		}
	}
	// malformed tree heads must be refused
	good := string(tlog.FormatTree(tlog.Tree{N: 5, Hash: alt}))
	for _, bad := range []string{"", "go.sum database tree\n", "go.sum database tree\n5\n", "go.sum database tree v2\n5\n" + alt.String() + "\n", "go.sum database tree\n-1\n" + alt.String() + "\n", "go.sum database tree\n5\n" + alt.String()[:43] + "\n", "go.sum database tree\n5\n" + alt.String(), good[1:], "go.sum database tree\n9223372036854775808\n" + alt.String() + "\n"} {
		r.States.Add(1)
		r.Execs.Add(1)
		if tr, err := tlog.ParseTree([]byte(bad)); err == nil {
			r.Violation("badtree:"+strconv.Quote(bad), fmt.Sprintf("ParseTree(%q) accepted as %v", bad, tr), caseT{Kind: "tree", Text: strconv.QuoteToASCII(bad)})
		}
	}
}

func Replay(r *fw.Run, raw json.RawMessage) {
	var c caseT
	json.Unmarshal(raw, &c)
	r.States.Add(1)
	r.Transitions.Add(1)
	r.Sample(c)
	switch c.Kind {
	case "layout", "treehash":
		n := int(c.N)
		if n < 1 {
			n = 1
		}
		history(r, c.Pattern, n+1, n+1)
	case "aliasing":
		aliasing(r)
	case "overlap":
		Overlap(r)
	case "hash-json":
		HashJSON(r)
	case "huge":
		HugeLogs(r)
	case "failing":
		FailingAppends(r)
	case "recordhash":
		r.Note("record-hash cases are re-run by the full check")
	case "coord":
		r.Execs.Add(1)
		if msg := coordCase(c.Level, c.M); msg != "" {
			r.Violation("coord", msg, c)
		}
	case "record":
		text, _ := strconv.Unquote(c.Text)
		tail, _ := strconv.Unquote(c.Tail)
		r.Execs.Add(1)
		if msg, _ := recordCase(c.N, []byte(text), []byte(tail)); msg != "" {
			r.Violation("record", msg, c)
		}
	case "tree":
		r.Execs.Add(1)
		hs, _ := strconv.Unquote(c.Text)
		tail, _ := strconv.Unquote(c.Tail)
		h, err := tlog.ParseHash(hs)
		if err == nil {
			if msg := treeCase(c.N, h, tail); msg != "" {
				r.Violation("tree", msg, c)
			}
		} else if tr, err := tlog.ParseTree([]byte(hs)); err == nil {
			r.Violation("badtree", fmt.Sprintf("accepted %v", tr), c)
		}
	}
}
