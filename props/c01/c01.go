// Package c01: the checksum-database client never returns or caches unauthenticated data.
package c01

import (
	"bytes"
	"encoding/base64"
	"encoding/json"
	"errors"
	"fmt"
	"os"
	"sort"
	"strings"
	"time"

	"golang.org/x/mod/module"
	"golang.org/x/mod/sumdb/tlog"

	"verif/internal/clientx"
	"verif/internal/fw"
	"verif/internal/opsenv"
	"verif/internal/world"
	"verif/props/c14"
)

type lookupT struct {
	Rec     int  `json:"record"`
	GoMod   bool `json:"go_mod_lines"`
	Restart bool `json:"restart_before"`
}

type planEntry struct {
	Res   string       `json:"resource"`
	Fault opsenv.Fault `json:"fault"`
}

type caseT struct {
	N       int         `json:"log_size"`
	H       int         `json:"tile_height"`
	S0      int         `json:"stored_latest_size"` // -1: empty
	Cache   string      `json:"cache"`              // cold | warm-half | warm-full | lookups-half (lookup files only)
	Server  string      `json:"server,omitempty"`   // "" = serves every tile of its tree; "compacting" = partial tiles vanish once the full tile exists
	Lookups []lookupT   `json:"lookups"`
	Plan    []planEntry `json:"plan"`
	Macro   string      `json:"macro,omitempty"` // forged-world macro-deviation: "fw:<record>:<levels>:<head>"
}

func (c caseT) key() string {
	b, _ := json.Marshal(c)
	return string(b)
}

type ctx struct {
	A      *world.SignedLog
	forged map[int]*world.SignedLog
	warm   map[string]map[string][]byte
}

func newCtx(n int) *ctx {
	x := &ctx{A: world.Honest(n), forged: map[int]*world.SignedLog{}, warm: map[string]map[string][]byte{}}
	// some of the large honest logs (sizes used only there) have unusual but legitimate content
	if n == 64 || n == 257 {
		// records with very long lines (other modules' lines before, between and after the ones looked
		// up): the record text has no length limit
		mods := append([]world.Mod(nil), x.A.Mods...)
		long := "long.example/l v1.0.0 h1:" + strings.Repeat("A", 70000) + "\n"
		for i := range mods {
			lines := strings.SplitAfter(string(mods[i].Text), "\n")
			switch i % 4 {
			case 0:
				mods[i].Text = []byte(long + string(mods[i].Text))
			case 1:
				mods[i].Text = []byte(lines[0] + long + strings.Join(lines[1:], ""))
			case 2:
				mods[i].Text = []byte(string(mods[i].Text) + long)
			}
		}
		x.A = world.NewSignedLog(mods)
	}
	if n == 33 || n == 300 {
		// signed heads with extension lines: format characters, and a line longer than 64 KiB
		x.A.DefaultExtra = "operator note: 100% %s %d {} \\ \u00e9\n" + strings.Repeat("L", 70000) + "\n"
	}
	return x
}

func (x *ctx) forgedLog(id int) *world.SignedLog {
	if l, ok := x.forged[id]; ok {
		return l
	}
	mods := append([]world.Mod(nil), x.A.Mods...)
	mods[id] = world.MakeMod(id, "forged")
	l := world.NewSignedLog(mods)
	x.forged[id] = l
	return l
}

func (x *ctx) remote(size int) func(string) ([]byte, error) {
	return func(p string) ([]byte, error) { return x.A.Serve(p, size) }
}

func (x *ctx) remoteCompacting(size int) func(string) ([]byte, error) {
	return func(p string) ([]byte, error) { return x.A.ServeCompacting(p, size) }
}

func latestFile() string { return world.TheKeys().Name + "/latest" }

// warmCache returns the cache left behind by an honest client that looked up every record
// below size w against a server at size w.
func (x *ctx) warmCache(h, w int) map[string][]byte {
	k := fmt.Sprintf("%d/%d", h, w)
	if c, ok := x.warm[k]; ok {
		return c
	}
	env := opsenv.New(world.TheKeys().Verifier)
	env.Remote = x.remote(w)
	var steps []clientx.Step
	for i := 0; i < w; i++ {
		steps = append(steps, clientx.Step{Path: x.A.Mods[i].Path, Vers: x.A.Mods[i].Version})
	}
	for _, r := range clientx.Run(env, h, steps) {
		if r.Err != nil || r.Panic != "" {
			panic(fmt.Sprintf("warm-up lookup failed: %v %s", r.Err, r.Panic))
		}
	}
	x.warm[k] = env.Cache
	return env.Cache
}

// ---------------------------------------------------------------- fault application

var errInjected = errors.New("injected i/o error")

func resKind(res string) string {
	switch {
	case strings.Contains(res, "/tile/"):
		return "tile"
	case strings.Contains(res, "/lookup/"):
		return "lookup"
	case strings.HasPrefix(res, "config:"):
		return "config"
	}
	return "other"
}

func tileOf(res string) (tlog.Tile, bool) {
	i := strings.Index(res, "tile/")
	if i < 0 {
		return tlog.Tile{}, false
	}
	t, err := tlog.ParseTilePath(res[i:])
	return t, err == nil
}

// splitResponse cuts a lookup response into id line, record text and tree message.
func splitResponse(d []byte) (id int64, text, tree []byte, ok bool) {
	id, text, tree, err := tlog.ParseRecord(d)
	return id, text, tree, err == nil
}

func (x *ctx) apply(c caseT) opsenv.ApplyFunc {
	A := x.A
	return func(res string, f opsenv.Fault, d []byte, err error) ([]byte, error) {
		if err != nil {
			return d, err
		}
		hs := tlog.HashSize
		switch f.Kind {
		case "error":
			return nil, errInjected
		case "flip":
			if f.Arg < len(d) {
				d[f.Arg] ^= 1
			}
			return d, nil
		case "flip-high":
			if f.Arg < len(d) {
				d[f.Arg] ^= 0x80
			}
			return d, nil
		case "trunc-byte":
			if len(d) > 0 {
				d = d[:len(d)-1]
			}
			return d, nil
		case "trunc-half":
			return d[:len(d)/2], nil
		case "empty":
			return nil, nil
		case "garbage":
			return []byte("garbage\n"), nil
		case "zero":
			return make([]byte, len(d)), nil
		}
		switch resKind(res) {
		case "tile":
			slot := func(j int) []byte { return d[j*hs : (j+1)*hs] }
			w := len(d) / hs
			switch f.Kind {
			case "slot<-leaf0":
				copy(slot(f.Arg), A.Log.Ref.Leaves[0][:])
			case "slot<-root":
				h := A.Log.Root(c.N)
				copy(slot(f.Arg), h[:])
			case "swap":
				if f.Arg+1 < w {
					a := append([]byte(nil), slot(f.Arg)...)
					copy(slot(f.Arg), slot(f.Arg+1))
					copy(slot(f.Arg+1), a)
				}
			case "dup":
				if f.Arg+1 < w {
					copy(slot(f.Arg+1), slot(f.Arg))
				}
			case "trunc-hash":
				d = d[:len(d)-hs]
			case "extend-hash":
				d = append(d, d[:hs]...)
			case "other-tile":
				if t, ok := tileOf(res); ok {
					t.N += int64(f.Arg)
					if t.N >= 0 {
						if o, ok := world.TrueTile(A.Log, c.N, t); ok {
							d = o
						}
					}
				}
			case "fw-tile":
				if t, ok := tileOf(res); ok {
					if o, ok := world.TrueTile(x.forgedLog(f.Arg).Log, c.N, t); ok {
						d = o
					}
				}
			default:
				panic("unknown tile fault " + f.Kind)
			}
			return d, nil
		case "lookup":
			id, text, tree, ok := splitResponse(d)
			if !ok {
				return d, nil
			}
			rebuild := func(id int64, text, tree []byte) []byte {
				out := []byte(fmt.Sprintf("%d\n", id))
				out = append(out, text...)
				out = append(out, '\n')
				return append(out, tree...)
			}
			treeSize := func() int {
				t, err := clientx.OpenHead(tree)
				if err != nil {
					return c.N
				}
				return int(t.N)
			}
			other := int((id + 1)) % c.N
			switch f.Kind {
			case "id+1":
				return rebuild(id+1, text, tree), nil
			case "id-1":
				return rebuild(id-1, text, tree), nil
			case "swap-record":
				return rebuild(int64(other), A.Mods[other].Text, tree), nil
			case "swap-text":
				return rebuild(id, A.Mods[other].Text, tree), nil
			case "forged-text":
				return rebuild(id, x.forgedLog(int(id)).Mods[id].Text, tree), nil
			case "fw-lookup":
				return rebuild(id, x.forgedLog(int(id)).Mods[id].Text, tree), nil
			case "fw-lookup-attacker-head":
				fl := x.forgedLog(int(id))
				return rebuild(id, fl.Mods[id].Text, fl.Head(treeSize(), "attacker", "")), nil
			case "trunc-line":
				// keep the first Arg newlines
				n := 0
				for i, b := range d {
					if b == '\n' {
						n++
						if n == f.Arg {
							return d[:i+1], nil
						}
					}
				}
				return d, nil
			case "extra-record-line":
				m := A.Mods[id]
				return rebuild(id, append(append([]byte(nil), text...), []byte(m.Path+" "+m.Version+" h1:EVILEVILEVILEVILEVILEVILEVILEVILEVILEVILEVI=\n")...), tree), nil
			case "extra-trailing-line":
				m := A.Mods[id]
				return append(d, []byte(m.Path+" "+m.Version+" h1:EVILEVILEVILEVILEVILEVILEVILEVILEVILEVILEVI=\n")...), nil
			case "extra-unknown-sig":
				return append(d, []byte("— other.example/log AAAAAAECAwQFBgcICQ==\n")...), nil
			case "extra-long-unknown-sig":
				// a cosignature of another scheme: 4-byte key id + 256 signature bytes
				return append(d, []byte("— witness.example/rsa "+base64.StdEncoding.EncodeToString(append([]byte{1, 2, 3, 4}, bytes.Repeat([]byte{0x5a}, 256)...))+"\n")...), nil
			case "attacker-head":
				return rebuild(id, text, A.Head(treeSize(), "attacker", "")), nil
			case "attacker-head-twice":
				return rebuild(id, text, A.Head(treeSize(), "attacker-twice", "")), nil
			case "fw-lookup-attacker-head-twice":
				fl := x.forgedLog(int(id))
				return rebuild(id, fl.Mods[id].Text, fl.Head(treeSize(), "attacker-twice", "")), nil
			case "both-signed-head":
				return rebuild(id, text, A.Head(treeSize(), "both", "")), nil
			case "stale":
				// record with the honest head of an earlier size that still contains it
				s := int(id) + 1 + f.Arg
				if s > c.N {
					s = c.N
				}
				return rebuild(id, text, A.Head(s, "real", "")), nil
			case "realkey-extra-lines":
				m := A.Mods[id]
				extra := m.Path + " " + m.Version + " h1:EVILEVILEVILEVILEVILEVILEVILEVILEVILEVILEVI=\n" + m.Path + " " + m.Version + "/go.mod h1:EVILEVILEVILEVILEVILEVILEVILEVILEVILEVILEVI=\n"
				return rebuild(id, text, A.Head(treeSize(), "real", extra)), nil
			default:
				panic("unknown lookup fault " + f.Kind)
			}
		case "config":
			switch f.Kind {
			case "attacker-head":
				t, err := clientx.OpenHead(d)
				if err != nil {
					return d, nil
				}
				return A.Head(int(t.N), "attacker", ""), nil
			case "long-cosignature":
				if len(d) == 0 {
					return d, nil
				}
				return append(append([]byte(nil), d...), []byte("— witness.example/rsa "+base64.StdEncoding.EncodeToString(append([]byte{1, 2, 3, 4}, bytes.Repeat([]byte{0x5a}, 256)...))+"\n")...), nil
			case "forged-attacker-head":
				t, err := clientx.OpenHead(d)
				if err != nil || t.N == 0 {
					return d, nil
				}
				return x.forgedLog(0).Head(int(t.N), "attacker", ""), nil
			case "forged-attacker-head-twice":
				t, err := clientx.OpenHead(d)
				if err != nil || t.N == 0 {
					return d, nil
				}
				return x.forgedLog(0).Head(int(t.N), "attacker-twice", ""), nil
			default:
				panic("unknown config fault " + f.Kind)
			}
		}
		panic("fault on unknown resource " + res)
	}
}

// menu lists the single deviations for one touched resource.
func menu(t opsenv.Touch, reduced bool) []opsenv.Fault {
	return menuX(t, reduced, true)
}

func menuX(t opsenv.Touch, reduced, everyByte bool) []opsenv.Fault {
	var m []opsenv.Fault
	add := func(k string, a int) { m = append(m, opsenv.Fault{Kind: k, Arg: a}) }
	if t.HErr {
		return nil // honest answer was an error (e.g. 404): nothing to corrupt
	}
	d := t.Honest
	switch resKind(t.Res) {
	case "tile":
		w := len(d) / tlog.HashSize
		for j := 0; j < w; j++ {
			if reduced && j != 0 && j != w-1 {
				continue
			}
			add("flip", j*tlog.HashSize)
			if !reduced {
				add("flip-high", j*tlog.HashSize+tlog.HashSize-1)
				add("slot<-leaf0", j)
				add("slot<-root", j)
				if j+1 < w {
					add("swap", j)
					add("dup", j)
				}
			}
		}
		add("zero", 0)
		add("error", 0)
		add("trunc-hash", 0)
		if !reduced {
			add("trunc-byte", 0)
			add("extend-hash", 0)
			add("empty", 0)
			add("other-tile", 1)
			add("other-tile", -1)
		}
	case "lookup":
		if !reduced {
			if everyByte {
				for i := range d {
					add("flip", i)
				}
			} else {
				for i := 0; i < len(d); i += 7 {
					add("flip", i)
				}
			}
			nl := bytes.Count(d, []byte("\n"))
			for k := 1; k < nl; k++ {
				add("trunc-line", k)
			}
			add("stale", 1)
			add("both-signed-head", 0)
			add("extra-trailing-line", 0)
			add("id-1", 0)
		} else {
			// one flip per structural region: id, text, hash, tree size, tree hash, signature
			for _, frac := range []int{0, 10, 30, 50, 70, 85, 95, 99} {
				add("flip", len(d)*frac/100)
			}
		}
		for _, k := range []string{"id+1", "swap-record", "swap-text", "forged-text", "extra-record-line", "extra-unknown-sig", "extra-long-unknown-sig", "attacker-head", "attacker-head-twice", "fw-lookup-attacker-head-twice", "realkey-extra-lines", "error", "empty", "garbage", "trunc-half"} {
			add(k, 0)
		}
		add("stale", 0)
	case "config":
		if len(d) == 0 {
			add("garbage", 0)
			add("error", 0)
			return m
		}
		if !reduced && everyByte {
			for i := range d {
				add("flip", i)
			}
		} else if !reduced {
			for i := 0; i < len(d); i += 5 {
				add("flip", i)
			}
		} else {
			for _, frac := range []int{0, 30, 60, 90, 99} {
				add("flip", len(d)*frac/100)
			}
		}
		for _, k := range []string{"trunc-half", "garbage", "attacker-head", "forged-attacker-head", "forged-attacker-head-twice", "long-cosignature", "error", "trunc-byte"} {
			add(k, 0)
		}
	}
	return m
}

// ---------------------------------------------------------------- execution + oracle

type outcome struct {
	msg     string
	class   string
	env     *opsenv.Env
	results []clientx.Result
}

func (x *ctx) steps(c caseT) []clientx.Step {
	var st []clientx.Step
	for _, l := range c.Lookups {
		m := x.A.Mods[l.Rec]
		v := m.Version
		if l.GoMod {
			v += "/go.mod"
		}
		st = append(st, clientx.Step{Path: m.Path, Vers: v, Restart: l.Restart})
	}
	return st
}

func (x *ctx) newEnv(c caseT) *opsenv.Env {
	env := opsenv.New(world.TheKeys().Verifier)
	if c.S0 >= 0 {
		env.Config[latestFile()] = x.A.Head(c.S0, "real", "")
	}
	switch c.Cache {
	case "warm-half":
		for k, v := range x.warmCache(c.H, (c.N+1)/2) {
			env.Cache[k] = v
		}
	case "warm-full":
		for k, v := range x.warmCache(c.H, c.N) {
			env.Cache[k] = v
		}
	case "lookups-half":
		for k, v := range x.warmCache(c.H, (c.N+1)/2) {
			if strings.Contains(k, "/lookup/") {
				env.Cache[k] = v
			}
		}
	}
	env.Remote = x.remote(c.N)
	if c.Server == "compacting" {
		env.Remote = x.remoteCompacting(c.N)
	}
	env.Apply = x.apply(c)
	for _, p := range c.Plan {
		if strings.HasPrefix(p.Res, "config:") && p.Fault.Kind != "error" {
			// a corrupted configuration file is corrupted *state*: reads and the compare-and-swap
			// both see the same bytes (a read that persistently disagrees with the CAS is not a
			// behaviour any real ClientOps has and only livelocks the retry loop)
			file := strings.TrimPrefix(p.Res, "config:")
			d, _ := env.Apply(p.Res, p.Fault, append([]byte(nil), env.Config[file]...), nil)
			env.Config[file] = d
			env.Changed++
			continue
		}
		env.Plan[p.Res] = p.Fault
	}
	if c.Macro != "" {
		var rec, levels int
		var head string
		where := "remote:"
		if strings.HasPrefix(c.Macro, "fwc:") {
			// the forged world sits in the on-disk cache (tiles and the lookup file) instead of the network
			where = "cache:" + world.TheKeys().Name
			fmt.Sscanf(c.Macro, "fwc:%d:%d:%s", &rec, &levels, &head)
		} else {
			fmt.Sscanf(c.Macro, "fw:%d:%d:%s", &rec, &levels, &head)
		}
		for L := 0; L < levels; L++ {
			// every tile of that level that exists in the tree, full or partial, remote and cache
			for n := int64(0); ; n++ {
				if _, ok := world.TrueTile(x.A.Log, c.N, tlog.Tile{H: c.H, L: L, N: n, W: 1}); !ok {
					break
				}
				for w := 1; w <= 1<<uint(c.H); w++ {
					t := tlog.Tile{H: c.H, L: L, N: n, W: w}
					if _, ok := world.TrueTile(x.A.Log, c.N, t); !ok {
						continue
					}
					env.Plan[where+"/"+t.Path()] = opsenv.Fault{Kind: "fw-tile", Arg: rec}
				}
			}
		}
		m := x.A.Mods[rec]
		k := "fw-lookup"
		if head == "attacker" {
			k = "fw-lookup-attacker-head"
		}
		lp := "/lookup/" + escaped(m)
		env.Plan[where+lp] = opsenv.Fault{Kind: k}
		if where != "remote:" {
			env.Plan["remote:"+lp] = opsenv.Fault{Kind: k}
		}
	}
	return env
}

func escaped(m world.Mod) string {
	p, err := module.EscapePath(m.Path)
	if err != nil {
		panic(err)
	}
	return p + "@" + m.Version
}

func sameLines(a, b []string) bool {
	if len(a) != len(b) {
		return false
	}
	for i := range a {
		if a[i] != b[i] {
			return false
		}
	}
	return true
}

func filterLines(text []byte, prefix string) []string {
	var out []string
	for _, l := range strings.Split(string(text), "\n") {
		if strings.HasPrefix(l, prefix) {
			out = append(out, l)
		}
	}
	return out
}

func (x *ctx) exec(c caseT) outcome {
	env := x.newEnv(c)
	steps := x.steps(c)
	res := clientx.Run(env, c.H, steps)
	o := outcome{env: env, results: res}
	honest := env.Changed == 0
	if !honest && c.Macro == "" && len(c.Plan) > 0 {
		// deviations that leave the run honest: the same head carrying further signatures (of keys the client
		// does not know, of any size) next to the real one
		benign := true
		for _, pe := range c.Plan {
			switch pe.Fault.Kind {
			case "extra-unknown-sig", "extra-long-unknown-sig", "both-signed-head", "long-cosignature":
			default:
				benign = false
			}
		}
		honest = benign
	}
	classes := []string{}
	for i, r := range res {
		if r.Panic != "" {
			o.msg = fmt.Sprintf("lookup %d panicked: %s", i, r.Panic)
			return o
		}
		if r.Err != nil {
			classes = append(classes, "err")
			if honest {
				o.msg = fmt.Sprintf("honest server and cache, but lookup %d (%s@%s) failed: %v", i, steps[i].Path, steps[i].Vers, r.Err)
				return o
			}
			continue
		}
		classes = append(classes, "ok")
		prefix := steps[i].Path + " " + steps[i].Vers + " "
		want := filterLines(x.A.Mods[c.Lookups[i].Rec].Text, prefix)
		if sameLines(r.Lines, want) {
			continue
		}
		if honest {
			o.msg = fmt.Sprintf("honest run returned %q, want %q", r.Lines, want)
			return o
		}
		okAny := false
		for _, m := range x.A.Mods[:c.N] {
			if sameLines(r.Lines, filterLines(m.Text, prefix)) {
				okAny = true
				break
			}
		}
		if !okAny {
			o.msg = fmt.Sprintf("lookup %d (%s@%s) succeeded with lines that are not the lines of any authenticated record: %q", i, steps[i].Path, steps[i].Vers, r.Lines)
			return o
		}
		classes[len(classes)-1] = "ok-empty"
	}
	if d := env.SpareDamage(); len(d) > 0 {
		o.msg = fmt.Sprintf("the client wrote into the memory behind the end of the answers it was given for %v", d)
		return o
	}
	for _, w := range env.CacheWrites {
		if msg := clientx.CheckCacheWrite(w, x.A); msg != "" {
			o.msg = msg
			return o
		}
	}
	for _, w := range env.ConfigWrites {
		if w.Err != nil {
			continue
		}
		if _, msg := clientx.CheckConfigWrite(w, x.A); msg != "" {
			o.msg = msg
			return o
		}
	}
	o.class = strings.Join(classes, ",")
	return o
}

// confirm re-runs a failing case twice; the observations must be identical.
func (x *ctx) confirm(c caseT, first outcome) bool {
	for i := 0; i < 2; i++ {
		o := x.exec(c)
		if o.msg != first.msg || o.env.Observation() != first.env.Observation() {
			panic(fmt.Sprintf("harness nondeterminism on %s:\n%s\nvs\n%s", c.key(), first.msg, o.msg))
		}
	}
	return true
}

func (x *ctx) explore(r *fw.Run, l *fw.Local, base caseT, maxDev int, reducedAll bool) {
	everyByte := r.Thorough() || (base.Cache == "cold" && base.S0 <= 1)
	var rec func(c caseT, last string, dev int)
	rec = func(c caseT, last string, dev int) {
		if r.Failed() {
			return
		}
		o := x.exec(c)
		l.States++
		l.Execs++
		if dev > 0 || c.Macro != "" {
			l.Transitions++
			if o.env.Changed > 0 {
				l.Nontrivial++
			}
		}
		if o.msg != "" {
			x.confirm(c, o)
			l.Outcomes[fmt.Sprintf("dev%d:VIOLATION", dev)]++
			r.Violation(vkey(c, o.msg), o.msg, c)
			return
		}
		l.Outcomes[fmt.Sprintf("dev%d:%s", dev, o.class)]++
		if dev >= maxDev || c.Macro != "" {
			return
		}
		for _, t := range o.env.TouchedSorted() {
			if t.Res <= last {
				continue
			}
			for _, f := range menuX(t, reducedAll, everyByte) {
				child := c
				child.Plan = append(append([]planEntry(nil), c.Plan...), planEntry{t.Res, f})
				rec(child, t.Res, dev+1)
			}
		}
	}
	rec(base, "", 0)
	if reducedAll {
		return
	}
	// macro-deviations: forged record + consistent forged tiles up to every level
	if len(base.Lookups) >= 1 && base.Cache == "cold" {
		recID := base.Lookups[0].Rec
		maxL := 0
		for int64(1)<<uint(base.H*(maxL+1)) <= int64(base.N) {
			maxL++
		}
		for levels := 1; levels <= maxL+1; levels++ {
			for _, head := range []string{"honest", "attacker"} {
				c := base
				c.Macro = fmt.Sprintf("fw:%d:%d:%s", recID, levels, head)
				rec(c, "", 1)
			}
		}
	}
}

// macroCache enumerates the forged worlds that sit in the on-disk cache, for histories of two lookups
// on one client: the forged record is the second one looked up (the first lookup meets the forged tiles).
func (x *ctx) macroCache(r *fw.Run, l *fw.Local, base caseT) {
	if len(base.Lookups) != 2 || base.Lookups[1].Restart || base.Cache != "warm-full" {
		return
	}
	recID := base.Lookups[1].Rec
	maxL := 0
	for int64(1)<<uint(base.H*(maxL+1)) <= int64(base.N) {
		maxL++
	}
	for levels := 1; levels <= maxL+1; levels++ {
		for _, head := range []string{"honest", "attacker"} {
			c := base
			c.Macro = fmt.Sprintf("fwc:%d:%d:%s", recID, levels, head)
			l.States++
			l.Execs++
			l.Transitions++
			o := x.exec(c)
			if o.env.Changed > 0 {
				l.Nontrivial++
			}
			if o.msg != "" {
				x.confirm(c, o)
				l.Outcomes["macro-cache:VIOLATION"]++
				r.Violation(vkey(c, o.msg), o.msg, c)
			} else {
				l.Outcomes["macro-cache:"+o.class]++
			}
		}
	}
}

// vkey is the canonical identity of a violation: S2-type results get a class key.
func vkey(c caseT, msg string) string {
	return c.key()
}

func scenarios(nmax int, heights []int, twoLookups bool, skip map[int]bool) []caseT {
	var out []caseT
	for n := 1; n <= nmax; n++ {
		if skip[n] {
			continue
		}
		for _, h := range heights {
			s0s := map[int]bool{-1: true, 1: true, (n + 1) / 2: true, n: true}
			var s0l []int
			for s := range s0s {
				s0l = append(s0l, s)
			}
			sort.Ints(s0l)
			for _, s0 := range s0l {
				for _, cs := range [][2]string{{"cold", ""}, {"warm-half", ""}, {"warm-full", ""}, {"lookups-half", "compacting"}, {"cold", "compacting"}} {
					cache, server := cs[0], cs[1]
					for rec := 0; rec < n; rec++ {
						if cache == "lookups-half" && rec >= (n+1)/2 && s0 != n {
							continue // the cached lookups cover the first half only; others behave as cold
						}
						base := caseT{N: n, H: h, S0: s0, Cache: cache, Server: server}
						one := base
						one.Lookups = []lookupT{{Rec: rec, GoMod: rec%2 == 1}}
						out = append(out, one)
						if twoLookups && n <= 6 {
							for rec2 := 0; rec2 < n; rec2++ {
								for _, restart := range []bool{false, true} {
									two := base
									two.Lookups = []lookupT{{Rec: rec, GoMod: false}, {Rec: rec2, GoMod: rec2 == rec, Restart: restart}}
									out = append(out, two)
								}
							}
						}
					}
				}
			}
		}
	}
	return out
}

// FirstCalls is the menu of the fresh-process call-order check: whole client histories, honest and forged.
func FirstCalls() []fw.Call {
	var out []fw.Call
	for i, c := range []caseT{
		{N: 7, H: 2, S0: -1, Cache: "cold", Lookups: []lookupT{{Rec: 1}}},
		{N: 7, H: 1, S0: 3, Cache: "warm-half", Lookups: []lookupT{{Rec: 2, GoMod: true}, {Rec: 5, Restart: true}}},
		{N: 5, H: 2, S0: 5, Cache: "cold", Server: "compacting", Lookups: []lookupT{{Rec: 0}}},
		{N: 5, H: 1, S0: -1, Cache: "cold", Lookups: []lookupT{{Rec: 1}}, Plan: []planEntry{{Res: "remote:/lookup/m1.example/p1@v1.0.1-!r!c.1", Fault: opsenv.Fault{Kind: "attacker-head"}}}},
		{N: 5, H: 1, S0: -1, Cache: "cold", Lookups: []lookupT{{Rec: 0}}, Plan: []planEntry{{Res: "remote:/lookup/m0.example/p0@v1.0.0", Fault: opsenv.Fault{Kind: "forged-text"}}}},
	} {
		i, c := i, c
		out = append(out, fw.Call{Name: fmt.Sprintf("history-%d", i), F: func() string {
			o := newCtx(c.N).exec(c)
			var rs []string
			for _, r := range o.results {
				rs = append(rs, fmt.Sprintf("%q err=%v", r.Lines, r.Err))
			}
			return o.msg + "|" + o.class + "|" + strings.Join(rs, ";")
		}})
	}
	return out
}

func Run(r *fw.Run) {
	defer fw.FirstCallOrders(r, r.ID, FirstCalls(), nil)
	// deviation 0 on deep logs: an honest server, cache and stored head never make a lookup fail
	c14.DeepLogs(r)
	nmax := r.Pick(7, 12)
	heights := []int{1, 2, 3}
	r.Bounds["log_sizes"] = fmt.Sprintf("1..%d (plus 13 records with tile height 8 in thorough)", nmax)
	r.Bounds["tile_heights"] = heights
	r.Bounds["stored_latest"] = "empty, 1, ceil(N/2), N"
	r.Bounds["cache_states"] = []string{"cold", "warm-half", "warm-full", "lookups-half + compacting server", "cold + compacting server"}
	r.Bounds["deviations"] = "0 and 1 everywhere with the full menu (per-slot tile corruptions; every byte of lookup responses and stored config flipped - in the quick tier every byte only for cold-cache scenarios with stored head empty/1, every 7th/5th byte otherwise); 2 with reduced menus for N<=4 (quick) / N<=6 (thorough); forged-world macro-deviations at every level"
	r.Bounds["histories"] = "1 lookup everywhere; 2 lookups (all record pairs, with/without restart) for N<=6 in thorough, N<=3 in quick"
	r.Rule = "state = (log size, tile height, stored head, cache state, lookup history, fault plan over named resources); children = plan + one corruption of one resource touched by the parent run, larger in name order than the plan's last resource. Every execution runs the real sumdb.Client. non-trivial = plan with >=1 deviation that changed at least one byte actually served. outcome = deviation count x (ok | ok-empty | err) per lookup"
	r.Assume = []string{"Ed25519 unforgeability and SHA-256 collision resistance (attacker key has the same name but cannot sign for the real key hash)", "reference world (internal/world) built from the RFC 6962 reference tree"}
	skip := map[int]bool{}
	if !r.Thorough() {
		skip[6] = true // quick: sizes 1..5 and 7 (7 is the smallest size where tree-hash tiles are deduplicated at height 2)
	}
	scs := scenarios(nmax, heights, true, skip)
	if !r.Thorough() {
		var keep []caseT
		for _, c := range scs {
			if len(c.Lookups) == 2 && c.N > 3 {
				continue
			}
			keep = append(keep, c)
		}
		scs = keep
	} else {
		for _, s0 := range []int{-1, 7, 13} {
			for rec := 0; rec < 13; rec += 3 {
				scs = append(scs, caseT{N: 13, H: 8, S0: s0, Cache: "cold", Lookups: []lookupT{{Rec: rec}}})
			}
		}
	}
	sort.SliceStable(scs, func(i, j int) bool { return scs[i].N*len(scs[i].Lookups) > scs[j].N*len(scs[j].Lookups) })
	dev2N := r.Pick(3, 5)
	r.Bounds["scenarios"] = len(scs)
	fw.Parallel(len(scs), func(i int) {
		c := scs[i]
		x := newCtx(c.N)
		l := fw.NewLocal()
		t0 := time.Now()
		x.explore(r, l, c, 1, false)
		x.macroCache(r, l, c)
		if c.N <= dev2N && len(c.Lookups) == 1 {
			x.explore(r, l, c, 2, true)
		}
		if os.Getenv("VERIF_DEBUG") != "" {
			fmt.Fprintf(os.Stderr, "[c01] %.2fs execs=%d %s\n", time.Since(t0).Seconds(), l.Execs, c.key())
		}
		r.Merge(l)
	})
	// large honest logs (no fault): sizes at which tile numbers, tile counts per read and path encodings
	// change shape; an honest server and honest cache must never cause a failure
	{
		type big struct{ n, h int }
		bigs := []big{{33, 1}, {64, 1}, {257, 1}, {300, 2}, {1025, 2}, {2003, 1}, {600, 8}}
		if r.Thorough() {
			bigs = append(bigs, big{4100, 2}, big{2051, 1})
		}
		r.Bounds["large_honest_logs"] = fmt.Sprint(bigs)
		fw.Parallel(len(bigs), func(i int) {
			b := bigs[i]
			x := newCtx(b.n)
			l := fw.NewLocal()
			defer r.Merge(l)
			for _, s0 := range []int{-1, 1, b.n / 2, b.n} {
				for _, cache := range []string{"cold", "warm-full"} {
					for _, recs := range [][]int{{0}, {b.n - 1}, {b.n / 2, 1}, {1, b.n - 1}} {
						c := caseT{N: b.n, H: b.h, S0: s0, Cache: cache}
						for k, rec := range recs {
							c.Lookups = append(c.Lookups, lookupT{Rec: rec, GoMod: k%2 == 1 || s0 == 1})
						}
						l.States++
						l.Execs++
						l.Transitions++
						o := x.exec(c)
						if o.msg != "" {
							r.Violation(vkey(c, o.msg), o.msg, c)
						} else {
							l.Nontrivial++
							l.Outcomes["large-honest:"+o.class]++
						}
					}
				}
			}
		})
	}
	r.Sample(caseT{N: 7, H: 2, S0: 4, Cache: "cold", Lookups: []lookupT{{Rec: 0}}, Plan: []planEntry{{"remote:/tile/2/0/000", opsenv.Fault{Kind: "flip", Arg: 0}}}})
	r.Sample(caseT{N: 5, H: 1, S0: -1, Cache: "cold", Lookups: []lookupT{{Rec: 3, GoMod: true}}, Macro: "fw:3:2:honest"})
}

func Replay(r *fw.Run, raw json.RawMessage) {
	if c14.ReplayTall(r, raw) {
		return
	}
	var c caseT
	if err := json.Unmarshal(raw, &c); err != nil {
		r.Violation("replay", err.Error(), nil)
		return
	}
	x := newCtx(c.N)
	o := x.exec(c)
	r.States.Add(1)
	r.Transitions.Add(1)
	r.Execs.Add(1)
	r.Sample(c)
	if o.msg != "" {
		r.Violation(c.key(), o.msg, c)
	}
}
