// Package zipx holds the shared file-list space of the zip properties (C05, C12, C17).
package zipx

import (
	"errors"
	"os"
	"strings"

	modzip "golang.org/x/mod/zip"

	"verif/internal/memfile"
	"verif/internal/ref/zipref"
)

// Pool is the curated path pool: one representative per decision rule and per interaction.
var Pool = []string{
	"a", "A", "b", "a/b", "A/b", "a/B", "a/b/c",
	"go.mod", "GO.MOD", "Go.Mod", "sub/go.mod", "sub/GO.MOD", "sub/x.go", "sub/deep/y.go", "sub/deep/go.mod", "SUB/z.go", "sub2/w.go",
	"vendor/modules.txt", "vendor/x.go", "vendor/p/x.go", "pkg/vendor/vendor.go", "pkg/vendor/p/x.go", "pkg/vendor/go.mod", "sub/vendor/p/x.go", "cmd/vendor/vendor.go",
	"LICENSE", "sub/LICENSE", ".hg_archival.txt", "sub/.hg_archival.txt", ".git", "sub/.hg",
	"con", "con.txt", "a b", "é", "K", "k", "\u212a", "k/x", "\u212a/y", "s", "\u017f", "σ", "ς",
	"../x", "./a", "a//b", "a/", "/abs", "", "a:b", "a\\b", ".", "vendor", "sub", "x.", "a~1",
}

// SmallPool is the pool used where three-element lists are enumerated in the quick tier.
var SmallPool = []string{
	"a", "A", "a/b", "go.mod", "GO.MOD", "sub/go.mod", "sub/GO.MOD", "sub/x.go",
	"vendor/modules.txt", "vendor/p/x.go", "pkg/vendor/vendor.go", "pkg/vendor/p/x.go",
	"LICENSE", ".hg_archival.txt", "con", "K", "k", "\u212a", "s", "\u017f", "σ", "ς", "../x", "a//b", "/abs", "a:b", "sub",
}

// GoMods are the contents tried for a root go.mod.
var GoMods = []string{
	"module example.com/m\n",
	"module example.com/m\n\ngo 1.23\n",
	"module example.com/m\n\ngo 1.24\n",
	"module example.com/m\n\ngo 1.24rc1\n",
	"module example.com/m\n\ngo 1.25.0\n",
	"this is ( not a go.mod\n",
}

func content(p string, goMod string) string {
	if p == "go.mod" {
		return goMod
	}
	if p == "b" || p == "sub/x.go" {
		// one large file (several deflate windows / copy buffers)
		return strings.Repeat("content of "+p+" 0123456789abcdef\n", 1300)
	}
	if p == "a/b/c" || p == "sub/deep/y.go" || p == "A" {
		return "" // empty files
	}
	return "content of " + p + "\n"
}

// MakeList builds the reference list and the zip.File list for paths with modes.
func MakeList(paths []string, modes []zipref.Mode, goMod string) ([]zipref.File, []modzip.File) {
	var rf []zipref.File
	var zf []modzip.File
	for i, p := range paths {
		m := zipref.Regular
		if i < len(modes) {
			m = modes[i]
		}
		data := content(p, goMod)
		r := zipref.File{Path: p, Mode: m, Size: int64(len(data)), Data: data}
		f := memfile.File{P: p, Data: []byte(data), Declared: -1}
		switch m {
		case zipref.Symlink:
			f.M = os.ModeSymlink | 0o777
			f.OpenErr = errors.New("is a symlink")
			r.OpenErr = true
		case zipref.Dir:
			f.M = os.ModeDir | 0o755
			f.OpenErr = errors.New("is a directory")
			r.OpenErr = true
			r.Size, f.Declared = 0, 0
		case zipref.Irregular:
			f.M = os.ModeNamedPipe | 0o644
		}
		rf = append(rf, r)
		zf = append(zf, f)
	}
	return rf, zf
}

func PathsOf(fe []modzip.FileError) []string {
	out := []string{}
	for _, e := range fe {
		out = append(out, e.Path)
	}
	return out
}

func Join(ss []string) string { return strings.Join(ss, "|") }

// SweepNames returns file names with every byte value (and a few other fills: format verbs, multi-byte
// runes, case-folding specials) at the start, in the middle and at the end of an element, and as an
// element of its own.
func SweepNames() []string {
	var fills []string
	for b := 0; b < 256; b++ {
		fills = append(fills, string([]byte{byte(b)}))
	}
	fills = append(fills, "%s", "%d", "é", "É", "\u212a", "\u017f", "\ufffd", "\u2028", "\u00a0", "\xe2\x82", "~1", "..")
	var out []string
	for _, f := range fills {
		out = append(out, "n"+f, f+"n", "n"+f+"m.go", "d/"+f+"x", "d"+f+"/x.go", f)
	}
	// depth and length: many directory levels, a long element (below the 255-byte limit of the file system)
	for _, n := range []int{9, 10, 20, 60} {
		out = append(out, strings.Repeat("d/", n)+"x.go", strings.Repeat("D/", n)+"y.go")
	}
	out = append(out, strings.Repeat("n", 200), "dir/"+strings.Repeat("m", 200)+".go")
	// near misses of the names that have a meaning
	out = append(out, "cargo.mod", "sub/algo.mod", "tools/Mango.MOD", "go.mod.bak", "go.modx", "xgo.mod", "go.mo", "o.mod", "go_mod", "go.mod~", "sub/go.mod.orig",
		"vendors/x.go", "myvendor/x.go", "vendor.go", "a/vendor.txt", "a/xvendor/b.go", "vendor-old/p/x.go",
		"LICENSE.txt", "LICENSES", "xLICENSE", "license", "sub/License",
		".hg_archival.txt.bak", "x.hg_archival.txt", ".hg_archival", ".gitx/config", ".git.go", "a/.gitignore", ".hgignore", ".svnx", "x.bzr/y")
	return out
}
