// Package c08: go.mod and go.work edit operations do what a simple set/map model says.
package c08

import (
	"encoding/json"
	"fmt"
	"regexp"
	"sort"
	"strings"

	"golang.org/x/mod/modfile"

	"verif/internal/fw"
	"verif/props/modedit"
)

type marked struct {
	key    string // touch key, e.g. "require:a.com/x"
	value  string // typed dump string of the directive
	before []string
	suffix string
}

var markerRE = regexp.MustCompile(`\b[bs][0-9]+\b`)

// entries lists (touch key, dump value, syntax line) for every directive of a parsed document.
func entries(d *modedit.Doc) []struct {
	key, value string
	line       *modfile.Line
} {
	type e = struct {
		key, value string
		line       *modfile.Line
	}
	var out []e
	mvs := func(p, v string) string { return p + "@" + v }
	var g *modfile.Go
	var tc *modfile.Toolchain
	var gds []*modfile.Godebug
	var rps []*modfile.Replace
	if d.Work {
		g, tc, gds, rps = d.W.Go, d.W.Toolchain, d.W.Godebug, d.W.Replace
		for _, u := range d.W.Use {
			out = append(out, e{"use:" + u.Path, "use " + u.Path, u.Syntax})
		}
	} else {
		f := d.F
		g, tc, gds, rps = f.Go, f.Toolchain, f.Godebug, f.Replace
		if f.Module != nil {
			out = append(out, e{"module", "module", f.Module.Syntax})
		}
		for _, r := range f.Require {
			out = append(out, e{"require:" + r.Mod.Path, fmt.Sprintf("require %s indirect=%v", mvs(r.Mod.Path, r.Mod.Version), r.Indirect), r.Syntax})
		}
		for _, x := range f.Exclude {
			out = append(out, e{"exclude:" + mvs(x.Mod.Path, x.Mod.Version), "exclude " + mvs(x.Mod.Path, x.Mod.Version), x.Syntax})
		}
		for _, r := range f.Retract {
			out = append(out, e{"retract:" + r.Low + "," + r.High, fmt.Sprintf("retract [%s,%s]", r.Low, r.High), r.Syntax})
		}
		for _, t := range f.Tool {
			out = append(out, e{"tool:" + t.Path, "tool " + t.Path, t.Syntax})
		}
	}
	if g != nil {
		out = append(out, e{"go", "go", g.Syntax})
	}
	if tc != nil {
		out = append(out, e{"toolchain", "toolchain", tc.Syntax})
	}
	for _, x := range gds {
		out = append(out, e{"godebug:" + x.Key, "godebug " + x.Key + "=" + x.Value, x.Syntax})
	}
	for _, r := range rps {
		out = append(out, e{"replace:" + r.Old.Path, "replace " + mvs(r.Old.Path, r.Old.Version) + " => " + mvs(r.New.Path, r.New.Version), r.Syntax})
	}
	return out
}

func lineMarkers(l *modfile.Line) (before []string, suffix string) {
	for _, c := range l.Before {
		if m := markerRE.FindString(c.Token); m != "" {
			before = append(before, m)
		}
	}
	for _, c := range l.Suffix {
		if m := markerRE.FindString(c.Token); m != "" {
			suffix = m
		}
	}
	return
}

type checker struct{}

func (checker) State(c modedit.Case) (string, bool) {
	seed, err := modedit.Parse(c.Work, c.Seed)
	if err != nil {
		return "seed does not parse: " + err.Error(), false
	}
	model := modedit.NewModel(seed)
	for _, o := range c.Hist {
		model.Apply(c.Work, o)
	}
	d, err := modedit.Replay(c.Work, c.Seed, c.Hist)
	if err != nil {
		return err.Error(), false
	}
	d.Cleanup()
	text := d.Format()
	p, err := modedit.Parse(c.Work, text)
	if err != nil {
		return fmt.Sprintf("after %s + Cleanup the formatted file does not parse strictly: %v\n%s", modedit.HistString(c.Hist), err, text), true
	}
	got, want := p.TypedDump(), model.Dump(c.Work)
	if !modedit.Equal(got, want) {
		return fmt.Sprintf("after %s + Cleanup the file's directives differ from the set/map model: %s\n%s", modedit.HistString(c.Hist), modedit.Diff(got, want), text), true
	}
	// comment survival of untouched, unique directive lines
	count := map[string]int{}
	se := entries(seed)
	for _, e := range se {
		count[e.key]++
	}
	kind := func(k string) string {
		i := strings.IndexByte(k, ':')
		if i < 0 {
			return k
		}
		return k[:i]
	}
	pe := entries(p)
	for _, e := range se {
		if count[e.key] != 1 || model.Touched[e.key] || model.Touched[kind(e.key)+":*"] {
			continue
		}
		before, suffix := lineMarkers(e.line)
		if len(before) == 0 && suffix == "" {
			continue
		}
		found := false
		for _, q := range pe {
			if q.key != e.key || q.value != e.value {
				continue
			}
			found = true
			qb, qs := lineMarkers(q.line)
			for _, b := range before {
				ok := false
				for _, x := range qb {
					if x == b {
						ok = true
					}
				}
				if !ok {
					return fmt.Sprintf("after %s + Cleanup the untouched directive %q lost its leading comment %q\n%s", modedit.HistString(c.Hist), e.value, b, text), true
				}
			}
			if suffix != "" && qs != suffix {
				return fmt.Sprintf("after %s + Cleanup the untouched directive %q lost its end-of-line comment %q (now %q)\n%s", modedit.HistString(c.Hist), e.value, suffix, qs, text), true
			}
		}
		if !found {
			return fmt.Sprintf("after %s + Cleanup the untouched directive %q is gone\n%s", modedit.HistString(c.Hist), e.value, text), true
		}
	}
	return "", len(c.Hist) > 0
}

func (checker) Transition(c modedit.Case) string { return "" }

// KeyExtra: the oracle compares with the reference model, so the model state (directives and
// the set of touched keys) is part of the canonical state.
func (checker) KeyExtra(c modedit.Case) string {
	seed, err := modedit.Parse(c.Work, c.Seed)
	if err != nil {
		return ""
	}
	m := modedit.NewModel(seed)
	for _, o := range c.Hist {
		m.Apply(c.Work, o)
	}
	var t []string
	for k := range m.Touched {
		t = append(t, k)
	}
	sort.Strings(t)
	return strings.Join(m.Dump(c.Work), "\n") + "\x00" + strings.Join(t, ",")
}

// FirstCalls is the menu of the fresh-process call-order check: short edit histories checked by the state oracle.
func FirstCalls() []fw.Call {
	var out []fw.Call
	for i, c := range []modedit.Case{
		{Seed: modedit.ModSeeds[1], SeedIdx: 1, Hist: []modedit.Op{{Kind: "AddRequire", A: []string{"b.com/y", "v1.1.0"}}}},
		{Seed: modedit.ModSeeds[1], SeedIdx: 1, Hist: []modedit.Op{{Kind: "AddReplace", A: []string{"a.com/x", "", "../dir x", ""}}, {Kind: "DropRequire", A: []string{"a.com/x"}}}},
		{Seed: modedit.ModSeeds[0], SeedIdx: 0, Hist: []modedit.Op{{Kind: "AddGoStmt", A: []string{"1.21"}}, {Kind: "AddExclude", A: []string{"a.com/x", "v1.0.0"}}}},
		{Seed: modedit.ModSeeds[0], SeedIdx: 0, Hist: []modedit.Op{{Kind: "AddRetract", A: []string{"v1.0.0", "v1.1.0", "bad"}}}},
		{Work: true, Seed: modedit.WorkSeeds[1], SeedIdx: 1, Hist: []modedit.Op{{Kind: "AddUse", A: []string{"./b", ""}}, {Kind: "DropUse", A: []string{"./a"}}}},
		{Work: true, Seed: modedit.WorkSeeds[0], SeedIdx: 0, Hist: []modedit.Op{{Kind: "AddGodebug", A: []string{"panicnil", "1"}}}},
	} {
		i, c := i, c
		c.Check = "state"
		out = append(out, fw.Call{Name: fmt.Sprintf("history-%d %s", i, modedit.HistString(c.Hist)), F: func() string {
			msg, nt := checker{}.State(c)
			d, err := modedit.Replay(c.Work, c.Seed, c.Hist)
			text := ""
			if err == nil {
				d.Cleanup()
				text = d.Format()
			}
			return fmt.Sprint(msg, nt, err, text)
		}})
	}
	return out
}

func Run(r *fw.Run) {
	defer fw.FirstCallOrders(r, r.ID, FirstCalls(), nil)
	depth := r.Pick(3, 4)
	ops := modedit.ModOps(r.Thorough())
	wops := modedit.WorkOps(r.Thorough())
	r.Bounds["depth"] = depth
	r.Bounds["go_mod_seeds"] = len(modedit.ModSeeds)
	r.Bounds["go_work_seeds"] = len(modedit.WorkSeeds)
	r.Bounds["go_mod_ops"] = len(ops)
	r.Bounds["go_work_ops"] = len(wops)
	r.Rule = "breadth-first search over sequences of real edit operations from every seed (same engine as C15); in every distinct state, after Cleanup on a copy: the formatted file parses strictly, its directive multiset equals the set/map reference model replayed over the same history, and every seed directive whose key no operation targeted and that is unique in the seed still carries its own marker comments. non-trivial = non-initial state"
	r.Assume = []string{"reference model props/modedit/model.go follows the operations' doc comments (first match updated, later ones removed, append otherwise; exclude/tool keep the first duplicate, replace keeps the last when blocks are sorted)", "seeds avoid commented retract blocks (a line added to one inherits the block comment as rationale by parser semantics)"}
	modedit.Explore(r, false, modedit.ModSeeds, ops, depth, checker{})
	modedit.Explore(r, true, modedit.WorkSeeds, wops, depth+1, checker{})
	modedit.ArgSweep(r, checker{}, r.Pick(3, 4))
	r.Sample(modedit.Case{Work: false, SeedIdx: 5, Seed: modedit.ModSeeds[5], Hist: []modedit.Op{{Kind: "AddReplace", A: []string{"a.com/x", "", "c.com/z", "v1.2.0"}}, {Kind: "DropReplace", A: []string{"a.com/x", ""}}}, Check: "state"})
}

func Replay(r *fw.Run, raw json.RawMessage) {
	var c modedit.Case
	if err := json.Unmarshal(raw, &c); err != nil {
		r.Violation("replay", err.Error(), nil)
		return
	}
	r.States.Add(1)
	r.Transitions.Add(1)
	r.Execs.Add(1)
	r.Sample(c)
	if msg, _ := (checker{}).State(c); msg != "" {
		r.Violation(c.Key(), msg, c)
	}
}
