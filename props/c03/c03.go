// Package c03: Merkle inclusion and consistency proofs are complete and sound (RFC 6962).
package c03

import (
	"crypto/sha256"
	"encoding/json"
	"fmt"
	"time"
	c09 "verif/props/c09"

	"golang.org/x/mod/sumdb/tlog"

	"verif/internal/enum"
	"verif/internal/fw"
	"verif/internal/ref/rfc6962"
	"verif/internal/tlogx"
)

type caseT struct {
	Kind    string   `json:"kind"` // record | tree
	Pattern int      `json:"pattern"`
	Size    int      `json:"log_size"`
	T       int64    `json:"t"`
	N       int64    `json:"n"`
	Proof   []string `json:"proof_base64"`
	Root    string   `json:"root"`
	Leaf    string   `json:"leaf_or_old_root"`
	Note    string   `json:"mutation"`
}

func mk(kind string, pat, size int, p []tlog.Hash, t int64, th tlog.Hash, n int64, h tlog.Hash, note string) caseT {
	c := caseT{Kind: kind, Pattern: pat, Size: size, T: t, N: n, Root: th.String(), Leaf: h.String(), Note: note}
	for _, x := range p {
		c.Proof = append(c.Proof, x.String())
	}
	return c
}

func toRef(p []tlog.Hash) []rfc6962.Hash {
	out := make([]rfc6962.Hash, len(p))
	for i, h := range p {
		out[i] = h
	}
	return out
}

// agree runs the real checker and the RFC 9162 algorithm on one tuple.
func agree(kind string, p []tlog.Hash, t int64, th tlog.Hash, n int64, h tlog.Hash) (msg string, accepted bool) {
	var err error
	var want bool
	func() {
		defer func() {
			if e := recover(); e != nil {
				msg = fmt.Sprintf("panic: %v", e)
			}
		}()
		// the proof is a window of a longer array: what lies behind its end belongs to the caller
		pw, intact := enum.Spare(p, tlog.Hash{0x5e, 0x5e, 0x5e}, 2)
		if kind == "record" {
			err = tlog.CheckRecord(tlog.RecordProof(pw), t, th, n, h)
			want = rfc6962.VerifyInclusion(toRef(p), t, n, th, h)
		} else {
			err = tlog.CheckTree(tlog.TreeProof(pw), t, th, n, h)
			want = rfc6962.VerifyConsistency(toRef(p), n, t, h, th)
		}
		if !intact() {
			msg = "the checker wrote into the caller's array behind the end of the proof"
		}
		for i := range p {
			if pw[i] != p[i] {
				msg = "the checker changed the proof it was given"
			}
		}
	}()
	if msg != "" {
		return msg, false
	}
	if (err == nil) != want {
		return fmt.Sprintf("Check %s (t=%d,n=%d,len(p)=%d): tlog accepted=%v, RFC 9162 verification says %v", kind, t, n, len(p), err == nil, want), err == nil
	}
	return "", err == nil
}

type ctx struct {
	r    *fw.Run
	l    *fw.Local
	pat  int
	size int
}

func (c *ctx) try(kind string, p []tlog.Hash, t int64, th tlog.Hash, n int64, h tlog.Hash, note string, expectReject bool) {
	c.l.Execs++
	c.l.Transitions++
	msg, acc := agree(kind, p, t, th, n, h)
	if acc {
		c.l.Outcomes[kind+":mutant-still-valid"]++
	} else {
		c.l.Outcomes[kind+":rejected"]++
	}
	if msg != "" {
		cs := mk(kind, c.pat, c.size, p, t, th, n, h, note)
		c.r.Violation(fmt.Sprintf("%s:p%d:t%d:n%d:%s", kind, c.pat, t, n, note), msg, cs)
	}
}

func flip(h tlog.Hash, bit int) tlog.Hash { h[bit/8] ^= 1 << (bit % 8); return h }

func (c *ctx) mutate(kind string, lg *tlogx.Log, p []tlog.Hash, t int64, th tlog.Hash, n int64, h tlog.Hash, tmax int64) {
	// pool of substitute hashes
	pool := []tlog.Hash{{}, h, th, flip(th, 0), flip(h, 255)}
	pool = append(pool, p...)
	if t <= 16 {
		for lo := 0; lo < int(t); lo++ {
			for hi := lo + 1; hi <= int(t); hi++ {
				if (hi-lo)&(hi-lo-1) == 0 && lo%(hi-lo) == 0 || lo == 0 {
					pool = append(pool, tlog.Hash(lg.Ref.MTH(lo, hi)))
				}
			}
		}
	} else {
		for _, m := range []int{1, 2, int(n), int(n) + 1, int(t) - 1, int(t)} {
			if m >= 1 && m <= int(t) {
				pool = append(pool, tlog.Hash(lg.Ref.MTH(0, m)))
			}
		}
		if int(n) < lg.N() {
			pool = append(pool, tlog.Hash(lg.Ref.Leaves[n]))
		}
		if n > 0 {
			pool = append(pool, tlog.Hash(lg.Ref.Leaves[n-1]))
		}
	}
	q := make([]tlog.Hash, len(p), len(p)+1)
	for i := range p {
		for k, x := range pool {
			if x == p[i] {
				continue
			}
			copy(q, p)
			q[i] = x
			c.try(kind, q, t, th, n, h, fmt.Sprintf("proof[%d]<-pool[%d]", i, k), true)
		}
		copy(q, p)
		q[i] = flip(p[i], i*7%256)
		c.try(kind, q, t, th, n, h, fmt.Sprintf("proof[%d] bitflip", i), true)
		// delete element i
		d := append(append([]tlog.Hash{}, p[:i]...), p[i+1:]...)
		c.try(kind, d, t, th, n, h, fmt.Sprintf("delete proof[%d]", i), true)
		if i+1 < len(p) {
			copy(q, p)
			q[i], q[i+1] = q[i+1], q[i]
			c.try(kind, q, t, th, n, h, fmt.Sprintf("swap proof[%d],[%d]", i, i+1), true)
		}
	}
	for i := 0; i <= len(p); i++ {
		for k, x := range pool[:min(len(pool), 8)] {
			ins := append(append(append([]tlog.Hash{}, p[:i]...), x), p[i:]...)
			c.try(kind, ins, t, th, n, h, fmt.Sprintf("insert pool[%d] at %d", k, i), true)
		}
	}
	if len(p) > 1 {
		rev := make([]tlog.Hash, len(p))
		for i := range p {
			rev[len(p)-1-i] = p[i]
		}
		c.try(kind, rev, t, th, n, h, "reverse", true)
	}
	for n2 := int64(-1); n2 <= t+1; n2++ {
		if n2 != n {
			c.try(kind, p, t, th, n2, h, fmt.Sprintf("n<-%d", n2), true)
		}
	}
	for t2 := int64(-1); t2 <= tmax+1; t2++ {
		if t2 != t {
			c.try(kind, p, t2, th, n, h, fmt.Sprintf("t<-%d", t2), true)
		}
	}
	for _, t2 := range []int64{1 << 31, 1 << 40, 1<<62 - 1} {
		c.try(kind, p, t2, th, n, h, fmt.Sprintf("t<-%d", t2), true)
	}
	for k, x := range pool {
		if x != h {
			c.try(kind, p, t, th, n, x, fmt.Sprintf("leaf/old<-pool[%d]", k), true)
		}
		if x != th {
			c.try(kind, p, t, x, n, h, fmt.Sprintf("root<-pool[%d]", k), true)
		}
	}
}

// hugeSizes substitutes sizes and indexes around 2^62 and up to MaxInt64 into honest tuples of small
// trees (every t <= 9, every n) and calls the provers with them. Each call runs under a watchdog:
// the checker must return (the RFC verdict), the provers must return an error, nothing may hang.
func hugeSizes(r *fw.Run, lg *tlogx.Log) {
	l := fw.NewLocal()
	defer r.Merge(l)
	huge := []int64{1<<62 - 1, 1 << 62, 1<<62 + 1, 1<<62 + 2, 3 << 61, 1<<63 - 2, 1<<63 - 1}
	r.Bounds["huge_sizes"] = huge
	guard := func(key, what string, cs caseT, f func() string) bool {
		done := make(chan string, 1)
		go func() {
			defer func() {
				if e := recover(); e != nil {
					done <- fmt.Sprintf("panic: %v", e)
				}
			}()
			done <- f()
		}()
		l.Execs++
		l.Transitions++
		select {
		case msg := <-done:
			if msg != "" {
				r.Violation(key, what+": "+msg, cs)
			}
			return true
		case <-time.After(90 * time.Second):
			r.Violation(key, what+": no result after 90 s (the call does not terminate)", cs)
			return false
		}
	}
	for t := int64(1); t <= 9; t++ {
		th := lg.Root(int(t))
		for n := int64(0); n < t; n++ {
			leaf := tlog.Hash(lg.Ref.Leaves[n])
			p, _ := tlog.ProveRecord(t, n, lg)
			tp, _ := tlog.ProveTree(t, n+1, lg)
			old := lg.Root(int(n + 1))
			l.States++
			for _, H := range huge {
				for _, c := range []struct {
					kind   string
					p      []tlog.Hash
					t2, n2 int64
					h      tlog.Hash
				}{
					{"record", p, H, n, leaf}, {"record", p, t, H, leaf}, {"record", p, H, H - 1, leaf}, {"record", p, H, H / 2, leaf}, {"record", nil, H, 0, leaf},
					{"tree", tp, H, n + 1, old}, {"tree", tp, t, H, old}, {"tree", tp, H, H, th}, {"tree", tp, H, H - 1, old}, {"tree", nil, H, 1 << 62, old},
				} {
					c := c
					key := fmt.Sprintf("huge:%s:t%d:n%d:from-t%d-n%d", c.kind, c.t2, c.n2, t, n)
					ok := guard(key, fmt.Sprintf("Check %s with t=%d n=%d (honest tuple of t=%d n=%d)", c.kind, c.t2, c.n2, t, n), mk(c.kind, 0, 9, c.p, c.t2, th, c.n2, c.h, "huge"), func() string {
						msg, acc := agree(c.kind, c.p, c.t2, th, c.n2, c.h)
						if acc {
							l.Outcomes[c.kind+":mutant-still-valid"]++
						} else {
							l.Outcomes[c.kind+":rejected"]++
						}
						return msg
					})
					if !ok {
						return
					}
				}
			}
		}
	}
	// provers on huge sizes over a small store: an error, not a hang or a panic (TreeHash is not a
	// prover or checker: TreeHash(MaxInt64) panics with "bad math in subTreeIndex", noted in DESIGN 11)
	for _, H := range huge {
		H := H
		for _, c := range []struct {
			name string
			f    func() error
		}{
			{"ProveRecord(H,0)", func() error { _, err := tlog.ProveRecord(H, 0, lg); return err }},
			{"ProveRecord(H,H-1)", func() error { _, err := tlog.ProveRecord(H, H-1, lg); return err }},
			{"ProveTree(H,1)", func() error { _, err := tlog.ProveTree(H, 1, lg); return err }},
			{"ProveTree(H,H-1)", func() error { _, err := tlog.ProveTree(H, H-1, lg); return err }},
		} {
			c := c
			key := fmt.Sprintf("huge:%s:H=%d", c.name, H)
			ok := guard(key, fmt.Sprintf("%s with H=%d over a %d-record store", c.name, H, lg.N()), caseT{Kind: "prover", Size: 9, T: H, Note: c.name}, func() string {
				if err := c.f(); err == nil {
					return "succeeded although the store cannot hold such a tree"
				}
				l.Outcomes["prover:huge-refused"]++
				return ""
			})
			if !ok {
				return
			}
		}
	}
}

func eq(a []tlog.Hash, b []rfc6962.Hash) bool {
	if len(a) != len(b) {
		return false
	}
	for i := range a {
		if a[i] != tlog.Hash(b[i]) {
			return false
		}
	}
	return true
}

// FirstCalls is the menu of the fresh-process call-order check.
func FirstCalls() []fw.Call {
	var out []fw.Call
	for _, c := range []struct{ t, n int64 }{{7, 3}, {13, 0}, {8, 7}, {1, 0}} {
		c := c
		out = append(out, fw.Call{Name: fmt.Sprintf("record(t=%d,n=%d)", c.t, c.n), F: func() string {
			lg, _ := tlogx.Build(tlogx.Pattern(0, int(c.t)))
			p, err := tlog.ProveRecord(c.t, c.n, lg)
			m1, a1 := agree("record", p, c.t, lg.Root(int(c.t)), c.n, tlog.Hash(lg.Ref.Leaves[c.n]))
			bad := append([]tlog.Hash(nil), p...)
			if len(bad) > 0 {
				bad[0][0] ^= 1
			}
			m2, a2 := agree("record", bad, c.t, lg.Root(int(c.t)), c.n, tlog.Hash(lg.Ref.Leaves[c.n]))
			return fmt.Sprint(err, m1, a1, m2, a2)
		}})
		out = append(out, fw.Call{Name: fmt.Sprintf("tree(t=%d,n=%d)", c.t, c.n+1), F: func() string {
			lg, _ := tlogx.Build(tlogx.Pattern(0, int(c.t)))
			p, err := tlog.ProveTree(c.t, c.n+1, lg)
			m1, a1 := agree("tree", p, c.t, lg.Root(int(c.t)), c.n+1, lg.Root(int(c.n+1)))
			m2, a2 := agree("tree", append(append([]tlog.Hash(nil), p...), tlog.Hash{}), c.t, lg.Root(int(c.t)), c.n+1, lg.Root(int(c.n+1)))
			return fmt.Sprint(err, m1, a1, m2, a2)
		}})
	}
	return out
}

// strictReaders are logs that serve what a proof needs and nothing else: a proof that needs no stored hash
// (RFC 6962: the audit path in a tree of one record, the consistency proof of a tree with itself) exists
// for them too.
type refuseEmpty struct{ tlog.HashReader }

func (x refuseEmpty) ReadHashes(ix []int64) ([]tlog.Hash, error) {
	if len(ix) == 0 {
		return nil, fmt.Errorf("empty request")
	}
	return x.HashReader.ReadHashes(ix)
}

type rangeReader struct{ tlog.HashReader }

func (x rangeReader) ReadHashes(ix []int64) ([]tlog.Hash, error) {
	lo, hi := ix[0], ix[0] // a reader that fetches the range lo..hi in one go
	for _, i := range ix {
		lo, hi = min(lo, i), max(hi, i)
	}
	_ = hi - lo
	return x.HashReader.ReadHashes(ix)
}

type offline struct{}

func (offline) ReadHashes(ix []int64) ([]tlog.Hash, error) { return nil, fmt.Errorf("offline") }

func emptyProofs(r *fw.Run, lg *tlogx.Log, tmax int) {
	l := fw.NewLocal()
	defer r.Merge(l)
	readers := []struct {
		name string
		rd   tlog.HashReader
	}{{"a reader that refuses empty requests", refuseEmpty{lg}}, {"a reader that looks at the first requested index", rangeReader{lg}}, {"an offline reader", offline{}}, {"no reader (nil)", nil}}
	r.Bounds["empty_proofs"] = fmt.Sprintf("ProveRecord(1,0) and ProveTree(t,t) for t<=%d, through %d readers that cannot serve an empty request", tmax, len(readers))
	for _, rd := range readers {
		try := func(what string, t int64, f func() (int, error)) {
			l.States++
			l.Execs++
			l.Transitions++
			n, err := -1, error(nil)
			pan := ""
			func() {
				defer func() {
					if e := recover(); e != nil {
						pan = fmt.Sprint(e)
					}
				}()
				n, err = f()
			}()
			if pan != "" || err != nil || n != 0 {
				r.Violation(fmt.Sprintf("empty-proof:%s:%d:%s", what, t, rd.name), fmt.Sprintf("%s through %s: %d hashes, err=%v, panic=%q; the RFC 6962 proof is empty and needs nothing from the log", what, rd.name, n, err, pan), caseT{Kind: "empty-proof", T: t, Note: what + " / " + rd.name})
			} else {
				l.Nontrivial++
			}
		}
		try("ProveRecord(1,0)", 1, func() (int, error) { p, err := tlog.ProveRecord(1, 0, rd.rd); return len(p), err })
		for t := int64(1); t <= int64(tmax); t++ {
			try(fmt.Sprintf("ProveTree(%d,%d)", t, t), t, func() (int, error) { p, err := tlog.ProveTree(t, t, rd.rd); return len(p), err })
		}
	}
}

func Run(r *fw.Run) {
	defer fw.FirstCallOrders(r, r.ID, FirstCalls(), nil)
	tmax := r.Pick(130, 300)
	r.Bounds["t_max"] = tmax
	r.Bounds["patterns"] = []string{"all distinct", "all equal", "period 3", "record lengths 0..65536 around block and buffer sizes (t <= 48)"}
	r.Bounds["closed_world"] = "t<=5, pool of 8 true node hashes, all proofs of length 0..4, all n, roots and leaves over the pool"
	r.Rule = "state = (pattern, t, n) with its honest proof; transitions = every single mutation of every component (proof element <- every pool hash / bit flip / delete / insert / swap / reverse; n over [-1,t+1]; t over [-1,t_max+1] and huge; leaf/old root and root <- pool) plus the closed-world enumeration. Each tuple is executed on tlog.Check* and on the RFC 9162 algorithm; non-trivial = honest tuple or mutant that remains valid; outcome = accepted/rejected per checker kind"
	r.Assume = []string{"SHA-256 collision resistance (acceptance equivalence is exact anyway: both sides compute the same hash expression)", "sizes between the enumerated bound and 2^62 are probed at 2^31, 2^40 and around 2^62..2^63-1 only"}
	type job struct{ pat, t int }
	var jobs []job
	for pat := 0; pat < 4; pat++ {
		for t := tmax; t >= 1; t-- {
			if pat == 3 && t > 48 {
				continue // the pattern with varied record lengths: two rounds over the 21 lengths
			}
			jobs = append(jobs, job{pat, t})
		}
	}
	logs := make([]*tlogx.Log, 4)
	for pat := range logs {
		lg, err := tlogx.Build(tlogx.Pattern(pat, tmax))
		if err != nil {
			r.Violation("build", "StoredHashes failed: "+err.Error(), nil)
			return
		}
		logs[pat] = lg
	}
	emptyProofs(r, logs[0], tmax)
	// warm the memo single-threaded so the parallel phase only reads it
	for _, lg := range logs {
		for t := 1; t <= tmax; t++ {
			for n := 0; n < t; n++ {
				lg.Ref.Path(n, 0, t)
				lg.Ref.Proof(n+1, t)
			}
			for lo := 0; lo < t; lo++ {
				for hi := lo + 1; hi <= t; hi++ {
					if t <= 16 {
						lg.Ref.MTH(lo, hi)
					}
				}
			}
		}
	}
	fw.Parallel(len(jobs), func(i int) {
		j := jobs[i]
		lg := logs[j.pat]
		c := &ctx{r, fw.NewLocal(), j.pat, tmax}
		t := int64(j.t)
		th := lg.Root(j.t)
		for n := int64(0); n < t; n++ {
			// records
			c.l.States++
			c.l.Execs++
			p, err := tlog.ProveRecord(t, n, lg)
			want := lg.Ref.Path(int(n), 0, j.t)
			leaf := tlog.Hash(lg.Ref.Leaves[n])
			if err != nil || !eq(p, want) {
				r.Violation(fmt.Sprintf("prove-record:p%d:t%d:n%d", j.pat, t, n), fmt.Sprintf("ProveRecord(%d,%d) = %d hashes, err=%v; differs from RFC 6962 PATH (%d hashes)", t, n, len(p), err, len(want)), mk("record", j.pat, tmax, p, t, th, n, leaf, "honest"))
				continue
			}
			if err := tlog.CheckRecord(p, t, th, n, leaf); err != nil {
				r.Violation(fmt.Sprintf("check-record:p%d:t%d:n%d", j.pat, t, n), "CheckRecord rejects the honest proof: "+err.Error(), mk("record", j.pat, tmax, p, t, th, n, leaf, "honest"))
			}
			c.l.Nontrivial++
			c.l.Outcomes["record:honest-accepted"]++
			c.mutate("record", lg, p, t, th, n, leaf, int64(tmax))
			// trees: prefix size m = n+1
			m := n + 1
			c.l.States++
			c.l.Execs++
			tp, err := tlog.ProveTree(t, m, lg)
			wantT := lg.Ref.Proof(int(m), j.t)
			old := lg.Root(int(m))
			if err != nil || !eq(tp, wantT) {
				r.Violation(fmt.Sprintf("prove-tree:p%d:t%d:n%d", j.pat, t, m), fmt.Sprintf("ProveTree(%d,%d) = %d hashes, err=%v; differs from RFC 6962 PROOF (%d hashes)", t, m, len(tp), err, len(wantT)), mk("tree", j.pat, tmax, tp, t, th, m, old, "honest"))
				continue
			}
			if err := tlog.CheckTree(tp, t, th, m, old); err != nil {
				r.Violation(fmt.Sprintf("check-tree:p%d:t%d:n%d", j.pat, t, m), "CheckTree rejects the honest proof: "+err.Error(), mk("tree", j.pat, tmax, tp, t, th, m, old, "honest"))
			}
			c.l.Nontrivial++
			c.l.Outcomes["tree:honest-accepted"]++
			c.mutate("tree", lg, tp, t, th, m, old, int64(tmax))
		}
		// out-of-range arguments to the provers: error, never a panic
		for _, a := range [][2]int64{{-1, 0}, {t, -1}, {t, t}, {t, t + 1}, {0, 0}} {
			func() {
				defer func() {
					if e := recover(); e != nil {
						r.Violation(fmt.Sprintf("prove-range:t%d:n%d", a[0], a[1]), fmt.Sprintf("ProveRecord(%d,%d) panicked: %v", a[0], a[1], e), caseT{Kind: "record", T: a[0], N: a[1]})
					}
				}()
				c.l.Execs++
				if _, err := tlog.ProveRecord(a[0], a[1], lg); err == nil {
					r.Violation(fmt.Sprintf("prove-range:t%d:n%d", a[0], a[1]), fmt.Sprintf("ProveRecord(%d,%d) succeeded on out-of-range arguments", a[0], a[1]), caseT{Kind: "record", T: a[0], N: a[1]})
				}
			}()
		}
		for _, a := range [][2]int64{{0, 0}, {t, 0}, {t, t + 1}, {-1, 1}, {t, -1}} {
			func() {
				defer func() {
					if e := recover(); e != nil {
						r.Violation(fmt.Sprintf("provetree-range:t%d:n%d", a[0], a[1]), fmt.Sprintf("ProveTree(%d,%d) panicked: %v", a[0], a[1], e), caseT{Kind: "tree", T: a[0], N: a[1]})
					}
				}()
				c.l.Execs++
				if _, err := tlog.ProveTree(a[0], a[1], lg); err == nil {
					r.Violation(fmt.Sprintf("provetree-range:t%d:n%d", a[0], a[1]), fmt.Sprintf("ProveTree(%d,%d) succeeded on out-of-range arguments", a[0], a[1]), caseT{Kind: "tree", T: a[0], N: a[1]})
				}
			}()
		}
		r.Merge(c.l)
	})
	hugeSizes(r, logs[0])
	lg := logs[0]
	p, _ := tlog.ProveRecord(7, 2, lg)
	r.Sample(mk("record", 0, tmax, p, 7, lg.Root(7), 2, tlog.Hash(lg.Ref.Leaves[2]), "honest"))
	tp, _ := tlog.ProveTree(7, 3, lg)
	r.Sample(mk("tree", 0, tmax, tp, 7, lg.Root(7), 3, lg.Root(3), "honest"))

	// closed world
	closedWorld(r)
	sentinelWorld(r)
	// provers over readers that hand out their own memory (zero-copy store, memoised answers): proofs stay
	// correct and the reader's memory is not written to
	c09.Aliasing(r)
	// overlapping prover calls (every interleaving at the reader callbacks), also after failed calls
	c09.Overlap(r)
	// virtual logs of up to 2^62 identical records: provers and checkers against RFC 6962 proofs computed
	// independently, for sizes around and just above every power of two
	c09.HugeLogs(r)
	proofLengths(r)
	craftedOutOfRange(r)
	// readers that fail in every way (an error, one hash too few, too many, an error with a full-length answer)
	c09.FailingAppends(r)
}

// proofLengths hands the checkers proofs of every length 0..200 (and a few far longer ones), made of
// arbitrary hashes, for small and huge claimed sizes: a proof can be as long as the sender likes, and the
// answer must be the reference's (a refusal, unless the length happens to fit), never a crash.
func proofLengths(r *fw.Run) {
	l := fw.NewLocal()
	defer r.Merge(l)
	var th, h, x tlog.Hash
	th[0], h[1], x[2] = 1, 2, 3
	lens := []int{1000, 4096, 65536}
	for n := 0; n <= 200; n++ {
		lens = append(lens, n)
	}
	tuples := [][2]int64{{1, 0}, {2, 1}, {2, 0}, {3, 1}, {7, 3}, {8, 7}, {1 << 20, 5}, {1<<40 + 1, 1 << 39}, {1 << 62, 1<<62 - 1}, {1<<63 - 1, 1}}
	r.Bounds["proof_lengths"] = fmt.Sprintf("%d lengths (0..200, 1000, 4096, 65536) x %d (size, index) pairs x {record, tree}, arbitrary hashes", len(lens), len(tuples))
	for _, n := range lens {
		p := make([]tlog.Hash, n)
		for i := range p {
			p[i] = x
			p[i][5] = byte(i)
		}
		for _, tu := range tuples {
			for _, kind := range []string{"record", "tree"} {
				t, idx := tu[0], tu[1]
				if kind == "tree" {
					idx++ // the older tree's size
					if idx > t {
						continue
					}
				}
				l.States++
				l.Execs++
				l.Transitions++
				msg, acc := agree(kind, p, t, th, idx, h)
				if acc {
					l.Outcomes[kind+":long-proof-accepted"]++
				}
				if msg != "" {
					r.Violation(fmt.Sprintf("prooflen:%s:%d:%d:%d", kind, n, t, idx), msg, mk(kind, 0, 0, p, t, th, idx, h, fmt.Sprintf("proof of %d arbitrary hashes", n)))
				}
			}
		}
	}
}

// craftedOutOfRange builds, for out-of-range coordinates (size <= 0, index < 0, index >= size), audit paths
// that are self-consistent: the claimed root IS the fold of the leaf with the path in the bit directions
// of the index (both path orders, every length 0..64). Whatever arithmetic a checker does with such sizes,
// it must refuse them; a path that folds to the root is the input on which a missing range check shows.
func craftedOutOfRange(r *fw.Run) {
	l := fw.NewLocal()
	defer r.Merge(l)
	var leaf tlog.Hash
	leaf[0] = 0x4c
	sib := func(i int) tlog.Hash { var h tlog.Hash; h[0], h[1] = 0x51, byte(i); return h }
	const minInt, maxInt = -1 << 63, 1<<63 - 1
	sizes := []int64{minInt, minInt + 1, minInt + 2, -(1 << 62), -(1 << 32), -2, -1, 0}
	indexes := []int64{0, 1, 2, 5, 1 << 31, 1<<62 - 1, 1 << 62, maxInt - 1, maxInt, -1, minInt}
	n := 0
	for _, t := range sizes {
		for _, idx := range indexes {
			for L := 0; L <= 64; L++ {
				for _, order := range []string{"leaf-up", "root-down"} {
					p := make([]tlog.Hash, L)
					for i := range p {
						p[i] = sib(i)
					}
					// fold from the leaf upwards along the bits of idx
					h := leaf
					for lvl := 0; lvl < L; lvl++ {
						s := p[lvl]
						if order == "root-down" {
							s = p[L-1-lvl]
						}
						if uint64(idx)>>uint(lvl)&1 == 0 {
							h = tlog.NodeHash(h, s)
						} else {
							h = tlog.NodeHash(s, h)
						}
					}
					n++
					l.States++
					l.Execs++
					l.Transitions++
					var err error
					pan := ""
					func() {
						defer func() {
							if e := recover(); e != nil {
								pan = fmt.Sprint(e)
							}
						}()
						err = tlog.CheckRecord(tlog.RecordProof(p), t, h, idx, leaf)
					}()
					if pan != "" || err == nil {
						r.Violation(fmt.Sprintf("crafted:%d:%d:%d:%s", t, idx, L, order), fmt.Sprintf("CheckRecord(size %d, index %d) with a %d-hash path that folds to the claimed root (%s): err=%v panic=%q; a size <= 0 or an index outside the tree must be refused", t, idx, L, order, err, pan), mk("record", 0, 0, p, t, h, idx, leaf, "crafted path for out-of-range coordinates"))
					}
				}
			}
		}
	}
	// in-range sizes with an index at or beyond the size, same construction
	for _, t := range []int64{1, 2, 3, 8, 1 << 32, 1 << 62, maxInt} {
		for _, idx := range []int64{t, t + 1, maxInt, -1, minInt} {
			if idx >= 0 && idx < t {
				continue
			}
			for L := 0; L <= 64; L++ {
				p := make([]tlog.Hash, L)
				h := leaf
				for lvl := 0; lvl < L; lvl++ {
					p[lvl] = sib(lvl)
					if uint64(idx)>>uint(lvl)&1 == 0 {
						h = tlog.NodeHash(h, p[lvl])
					} else {
						h = tlog.NodeHash(p[lvl], h)
					}
				}
				l.States++
				l.Execs++
				msg, _ := agree("record", p, t, h, idx, leaf)
				if msg != "" {
					r.Violation(fmt.Sprintf("crafted-range:%d:%d:%d", t, idx, L), msg, mk("record", 0, 0, p, t, h, idx, leaf, "crafted path, index outside the tree"))
				}
			}
		}
	}
	r.Bounds["crafted_out_of_range_paths"] = n
	// consistency with an empty or negative old tree: "old size" 0 and below, with the hashes a lenient
	// implementation might special-case (SHA-256 of nothing, the zero hash, the new root itself), short proofs
	{
		empty := tlog.Hash(sha256.Sum256(nil))
		var zero tlog.Hash
		for _, t := range []int64{1, 2, 7, 8, 1 << 40, maxInt} {
			for _, old := range []int64{0, -1, minInt} {
				var th tlog.Hash
				th[3] = 9
				for _, oh := range []tlog.Hash{empty, zero, th, leaf} {
					for _, root := range []tlog.Hash{th, zero, empty} {
						for _, p := range [][]tlog.Hash{nil, {}, {th}, {empty}, {th, oh}} {
							l.States++
							l.Execs++
							var err error
							pan := ""
							func() {
								defer func() {
									if e := recover(); e != nil {
										pan = fmt.Sprint(e)
									}
								}()
								err = tlog.CheckTree(tlog.TreeProof(p), t, root, old, oh)
							}()
							if pan != "" || err == nil {
								r.Violation(fmt.Sprintf("crafted-tree:%d:%d:%x:%x:%d", t, old, oh[:2], root[:2], len(p)), fmt.Sprintf("CheckTree(new size %d, old size %d) with a %d-hash proof: err=%v panic=%q; an old tree of size <= 0 must be refused", t, old, len(p), err, pan), mk("tree", 0, 0, p, t, root, old, oh, "old size <= 0"))
							}
						}
					}
				}
			}
		}
	}
}

// sentinelWorld is a second closed world built around the zero hash: base hashes {zero, a, b}, every
// proof of length <= 3 over them, and as claimed root / leaf / old root every hash computable from the
// base with at most three NodeHash applications. A verifier that uses a particular hash value as an
// internal marker (or forgets an error while hashing on) accepts some tuple in here that the RFC rejects.
func sentinelWorld(r *fw.Run) {
	var zero tlog.Hash
	a, b := tlog.RecordHash([]byte("a")), tlog.RecordHash([]byte("b"))
	base := []tlog.Hash{zero, a, b}
	seen := map[tlog.Hash]bool{}
	var vals []tlog.Hash
	add := func(h tlog.Hash) {
		if !seen[h] {
			seen[h] = true
			vals = append(vals, h)
		}
	}
	for _, x := range base {
		add(x)
	}
	for depth := 0; depth < 3; depth++ {
		cur := append([]tlog.Hash(nil), vals...)
		for _, x := range cur {
			for _, y := range base {
				add(tlog.NodeHash(x, y))
				add(tlog.NodeHash(y, x))
			}
		}
	}
	r.Bounds["sentinel_world"] = fmt.Sprintf("base {zero, a, b}; proofs of length <= 3; %d derived hashes as root; t <= 5", len(vals))
	var proofs [][]int
	enum.Sequences(len(base), 3, func(s []int) { proofs = append(proofs, append([]int(nil), s...)) })
	fw.Parallel(len(proofs), func(i int) {
		c := &ctx{r, fw.NewLocal(), 0, 5}
		var p []tlog.Hash
		for _, x := range proofs[i] {
			p = append(p, base[x])
		}
		c.l.States++
		for t := int64(1); t <= 5; t++ {
			for n := int64(0); n < t; n++ {
				for _, th := range vals {
					for _, h := range base {
						c.try("record", p, t, th, n, h, "sentinel-world", false)
						c.try("tree", p, t, th, n+1, h, "sentinel-world", false)
					}
				}
			}
		}
		r.Merge(c.l)
	})
}

func closedWorld(r *fw.Run) {
	maxLen := r.Pick(4, 5)
	r.Bounds["closed_world_max_proof_len"] = maxLen
	for pat := 0; pat < 2; pat++ {
		lg, _ := tlogx.Build(tlogx.Pattern(pat, 5))
		pool := []tlog.Hash{}
		for i := 0; i < 5; i++ {
			pool = append(pool, tlog.Hash(lg.Ref.Leaves[i]))
		}
		pool = append(pool, tlog.Hash(lg.Ref.MTH(0, 2)), tlog.Hash(lg.Ref.MTH(2, 4)), tlog.Hash(lg.Ref.MTH(0, 4)))
		var proofs [][]int
		enum.Sequences(len(pool), maxLen, func(s []int) { proofs = append(proofs, append([]int(nil), s...)) })
		fw.Parallel(16, func(sh int) {
			c := &ctx{r, fw.NewLocal(), pat, 5}
			p := make([]tlog.Hash, 0, 4)
			for i := sh; i < len(proofs); i += 16 {
				p = p[:0]
				for _, x := range proofs[i] {
					p = append(p, pool[x])
				}
				c.l.States++
				for t := int64(1); t <= 5; t++ {
					roots := append([]tlog.Hash{lg.Root(int(t))}, pool[5:]...)
					for _, th := range roots {
						for n := int64(0); n < t; n++ {
							for _, h := range pool[:6] {
								c.try("record", p, t, th, n, h, "closed-world", false)
							}
							for _, h := range []tlog.Hash{lg.Root(int(n + 1)), pool[0], pool[5], pool[7]} {
								c.try("tree", p, t, th, n+1, h, "closed-world", false)
							}
						}
					}
				}
			}
			r.Merge(c.l)
		})
	}
}

func Replay(r *fw.Run, raw json.RawMessage) {
	var c caseT
	json.Unmarshal(raw, &c)
	ph := func(s string) tlog.Hash { h, _ := tlog.ParseHash(s); return h }
	var p []tlog.Hash
	for _, s := range c.Proof {
		p = append(p, ph(s))
	}
	r.States.Add(1)
	r.Transitions.Add(1)
	r.Execs.Add(1)
	r.Sample(c)
	if c.Kind == "empty-proof" {
		if lg, err := tlogx.Build(tlogx.Pattern(0, 130)); err == nil {
			emptyProofs(r, lg, 130)
		}
		return
	}
	if c.Kind == "aliasing" {
		c09.Aliasing(r)
		return
	}
	if c.Kind == "overlap" {
		c09.Overlap(r)
		return
	}
	if c.Kind == "huge" {
		c09.HugeLogs(r)
		return
	}
	if c.Kind == "failing" {
		c09.FailingAppends(r)
		return
	}
	if c.Note == "honest" {
		lg, _ := tlogx.Build(tlogx.Pattern(c.Pattern, c.Size))
		var got []tlog.Hash
		var want []rfc6962.Hash
		var err error
		if c.Kind == "record" {
			got, err = tlog.ProveRecord(c.T, c.N, lg)
			want = lg.Ref.Path(int(c.N), 0, int(c.T))
		} else {
			got, err = tlog.ProveTree(c.T, c.N, lg)
			want = lg.Ref.Proof(int(c.N), int(c.T))
		}
		if err != nil || !eq(got, want) {
			r.Violation("honest", fmt.Sprintf("prover differs from RFC 6962: err=%v", err), c)
		}
		p = got
	}
	done := make(chan string, 1)
	go func() {
		defer func() {
			if e := recover(); e != nil {
				done <- fmt.Sprintf("panic: %v", e)
			}
		}()
		if c.Kind == "prover" {
			lg, _ := tlogx.Build(tlogx.Pattern(0, c.Size))
			var err error
			switch c.Note {
			case "ProveRecord(H,0)":
				_, err = tlog.ProveRecord(c.T, 0, lg)
			case "ProveRecord(H,H-1)":
				_, err = tlog.ProveRecord(c.T, c.T-1, lg)
			case "ProveTree(H,1)":
				_, err = tlog.ProveTree(c.T, 1, lg)
			case "ProveTree(H,H-1)":
				_, err = tlog.ProveTree(c.T, c.T-1, lg)
			default:
				_, err = tlog.TreeHash(c.T, lg)
			}
			if err == nil {
				done <- "succeeded although the store cannot hold such a tree"
			} else {
				done <- ""
			}
			return
		}
		msg, _ := agree(c.Kind, p, c.T, ph(c.Root), c.N, ph(c.Leaf))
		done <- msg
	}()
	select {
	case msg := <-done:
		if msg != "" {
			r.Violation("agree", msg, c)
		}
	case <-time.After(90 * time.Second):
		r.Violation("agree", "no result after 90 s (the call does not terminate)", c)
	}
}
