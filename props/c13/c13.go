// Package c13: the client follows one consistent timeline of signed tree heads.
package c13

import (
	"bytes"
	"encoding/json"
	"fmt"
	"os"
	"sort"
	"strings"
	"time"

	"golang.org/x/mod/module"
	"golang.org/x/mod/sumdb"
	"golang.org/x/mod/sumdb/tlog"

	"verif/internal/clientx"
	"verif/internal/fw"
	"verif/internal/opsenv"
	"verif/internal/world"
	"verif/props/c14"
	"verif/props/c14/scen"
)

type stepT struct {
	Rec     int    `json:"record"`
	GoMod   bool   `json:"go_mod_lines,omitempty"`
	Server  string `json:"server"` // "A", "B", "A@<size>", "B@<size>", "bogus"
	Restart bool   `json:"restart_before,omitempty"`
	// Others: so many times during this lookup another client sharing the configuration (honest server, same
	// log) stores the next head just before this client's WriteConfig, as long as that head is still older
	// than the one this lookup is served: every one of this client's writes until then is a real conflict.
	Others int `json:"other_writers_getting_in_first,omitempty"`
}

type caseT struct {
	P      int     `json:"shared_prefix"`
	A      int     `json:"size_a"`
	B      int     `json:"size_b"`
	H      int     `json:"tile_height"`
	Stored int     `json:"stored_head_size"` // -1 empty; otherwise head of A at that size
	Cache  string  `json:"cache"`            // cold | warm-tiles | warm (A) | warm-B | warm-B-lookups (written under the other server)
	Steps  []stepT `json:"steps"`
}

func (c caseT) key() string { b, _ := json.Marshal(c); return string(b) }

type ctx struct {
	p, a, b int
	A, B    *world.SignedLog
	warm    map[string]map[string][]byte
}

func newCtx(p, a, b int) *ctx {
	x := &ctx{p: p, a: a, b: b, A: world.Fork(p, a, ""), B: world.Fork(p, b, "fork-B"), warm: map[string]map[string][]byte{}}
	// the heads of log B carry a signed extension line with characters that matter to formatting code:
	// whatever reports a head must pass it on verbatim
	x.B.DefaultExtra = "operator note: 100% %s %d %!v {} \\ \u00e9\n"
	if p == 2 && a == p+1 && b == p+1 {
		// one family of worlds also carries a line longer than 64 KiB (line-oriented readers have limits)
		x.B.DefaultExtra += strings.Repeat("L", 70000) + "\n"
	}
	return x
}

func latestFile() string { return world.TheKeys().Name + "/latest" }

func (x *ctx) server(name string) (lg *world.SignedLog, size int, bogus bool) {
	switch {
	case name == "A":
		return x.A, x.a, false
	case name == "B":
		return x.B, x.b, false
	case name == "bogus":
		return x.A, x.a, true
	}
	var s int
	if n, _ := fmt.Sscanf(name, "A@%d", &s); n == 1 {
		return x.A, s, false
	}
	fmt.Sscanf(name, "B@%d", &s)
	return x.B, s, false
}

// bogusHead is a head signed by the real key whose hash matches no log.
func (x *ctx) bogusHead(size int) []byte {
	t := x.A.Tree(size)
	t.Hash[0] ^= 0xff
	if size == x.a {
		t = x.bogusTree()
	}
	return world.SignText(string(tlog.FormatTree(t)))
}

func (x *ctx) remote(name string) func(string) ([]byte, error) {
	lg, size, bogus := x.server(name)
	return func(p string) ([]byte, error) {
		d, err := lg.Serve(p, size)
		if err != nil || !bogus || !strings.HasPrefix(p, "/lookup/") {
			return d, err
		}
		id, text, _, perr := tlog.ParseRecord(d)
		if perr != nil {
			return d, err
		}
		msg, _ := tlog.FormatRecord(id, text)
		return append(msg, x.bogusHead(size)...), nil
	}
}

func (x *ctx) warmCache(h int, tilesOnly bool) map[string][]byte {
	return x.warmCacheOf("A", h, tilesOnly, false)
}

// warmCacheOf returns the cache an honest client leaves behind after looking up every record of
// one of the two logs (served by that log's server, starting from an empty stored head).
func (x *ctx) warmCacheOf(srv string, h int, tilesOnly, lookupsOnly bool) map[string][]byte {
	k := fmt.Sprintf("%s/%d/%v/%v", srv, h, tilesOnly, lookupsOnly)
	if c, ok := x.warm[k]; ok {
		return c
	}
	env := opsenv.New(world.TheKeys().Verifier)
	env.Remote = x.remote(srv)
	lg, size, _ := x.server(srv)
	var steps []clientx.Step
	for i := 0; i < size; i++ {
		steps = append(steps, clientx.Step{Path: lg.Mods[i].Path, Vers: lg.Mods[i].Version})
	}
	for _, r := range clientx.Run(env, h, steps) {
		if r.Err != nil || r.Panic != "" {
			panic(fmt.Sprintf("warm-up failed: %v %s", r.Err, r.Panic))
		}
	}
	out := map[string][]byte{}
	for f, d := range env.Cache {
		if tilesOnly && !strings.Contains(f, "/tile/") {
			continue
		}
		if lookupsOnly && !strings.Contains(f, "/lookup/") {
			continue
		}
		out[f] = d
	}
	x.warm[k] = out
	return out
}

// bogusTree is the tree of the "bogus" server: size a, a hash that matches no log.
func (x *ctx) bogusTree() tlog.Tree {
	t := x.A.Tree(x.a)
	t.Hash[0] ^= 0xff
	return t
}

// consistent reports whether all trees lie on one timeline: all are heads of log A, or all
// of log B, or all are the bogus head (consistent only with itself and the empty tree).
func (x *ctx) consistent(trees []tlog.Tree) bool {
	for _, l := range []*world.SignedLog{x.A, x.B} {
		ok := true
		for _, t := range trees {
			if int(t.N) > l.N() || l.Tree(int(t.N)) != t {
				ok = false
				break
			}
		}
		if ok {
			return true
		}
	}
	for _, t := range trees {
		if t.N != 0 && t != x.bogusTree() {
			return false
		}
	}
	return true
}

// checkConfigWrite: the new head must be validly signed by the configured key (any of the
// operator's trees qualifies here; which tree it may follow is checked by the caller).
func (x *ctx) checkConfigWrite(w opsenv.Write) (tlog.Tree, string) {
	if w.File != latestFile() {
		return tlog.Tree{}, fmt.Sprintf("WriteConfig to unexpected file %q", w.File)
	}
	t, err := clientx.OpenHead(w.Data)
	if err != nil {
		return t, fmt.Sprintf("WriteConfig stores a head that does not open under the configured key: %v", err)
	}
	if clientx.HeadOf(t, x.A, x.B) == nil && t != x.bogusTree() {
		return t, fmt.Sprintf("WriteConfig stores a head (size %d) that no server presented", t.N)
	}
	return t, ""
}

func indent(b []byte) []byte { return bytes.Replace(b, []byte("\n"), []byte("\n\t"), -1) }

type accepted struct {
	tree tlog.Tree
	msg  []byte
	how  string
}

func (x *ctx) exec(c caseT) (msg string, class string, env *opsenv.Env) {
	env = opsenv.New(world.TheKeys().Verifier)
	var acc []accepted
	if c.Stored >= 0 {
		m := x.A.Head(c.Stored, "real", "")
		env.Config[latestFile()] = m
		acc = append(acc, accepted{x.A.Tree(c.Stored), m, "initial config"})
	}
	switch c.Cache {
	case "warm-tiles":
		for k, v := range x.warmCache(c.H, true) {
			env.Cache[k] = v
		}
	case "warm":
		for k, v := range x.warmCache(c.H, false) {
			env.Cache[k] = v
		}
	case "warm-B":
		// a cache written under the other server (e.g. by another tool sharing the cache directory)
		for k, v := range x.warmCacheOf("B", c.H, false, false) {
			env.Cache[k] = v
		}
	case "warm-B-lookups":
		for k, v := range x.warmCacheOf("B", c.H, false, true) {
			env.Cache[k] = v
		}
	}
	var client *sumdb.Client
	var classes []string
	cleanSession := true
	trees := func() []tlog.Tree {
		var ts []tlog.Tree
		for _, a := range acc {
			ts = append(ts, a.tree)
		}
		return ts
	}
	for i, st := range c.Steps {
		if client == nil || st.Restart {
			client = sumdb.NewClient(env)
			client.SetTileHeight(c.H)
		}
		lg, size, bogus := x.server(st.Server)
		env.Remote = x.remote(st.Server)
		var mod world.Mod
		if st.Rec < lg.N() {
			mod = lg.Mods[st.Rec]
		} else {
			mod = world.MakeMod(st.Rec, "")
		}
		vers := mod.Version
		if st.GoMod {
			vers += "/go.mod"
		}
		env.Hook = nil
		if st.Others > 0 && !bogus {
			left := st.Others
			env.Hook = func(op, res string) {
				if op != "WriteConfig" || left == 0 {
					return
				}
				n := 1
				if cur := env.Config[latestFile()]; len(cur) > 0 {
					t, err := clientx.OpenHead(cur)
					if err != nil || int(t.N) > lg.N() || lg.Tree(int(t.N)) != t {
						return
					}
					n = int(t.N) + 1
				}
				if n >= size {
					return
				}
				left--
				m := lg.Head(n, "real", "")
				env.Config[latestFile()] = m
				acc = append(acc, accepted{lg.Tree(n), m, "config write of another client"})
			}
		}
		nCalls, nCW, nSec := len(env.Calls), len(env.ConfigWrites), len(env.Security)
		cacheBefore := map[string][]byte{}
		for k, v := range env.Cache {
			if strings.Contains(k, "/tile/") {
				cacheBefore[k] = v
			}
		}
		var lines []string
		var err error
		var pan string
		func() {
			defer func() {
				if e := recover(); e != nil {
					pan = fmt.Sprint(e)
				}
			}()
			lines, err = client.Lookup(mod.Path, vers)
		}()
		if pan != "" {
			return fmt.Sprintf("step %d panicked: %s", i, pan), "", env
		}
		// which head did this lookup consume?
		ep, _ := module.EscapePath(mod.Path)
		lpath := "/lookup/" + ep + "@" + mod.Version
		var presented *accepted
		fromNet, fromCache := false, false
		for _, call := range env.Calls[nCalls:] {
			if call == "ReadRemote "+lpath {
				fromNet = true
			}
			if call == "ReadCache "+world.TheKeys().Name+lpath {
				fromCache = true
			}
		}
		switch {
		case fromNet:
			if st.Rec < size {
				var m []byte
				var t tlog.Tree
				if bogus {
					m = x.bogusHead(size)
					t = x.A.Tree(size)
					t.Hash[0] ^= 0xff
				} else {
					m = lg.Head(size, "real", "")
					t = lg.Tree(size)
				}
				presented = &accepted{t, m, "network " + st.Server}
			}
		case fromCache:
			if d, ok := env.Cache[world.TheKeys().Name+lpath]; ok {
				if _, _, treeMsg, perr := tlog.ParseRecord(d); perr == nil && len(treeMsg) > 0 {
					if t, oerr := clientx.OpenHead(treeMsg); oerr == nil {
						presented = &accepted{t, treeMsg, "lookup cache"}
					}
				}
			}
		}
		// (i) config writes of this step
		newWrites := env.ConfigWrites[nCW:]
		okWrites := 0
		for _, w := range newWrites {
			if w.Err != nil {
				continue
			}
			okWrites++
			nt, m := x.checkConfigWrite(w)
			if m != "" {
				return fmt.Sprintf("step %d: %s", i, m), "", env
			}
			if len(w.Old) > 0 {
				ot, oerr := clientx.OpenHead(w.Old)
				if oerr != nil {
					return fmt.Sprintf("step %d: WriteConfig replaced an unreadable head", i), "", env
				}
				if nt.N < ot.N {
					return fmt.Sprintf("step %d: stored head moved backwards from size %d to %d", i, ot.N, nt.N), "", env
				}
				if !x.consistent([]tlog.Tree{ot, nt}) {
					return fmt.Sprintf("step %d: stored head moved from size %d to size %d of a tree that does not contain it", i, ot.N, nt.N), "", env
				}
			}
			acc = append(acc, accepted{nt, w.Data, "config write"})
		}
		// (ii)/(iii)
		inconsistent := presented != nil && !x.consistent(append(trees(), presented.tree))
		if inconsistent {
			if err == nil {
				return fmt.Sprintf("step %d: lookup served by %s carried a validly signed head (size %d) inconsistent with the client's timeline, yet succeeded with %q", i, presented.how, presented.tree.N, lines), "", env
			}
			if okWrites > 0 {
				return fmt.Sprintf("step %d: lookup failed on an inconsistent head but the stored head was changed", i), "", env
			}
		}
		if err == nil && presented != nil {
			acc = append(acc, *presented)
		}
		if !x.consistent(trees()) {
			return fmt.Sprintf("step %d: the set of accepted heads is not on one timeline: %v", i, describe(acc)), "", env
		}
		// (iv) security errors carry both signed heads
		isSec := err != nil && strings.Contains(err.Error(), sumdb.ErrSecurity.Error())
		if isSec {
			// the error may be replayed from the client's in-memory result cache, so the callback
			// may have happened in an earlier step: some message so far must carry both heads
			if len(env.Security) == 0 {
				return fmt.Sprintf("step %d: lookup reported %q but the SecurityError callback was never invoked", i, err), "", env
			}
			good := false
			for _, m := range env.Security {
				hasPresented := presented == nil || bytes.Contains([]byte(m), indent(presented.msg))
				own := len(acc) == 0
				for _, a := range acc {
					if bytes.Contains([]byte(m), indent(a.msg)) {
						own = true
					}
				}
				if hasPresented && own {
					good = true
				}
			}
			if !good {
				return fmt.Sprintf("step %d: no security message contains both the presented signed head and a signed head of the client's own timeline verbatim", i), "", env
			}
		} else if len(env.Security) > nSec {
			return fmt.Sprintf("step %d: SecurityError callback invoked but the lookup returned %v", i, err), "", env
		}
		// honest, up-to-date server => success with the right lines
		upToDate := presented != nil && !inconsistent && !bogus
		if upToDate {
			for _, a := range acc {
				if a.tree.N > presented.tree.N {
					upToDate = false
				}
			}
		}
		if st.Restart || i == 0 {
			cleanSession = true
		}
		if upToDate && cleanSession && fromNet && err != nil && (c.Cache == "cold" || lg == x.A) && cacheTilesOn(cacheBefore, lg) {
			return fmt.Sprintf("step %d: server %s is honest and up to date for this client, but the lookup failed: %v", i, st.Server, err), "", env
		}
		if err == nil {
			// the lines must be those of the record in a log that contains every accepted head and is
			// large enough to hold the record (the answer may come from the lookup cache of an earlier server)
			good := false
			for _, l := range []*world.SignedLog{x.A, x.B} {
				if st.Rec >= l.N() {
					continue
				}
				ts := append(trees(), l.Tree(st.Rec+1))
				onL := true
				for _, t := range ts {
					if int(t.N) > l.N() || l.Tree(int(t.N)) != t {
						onL = false
					}
				}
				if onL && strings.Join(lines, "\n") == strings.Join(l.Mods[st.Rec].Lines(st.GoMod), "\n") {
					good = true
				}
			}
			if !good {
				return fmt.Sprintf("step %d: lookup returned %q, which are not the lines of that record in a log on the client's timeline (%s)", i, lines, describe(acc)), "", env
			}
		}
		if err != nil {
			// tiles fetched during a failed lookup stay in the client's in-memory tile cache
			// (unauthenticated, re-checked on every use): later lookups of this session may fail
			cleanSession = false
		}
		switch {
		case err == nil:
			classes = append(classes, "ok")
		case isSec:
			classes = append(classes, "security")
		default:
			classes = append(classes, "err")
		}
		for _, w := range env.CacheWrites {
			if m := clientx.CheckCacheWrite(w, x.A, x.B); m != "" {
				return fmt.Sprintf("step %d: %s", i, m), "", env
			}
		}
	}
	return "", strings.Join(classes, ","), env
}

// cacheTilesOn reports whether every tile in the on-disk cache is a true tile of log lg. A tile
// written while an equivocating server was being checked is authenticated against that server's
// signed head and stays in the cache; the property promises nothing about lookups that read it
// later (an honest server with an honest cache never fails: C01).
func cacheTilesOn(cache map[string][]byte, lg *world.SignedLog) bool {
	for k, v := range cache {
		i := strings.Index(k, "/tile/")
		d, err := lg.Serve(k[i:], lg.N())
		if err != nil || !bytes.Equal(d, v) {
			return false
		}
	}
	return true
}

func describe(acc []accepted) string {
	var s []string
	for _, a := range acc {
		s = append(s, fmt.Sprintf("%s: size %d %s", a.how, a.tree.N, a.tree.Hash.String()[:8]))
	}
	return strings.Join(s, "; ")
}

func histories(x *ctx, maxSteps int) [][]stepT {
	servers := []string{"A", "B"}
	if x.a > x.p+1 {
		servers = append(servers, fmt.Sprintf("A@%d", x.p+1))
	}
	if x.p >= 1 {
		servers = append(servers, fmt.Sprintf("B@%d", x.p))
	}
	servers = append(servers, "bogus")
	recs := map[int]bool{0: true}
	if x.p > 0 {
		recs[x.p-1] = true
	}
	recs[x.p] = true // first divergent record (exists in a log only if its size > p)
	var recl []int
	for r := range recs {
		recl = append(recl, r)
	}
	sort.Ints(recl)
	var one []stepT
	for _, s := range servers {
		for _, r := range recl {
			size := 0
			switch {
			case s == "A" || s == "bogus":
				size = x.a
			case s == "B":
				size = x.b
			default:
				fmt.Sscanf(s[2:], "%d", &size)
			}
			if r >= size {
				continue
			}
			one = append(one, stepT{Rec: r, Server: s})
		}
	}
	var out [][]stepT
	var rec func(cur []stepT)
	rec = func(cur []stepT) {
		if len(cur) > 0 {
			out = append(out, append([]stepT(nil), cur...))
		}
		if len(cur) == maxSteps {
			return
		}
		for _, s := range one {
			for _, restart := range []bool{false, true} {
				if len(cur) == 0 && restart {
					continue
				}
				s.Restart = restart
				s.GoMod = len(cur) == 1
				rec(append(cur, s))
			}
		}
	}
	rec(nil)
	return out
}

// FirstCalls is the menu of the fresh-process call-order check: whole histories against forked logs.
func FirstCalls() []fw.Call {
	var out []fw.Call
	for i, c := range []caseT{
		{P: 3, A: 5, B: 4, H: 2, Stored: 3, Cache: "cold", Steps: []stepT{{Rec: 0, Server: "A"}, {Rec: 3, Server: "B"}}},
		{P: 2, A: 3, B: 3, H: 1, Stored: -1, Cache: "cold", Steps: []stepT{{Rec: 1, Server: "B"}, {Rec: 2, Server: "A", Restart: true}}},
		{P: 3, A: 4, B: 5, H: 1, Stored: 4, Cache: "warm", Steps: []stepT{{Rec: 2, GoMod: true, Server: "B@4"}}},
		{P: 1, A: 3, B: 2, H: 2, Stored: 1, Cache: "cold", Steps: []stepT{{Rec: 0, Server: "bogus"}, {Rec: 0, Server: "A"}}},
	} {
		i, c := i, c
		out = append(out, fw.Call{Name: fmt.Sprintf("history-%d", i), F: func() string {
			msg, class, env := newCtx(c.P, c.A, c.B).exec(c)
			return fmt.Sprint(msg, "|", class, "|", len(env.Security), len(env.ConfigWrites))
		}})
	}
	return out
}

func Run(r *fw.Run) {
	defer fw.FirstCallOrders(r, r.ID, FirstCalls(), nil)
	pmax := r.Pick(3, 5)
	extra := r.Pick(2, 3)
	maxSteps := r.Pick(2, 3)
	heights := []int{1, 2}
	if r.Thorough() {
		heights = []int{1, 2, 3}
	}
	r.Bounds["shared_prefix"] = fmt.Sprintf("0..%d", pmax)
	r.Bounds["sizes"] = fmt.Sprintf("a,b in p..p+%d", extra)
	r.Bounds["heights"] = heights
	r.Bounds["max_steps"] = maxSteps
	r.Bounds["servers"] = "A (full), B (full), A@p+1, B@p, bogus (real-key head matching no log)"
	r.Rule = "state = (shared prefix p, sizes a and b of two logs both signed by the real key, tile height, stored head, cache state, history so far); transition = one lookup (record in the shared prefix or the first divergent one) served by one of the servers, optionally after a client restart; every history up to max_steps is executed on the real client with monitors on WriteConfig, SecurityError and results. non-trivial = history in which at least one presented head is inconsistent with the client's timeline. outcome = per-step ok/err/security"
	r.Assume = []string{"both forks are signed by the configured key (misbehaving operator)", "a lookup depends on a presented head only if this Lookup call consumed it from the network or the lookup cache (DESIGN 7)"}
	type job struct{ p, a, b int }
	var jobs []job
	for p := 0; p <= pmax; p++ {
		for a := p; a <= p+extra; a++ {
			for b := p; b <= p+extra; b++ {
				if a == 0 {
					continue
				}
				jobs = append(jobs, job{p, a, b})
			}
		}
	}
	sort.SliceStable(jobs, func(i, j int) bool { return jobs[i].a+jobs[i].b > jobs[j].a+jobs[j].b })
	fw.Parallel(len(jobs), func(i int) {
		j := jobs[i]
		x := newCtx(j.p, j.a, j.b)
		l := fw.NewLocal()
		hs := histories(x, maxSteps)
		stored := map[int]bool{-1: true, j.p: true, j.a: true}
		if j.a > j.p+1 {
			stored[j.p+1] = true
		}
		var sl []int
		for s := range stored {
			sl = append(sl, s)
		}
		sort.Ints(sl)
		for _, h := range heights {
			for _, s0 := range sl {
				for _, cache := range []string{"cold", "warm-tiles", "warm", "warm-B", "warm-B-lookups"} {
					if strings.HasPrefix(cache, "warm-B") && j.b == 0 {
						continue
					}
					for _, steps := range hs {
						if r.Failed() {
							return
						}
						c := caseT{P: j.p, A: j.a, B: j.b, H: h, Stored: s0, Cache: cache, Steps: steps}
						msg, class, env := x.exec(c)
						l.States++
						l.Transitions++
						l.Execs++
						if strings.Contains(class, "security") || strings.Contains(class, "err") {
							l.Nontrivial++
						}
						if msg != "" {
							// determinism: replay twice
							for k := 0; k < 2; k++ {
								m2, _, e2 := x.exec(c)
								if m2 != msg || e2.Observation() != env.Observation() {
									panic("harness nondeterminism on " + c.key())
								}
							}
							l.Outcomes["VIOLATION"]++
							r.Violation(c.key(), msg, c)
							continue
						}
						l.Outcomes[class]++
					}
				}
			}
		}
		r.Merge(l)
	})
	r.Sample(caseT{P: 2, A: 4, B: 4, H: 2, Stored: 4, Cache: "cold", Steps: []stepT{{Rec: 0, Server: "B"}, {Rec: 2, Server: "A", Restart: true}}})
	contendedWrites(r)

	// schedules: two clients sharing one compare-and-swap configuration, fed by forked servers or by
	// one server at different sizes, under the controlled scheduler (engine E4, see C14)
	if os.Getenv("VERIF_BIN") != "" {
		cfgs := []c14.Config{{Gran: "ops", Mode: "deviations", Bound: 2, Only: nil}, {Gran: "sync", Mode: "deviations", Bound: 1, Only: nil}, {Gran: "ops", Mode: "preemptions", Bound: 1, Only: c14.Small}, {Gran: "ops", Mode: "deviations", Bound: 3, Only: c14.Compact}}
		per, tot := 60*time.Second, 120*time.Second
		if r.Thorough() {
			cfgs = []c14.Config{{Gran: "ops", Mode: "deviations", Bound: 3, Only: nil}, {Gran: "sync", Mode: "deviations", Bound: 2, Only: nil}, {Gran: "ops", Mode: "preemptions", Bound: 2, Only: c14.Small}, {Gran: "ops", Mode: "deviations", Bound: 4, Only: c14.Compact}}
			per, tot = 15*time.Minute, 25*time.Minute
		}
		r.Bounds["schedule_scenarios"] = "fork-two-clients, fork-two-clients-empty-config, fork-one-client-two-threads (one equivocating server, the log chosen per goroutine), same-log-different-sizes, three-heads-one-client-h8, three-heads-crossing-ten, and the other fork scenarios of scen.ForkScenarios"
		r.Bounds["schedule_configurations"] = fmt.Sprint(cfgs)
		scs := scen.ForkScenarios()
		for _, n := range []string{"three-heads-one-client-h8", "three-heads-crossing-ten"} {
			if t, ok := scen.Find(n); ok {
				scs = append(scs, t)
			}
		}
		c14.RunSchedules(r, scs, cfgs, per, tot)
	}
}

// contendedWrites: a lookup whose every configuration write meets a real conflict k times in a row (another
// client stores the next, still older head first), for every k the log allows; afterwards the same or a
// restarted client is shown the other log. However many conflicts there were, what the client accepted is
// what the next client starts from.
func contendedWrites(r *fw.Run) {
	type world struct{ p, a, b int }
	ws := []world{{13, 15, 16}, {34, 36, 36}}
	if r.Thorough() {
		ws = append(ws, world{66, 67, 69}, world{130, 133, 131})
	}
	r.Bounds["contended_config_writes"] = fmt.Sprintf("worlds (p,a,b) %v x heights 2,3 x stored head {none, 1} x every count of consecutive write conflicts 0..a-2 x 4 continuations", ws)
	fw.Parallel(len(ws)*2, func(i int) {
		w, h := ws[i/2], 2+i%2
		x := newCtx(w.p, w.a, w.b)
		l := fw.NewLocal()
		defer r.Merge(l)
		for _, stored := range []int{-1, 1} {
			for k := 0; k <= w.a-2; k++ {
				first := stepT{Rec: w.a - 1, Server: "A", Others: k}
				for _, rest := range [][]stepT{
					{{Rec: w.b - 1, Server: "B", Restart: true}},
					{{Rec: w.a - 2, Server: "A"}, {Rec: w.b - 1, Server: "B", Restart: true}},
					{{Rec: w.b - 1, Server: "B"}},
					{{Rec: 0, Server: "A", Restart: true, Others: 1}, {Rec: w.p, Server: "B", Restart: true}},
				} {
					c := caseT{P: w.p, A: w.a, B: w.b, H: h, Stored: stored, Cache: "cold", Steps: append([]stepT{first}, rest...)}
					msg, class, env := x.exec(c)
					l.States++
					l.Transitions += int64(len(c.Steps))
					l.Execs++
					if k > 0 {
						// the conflicts must have happened
						n := 0
						for _, cw := range env.ConfigWrites {
							if cw.Err != nil {
								n++
							}
						}
						if n >= k || n >= w.a-2 {
							l.Nontrivial++
						}
					}
					if msg != "" {
						l.Outcomes["VIOLATION"]++
						r.Violation(c.key(), msg, c)
						continue
					}
					l.Outcomes["contended:"+class]++
				}
			}
		}
	})
}

func Replay(r *fw.Run, raw json.RawMessage) {
	// a schedule of one of the fork scenarios (engine E4) is replayed by the scheduler worker
	var probe struct {
		Scenario string `json:"scenario"`
	}
	if json.Unmarshal(raw, &probe) == nil && probe.Scenario != "" {
		c14.Replay(r, raw)
		return
	}
	var c caseT
	if err := json.Unmarshal(raw, &c); err != nil {
		r.Violation("replay", err.Error(), nil)
		return
	}
	x := newCtx(c.P, c.A, c.B)
	msg, _, _ := x.exec(c)
	r.States.Add(1)
	r.Transitions.Add(1)
	r.Execs.Add(1)
	r.Sample(c)
	if msg != "" {
		r.Violation(c.key(), msg, c)
	}
}
