// Package c16: bulk requirement and use setters produce exactly the requested set.
package c16

import (
	"encoding/json"
	"fmt"
	"regexp"
	"sort"
	"strconv"
	"strings"
	"sync"

	"golang.org/x/mod/modfile"
	"golang.org/x/mod/module"

	"verif/internal/enum"
	"verif/internal/fw"
	"verif/internal/ref/semverref"
)

type caseT struct {
	Work    bool   `json:"go_work"`
	Seed    string `json:"seed_text"`
	Setter  string `json:"setter"`
	Request string `json:"request"` // "a.com/x@v1.0.0!,..." ('!' = indirect) or "./a,./b" for SetUse
	// Alias: the request list reuses the file's own *Require values (first entry of each requested path,
	// edited in place) instead of freshly allocated ones.
	Alias bool `json:"request_reuses_file_entries,omitempty"`
	// Then: a second request applied to the same File right after the first (either setter: "SR:<request>"
	// or "SRSI:<request>"); the oracle then judges the file against this second request.
	Then string `json:"then,omitempty"`
	// Raw: the setter is called on the file as parsed, without a Cleanup first (which would already have
	// dropped empty blocks and collapsed blocks of one line).
	Raw bool `json:"no_cleanup_before_the_call,omitempty"`
}

func (c caseT) key() string {
	k := c.Setter + "|" + c.Request + "|" + c.Seed
	if c.Alias {
		k = "alias|" + k
	}
	if c.Raw {
		k = "raw|" + k
	}
	if c.Then != "" {
		k = "then " + c.Then + "|" + k
	}
	return k
}

var paths = []string{"a.com/x", "b.com/y", "c.com/z"}

type lineSpec struct {
	path   int
	suffix int // 0 none, 1 "// indirect", 2 "// indirect; n<i>", 3 "// s<i>"
	before bool
}

// seeds enumerates requirement layouts: k lines over 3 paths, split into <= 2 statements.
func seeds(kmax int, goVers []string, full, lean bool) []string {
	var out []string
	for k := 0; k <= kmax; k++ {
		dims := []int{}
		for i := 0; i < k; i++ {
			dims = append(dims, 3, 4, 2)
		}
		if k == 0 {
			dims = []int{1}
		}
		enum.Product(dims, func(ix []int) {
			var ls []lineSpec
			for i := 0; i < k; i++ {
				ls = append(ls, lineSpec{ix[3*i], ix[3*i+1], ix[3*i+2] == 1})
			}
			if lean {
				for i, l := range ls {
					if l.before && i > 0 {
						return // lean space: a leading comment only on the first line
					}
				}
			}
			if !full && k == 3 {
				// reduced: at most one "before" comment
				nb := 0
				for _, l := range ls {
					if l.before {
						nb++
					}
				}
				if nb > 1 {
					return
				}
			}
			render := func(i int, l lineSpec, inBlock bool) string {
				var b strings.Builder
				ind := ""
				if inBlock {
					ind = "\t"
				}
				if l.before {
					fmt.Fprintf(&b, "%s// b%d\n", ind, i)
				}
				if !inBlock {
					b.WriteString("require ")
				}
				fmt.Fprintf(&b, "%s%s v1.%d.0", ind, paths[l.path], i)
				switch l.suffix {
				case 1:
					b.WriteString(" // indirect")
				case 2:
					fmt.Fprintf(&b, " // indirect; n%d", i)
				case 3:
					fmt.Fprintf(&b, " // s%d", i)
				}
				b.WriteString("\n")
				return b.String()
			}
			stmt := func(from, to int, block, commented bool) string {
				if from == to {
					return ""
				}
				var b strings.Builder
				if commented {
					b.WriteString("// blk\n")
				}
				if !block && to-from == 1 {
					if commented {
						// a commented single line: the comment attaches to the line
					}
					b.WriteString(render(from, ls[from], false))
				} else {
					b.WriteString("require (\n")
					for i := from; i < to; i++ {
						b.WriteString(render(i, ls[i], true))
					}
					b.WriteString(")\n")
				}
				b.WriteString("\n")
				return b.String()
			}
			for split := 0; split <= k; split++ {
				if k > 0 && split == 0 {
					continue // same as split == k with one statement; keep one form
				}
				for _, b1 := range []bool{false, true} {
					for _, b2 := range []bool{false, true} {
						for _, c1 := range []bool{false, true} {
							for _, between := range []bool{false, true} {
								if split == k && (b2 || between) {
									continue
								}
								if split != 1 && !b1 && split > 0 {
									if split > 1 {
										continue // multi-line statement must be a block
									}
								}
								if k-split > 1 && !b2 {
									continue
								}
								if k-split == 0 && b2 {
									continue
								}
								if !full && c1 && between {
									continue
								}
								if lean && (c1 && split != k || between && b2) {
									continue
								}
								for _, gv := range goVers {
									var sb strings.Builder
									sb.WriteString("module example.com/m\n\ngo " + gv + "\n\n")
									sb.WriteString(stmt(0, split, b1 || split > 1, c1))
									if between {
										sb.WriteString("replace d.com/w => ../w\n\n")
									}
									sb.WriteString(stmt(split, k, b2 || k-split > 1, false))
									sb.WriteString("exclude (\n\tb.com/y v1.0.0\n\ta.com/x v1.10.0\n\ta.com/x v1.9.0\n\ta.com/x v1.9.0-pre\n\ta.com/x v2.0.0+incompatible\n)\n\nretract (\n\tv1.0.0\n\t[v1.1.0, v1.2.0]\n\tv1.3.0\n\t[v1.1.0, v1.4.0]\n\tv1.3.0-rc.1\n)\n\nreplace (\n\tz.com/z => ../z\n\ta.com/x v1.0.0 => b.com/y v1.0.0\n\ta.com/x => ../a\n)\n")
									out = append(out, sb.String())
								}
							}
						}
					}
				}
			}
		})
	}
	// dedupe
	seen := map[string]bool{}
	var uniq []string
	for _, s := range out {
		if !seen[s] {
			seen[s] = true
			uniq = append(uniq, s)
		}
	}
	return uniq
}

func requests() []string {
	var out []string
	opts := []string{"", "@v1.0.0", "@v1.0.0!", "@v1.7.0", "@v1.7.0!"}
	enum.Product([]int{5, 5, 5}, func(ix []int) {
		var parts []string
		for i, o := range ix {
			if opts[o] != "" {
				parts = append(parts, paths[i]+opts[o])
			}
		}
		out = append(out, strings.Join(parts, ","))
	})
	return out
}

func parseReq(spec string) []*modfile.Require {
	var out []*modfile.Require
	if spec == "" {
		return out
	}
	for _, s := range strings.Split(spec, ",") {
		ind := strings.HasSuffix(s, "!")
		s = strings.TrimSuffix(s, "!")
		p, v, _ := strings.Cut(s, "@")
		out = append(out, &modfile.Require{Mod: module.Version{Path: p, Version: v}, Indirect: ind})
	}
	return out
}

// markers of the first seed line for each path: before comment and suffix marker text.
type marks struct{ before, suffix string }

func firstMarkers(f *modfile.File) map[string]marks {
	m := map[string]marks{}
	for _, r := range f.Require {
		if _, ok := m[r.Mod.Path]; ok {
			continue
		}
		var mk marks
		for _, c := range r.Syntax.Before {
			if strings.HasPrefix(c.Token, "// b") {
				mk.before = c.Token
			}
		}
		if len(r.Syntax.Suffix) > 0 {
			t := strings.TrimSpace(strings.TrimPrefix(r.Syntax.Suffix[0].Token, "//"))
			if f := strings.Fields(t); len(f) == 1 && f[0] == "indirect" {
				t = ""
			} else if len(f) > 1 && f[0] == "indirect;" {
				t = strings.TrimSpace(strings.TrimPrefix(t, "indirect;"))
			}
			mk.suffix = t
		}
		m[r.Mod.Path] = mk
	}
	return m
}

func lineLessRef(a, b []string) bool {
	for k := 0; k < len(a) && k < len(b); k++ {
		if a[k] != b[k] {
			return a[k] < b[k]
		}
	}
	return len(a) < len(b)
}

func semverCmp(a, b string) int { return semverref.Compare(semverref.Parse(a), semverref.Parse(b)) }

const knownExcludeClass = "class:exclude-order-go-prerelease-after-1.21|"

var goVerRE = regexp.MustCompile(`^1\.([0-9]+)(\.[0-9]+)?((?:rc|beta|alpha)[0-9]+)?$`)

// goFrom121 tells whether a go directive version is go 1.21 or later in Go's own version order
// (1.21rc1 and 1.21beta1 precede 1.21; 1.22rc1 follows it), and whether it is a pre-release of a
// version after 1.21.
func goFrom121(v string) (from, prereleaseAfter bool) {
	m := goVerRE.FindStringSubmatch(v)
	if m == nil {
		return false, false
	}
	minor, _ := strconv.Atoi(m[1])
	switch {
	case minor > 21:
		return true, m[3] != ""
	case minor == 21:
		// pre-releases of 1.21 itself: "from go 1.21" can be read either way (Go's own order puts
		// 1.21rc1 after the language version 1.21, the toolchain order before the release 1.21.0),
		// so either order is accepted for them: see blocksOrdered
		return m[3] == "", false
	}
	return false, false
}

func pre121(v string) bool {
	m := goVerRE.FindStringSubmatch(v)
	return m != nil && m[1] == "21" && m[3] != ""
}

// blocksOrdered checks the documented order of every block of the formatted file.
func blocksOrdered(fs *modfile.FileSyntax, goVersion string) string {
	semExclude, prereleaseAfter := goFrom121(goVersion)
	for _, st := range fs.Stmt {
		b, ok := st.(*modfile.LineBlock)
		if !ok {
			continue
		}
		for i := 0; i+1 < len(b.Line); i++ {
			x, y := b.Line[i].Token, b.Line[i+1].Token
			bad := false
			switch {
			case b.Token[0] == "retract":
				iv := func(t []string) (string, string) {
					if len(t) == 1 {
						return t[0], t[0]
					}
					return t[1], t[3]
				}
				xl, xh := iv(x)
				yl, yh := iv(y)
				if c := semverCmp(xl, yl); c < 0 || c == 0 && semverCmp(xh, yh) < 0 {
					bad = true
				}
			case b.Token[0] == "exclude" && semExclude && len(x) == 2 && len(y) == 2:
				if x[0] > y[0] || x[0] == y[0] && semverCmp(x[1], y[1]) > 0 {
					bad = true
				}
			default:
				if lineLessRef(y, x) {
					bad = true
				}
			}
			if b.Token[0] == "exclude" && pre121(goVersion) && len(x) == 2 && len(y) == 2 {
				// either documented order, but one of them consistently (checked per adjacent pair against both)
				lexOK := !lineLessRef(y, x)
				semOK := !(x[0] > y[0] || x[0] == y[0] && semverCmp(x[1], y[1]) > 0)
				bad = !lexOK && !semOK
			}
			if bad && b.Token[0] == "exclude" && prereleaseAfter && !lineLessRef(y, x) {
				// a go line such as "go 1.22rc1" is later than go 1.21, yet the block is in lexical order
				return knownExcludeClass + fmt.Sprintf("exclude block out of documented order for go %s (a release candidate later than go 1.21): %q before %q", goVersion, x, y)
			}
			if bad {
				return fmt.Sprintf("%s block out of documented order: %q before %q", b.Token[0], x, y)
			}
		}
	}
	return ""
}

func runMod(c caseT) (msg string, out string) {
	f, err := modfile.Parse("go.mod", []byte(c.Seed), nil)
	if err != nil {
		return "seed does not parse: " + err.Error(), ""
	}
	mk := firstMarkers(f)
	// "the file's only requirements are one uncommented line or block"
	nReq := 0
	uncommented := false
	for _, st := range f.Syntax.Stmt {
		var tok []string
		var com *modfile.Comments
		switch st := st.(type) {
		case *modfile.Line:
			tok, com = st.Token, &st.Comments
		case *modfile.LineBlock:
			tok, com = st.Token, &st.Comments
		default:
			continue
		}
		if len(tok) > 0 && tok[0] == "require" {
			nReq++
			uncommented = len(com.Before) == 0 && len(com.After) == 0 && (len(com.Suffix) == 0 || len(com.Suffix) == 1 && strings.TrimSpace(strings.TrimPrefix(com.Suffix[0].Token, "//")) == "indirect")
		}
	}
	oneFlat := nReq == 1 && uncommented
	req := parseReq(c.Request)
	func() {
		defer func() {
			if e := recover(); e != nil {
				msg = fmt.Sprintf("%s panicked: %v", c.Setter, e)
			}
		}()
		if !c.Raw {
			f.Cleanup()
		}
		if c.Alias {
			for i, rq := range req {
				for _, own := range f.Require {
					if own.Mod.Path == rq.Mod.Path {
						own.Mod.Version, own.Indirect = rq.Mod.Version, rq.Indirect
						req[i] = own
						break
					}
				}
			}
		}
		// the request is a window of a longer array: what lies behind its end belongs to the caller
		padReq := &modfile.Require{Mod: module.Version{Path: "sentinel.example/pad", Version: "v9.9.9"}}
		reqW, intact := enum.Spare(req, padReq, 3)
		if c.Setter == "SetRequire" {
			f.SetRequire(reqW)
		} else {
			f.SetRequireSeparateIndirect(reqW)
		}
		if !intact() || padReq.Mod.Path != "sentinel.example/pad" || padReq.Syntax != nil {
			msg = c.Setter + " wrote into the caller's array behind the end of the request list"
			return
		}
		f.Cleanup()
		if c.Then != "" {
			// comments are only promised for lines kept by both calls
			first := map[string]bool{}
			for _, rq := range req {
				first[rq.Mod.Path] = true
			}
			for p := range mk {
				if !first[p] {
					delete(mk, p)
				}
			}
			kind, spec, _ := strings.Cut(c.Then, ":")
			req = parseReq(spec)
			if kind == "SR" {
				f.SetRequire(req)
			} else {
				f.SetRequireSeparateIndirect(req)
			}
			f.Cleanup()
			oneFlat = false // the block-separation clause speaks about a freshly read file
		}
	}()
	if msg != "" {
		return msg, ""
	}
	b, err := f.Format()
	if err != nil {
		return "Format failed: " + err.Error(), ""
	}
	out = string(b)
	g, err := modfile.Parse("go.mod", b, nil)
	if err != nil {
		return fmt.Sprintf("output does not parse strictly: %v\n%s", err, out), out
	}
	// exactly the requested set, in the file and in f.Require
	want := map[string]*modfile.Require{}
	for _, r := range req {
		want[r.Mod.Path] = r
	}
	check := func(where string, list []*modfile.Require) string {
		seen := map[string]bool{}
		for _, r := range list {
			w, ok := want[r.Mod.Path]
			if !ok {
				return fmt.Sprintf("%s has a requirement on %s which was not requested", where, r.Mod.Path)
			}
			if seen[r.Mod.Path] {
				return fmt.Sprintf("%s has more than one requirement on %s", where, r.Mod.Path)
			}
			seen[r.Mod.Path] = true
			if r.Mod.Version != w.Mod.Version || r.Indirect != w.Indirect {
				return fmt.Sprintf("%s: %s is %s indirect=%v, requested %s indirect=%v", where, r.Mod.Path, r.Mod.Version, r.Indirect, w.Mod.Version, w.Indirect)
			}
		}
		for p := range want {
			if !seen[p] {
				return fmt.Sprintf("%s lacks the requested requirement on %s", where, p)
			}
		}
		return ""
	}
	if m := check("formatted file", g.Require); m != "" {
		return m + "\n" + out, out
	}
	if m := check("File.Require", f.Require); m != "" {
		return m + "\n" + out, out
	}
	gv := ""
	if g.Go != nil {
		gv = g.Go.Version
	}
	if m := blocksOrdered(g.Syntax, gv); m != "" {
		return m + "\n" + out, out
	}
	// comments of kept lines survive
	for _, r := range g.Require {
		m, ok := mk[r.Mod.Path]
		if !ok {
			continue
		}
		if m.before != "" {
			found := false
			for _, c := range r.Syntax.Before {
				if c.Token == m.before {
					found = true
				}
			}
			if !found {
				return fmt.Sprintf("leading comment %q of the kept requirement on %s was lost\n%s", m.before, r.Mod.Path, out), out
			}
		}
		if m.suffix != "" {
			if len(r.Syntax.Suffix) == 0 || !strings.Contains(r.Syntax.Suffix[0].Token, m.suffix) {
				return fmt.Sprintf("end-of-line comment %q of the kept requirement on %s was lost\n%s", m.suffix, r.Mod.Path, out), out
			}
		}
	}
	// separate blocks
	if c.Setter == "SetRequireSeparateIndirect" && oneFlat {
		for _, st := range g.Syntax.Stmt {
			if b, ok := st.(*modfile.LineBlock); ok && b.Token[0] == "require" {
				d, i := 0, 0
				for _, l := range b.Line {
					// the documented marker: the comment's first field is "indirect" (alone) or "indirect;"
					ind := false
					if len(l.Suffix) > 0 {
						f := strings.Fields(strings.TrimPrefix(l.Suffix[0].Token, "//"))
						ind = len(f) == 1 && f[0] == "indirect" || len(f) > 1 && f[0] == "indirect;"
					}
					if ind {
						i++
					} else {
						d++
					}
				}
				if d > 0 && i > 0 {
					return fmt.Sprintf("one flat uncommented requirement statement, but the result mixes direct and indirect requirements in one block\n%s", out), out
				}
			}
		}
	}
	return "", out
}

// ---------------------------------------------------------------- go.work

func workSeeds(kmax int) []string {
	ups := []string{"./a", "./b", "./dir with space"}
	var out []string
	for k := 0; k <= kmax; k++ {
		dims := []int{}
		for i := 0; i < k; i++ {
			dims = append(dims, 3, 2)
		}
		if k == 0 {
			dims = []int{1}
		}
		enum.Product(dims, func(ix []int) {
			for split := 0; split <= k; split++ {
				if k > 0 && split == 0 {
					continue
				}
				var sb strings.Builder
				sb.WriteString("go 1.21\n\n")
				stmt := func(from, to int) {
					if from == to {
						return
					}
					line := func(i int, inBlock bool) {
						p := modfile.AutoQuote(ups[ix[2*i]])
						if inBlock {
							sb.WriteString("\t")
						} else {
							sb.WriteString("use ")
						}
						sb.WriteString(p)
						if ix[2*i+1] == 1 {
							fmt.Fprintf(&sb, " // s%d", i)
						}
						sb.WriteString("\n")
					}
					if to-from == 1 {
						line(from, false)
					} else {
						sb.WriteString("use (\n")
						for i := from; i < to; i++ {
							line(i, true)
						}
						sb.WriteString(")\n")
					}
					sb.WriteString("\n")
				}
				stmt(0, split)
				stmt(split, k)
				out = append(out, sb.String())
			}
		})
	}
	return out
}

func runWork(c caseT) (msg, out string) {
	w, err := modfile.ParseWork("go.work", []byte(c.Seed), nil)
	if err != nil {
		return "seed does not parse: " + err.Error(), ""
	}
	// suffix marker of the first use line per path
	mk := map[string]string{}
	for _, u := range w.Use {
		if _, ok := mk[u.Path]; !ok {
			mk[u.Path] = ""
			if len(u.Syntax.Suffix) > 0 {
				mk[u.Path] = u.Syntax.Suffix[0].Token
			}
		}
	}
	var req []*modfile.Use
	want := map[string]bool{}
	if c.Request != "" {
		for _, p := range strings.Split(c.Request, ",") {
			req = append(req, &modfile.Use{Path: p})
			want[p] = true
		}
	}
	func() {
		defer func() {
			if e := recover(); e != nil {
				msg = fmt.Sprintf("SetUse panicked: %v", e)
			}
		}()
		w.Cleanup()
		padUse := &modfile.Use{Path: "./sentinel-pad"}
		reqW, intact := enum.Spare(req, padUse, 3)
		w.SetUse(reqW)
		if !intact() || padUse.Path != "./sentinel-pad" || padUse.Syntax != nil {
			msg = "SetUse wrote into the caller's array behind the end of the request list"
			return
		}
		w.Cleanup()
	}()
	if msg != "" {
		return msg, ""
	}
	out = string(modfile.Format(w.Syntax))
	g, err := modfile.ParseWork("go.work", []byte(out), nil)
	if err != nil {
		return fmt.Sprintf("output does not parse: %v\n%s", err, out), out
	}
	check := func(where string, list []*modfile.Use) string {
		seen := map[string]bool{}
		for _, u := range list {
			if !want[u.Path] {
				return fmt.Sprintf("%s has use %q which was not requested", where, u.Path)
			}
			if seen[u.Path] {
				return fmt.Sprintf("%s has more than one use directive for %q", where, u.Path)
			}
			seen[u.Path] = true
		}
		for p := range want {
			if !seen[p] {
				return fmt.Sprintf("%s lacks the requested use %q", where, p)
			}
		}
		return ""
	}
	if m := check("formatted file", g.Use); m != "" {
		return m + "\n" + out, out
	}
	if m := check("WorkFile.Use", w.Use); m != "" {
		return m + "\n" + out, out
	}
	if m := blocksOrdered(g.Syntax, ""); m != "" {
		return m + "\n" + out, out
	}
	for _, u := range g.Use {
		if s := mk[u.Path]; s != "" {
			if len(u.Syntax.Suffix) == 0 || u.Syntax.Suffix[0].Token != s {
				return fmt.Sprintf("end-of-line comment %q of the kept use %q was lost\n%s", s, u.Path, out), out
			}
		}
	}
	return "", out
}

// smallBlock reports whether the seed has a block of no or one line (what a Cleanup before the call changes).
var smallBlockMemo sync.Map

func smallBlock(seed string) bool {
	if v, ok := smallBlockMemo.Load(seed); ok {
		return v.(bool)
	}
	res := false
	if f, err := modfile.Parse("go.mod", []byte(seed), nil); err == nil {
		for _, st := range f.Syntax.Stmt {
			if b, ok := st.(*modfile.LineBlock); ok && len(b.Line) <= 1 {
				res = true
			}
		}
	}
	smallBlockMemo.Store(seed, res)
	return res
}

func runCase(c caseT) (string, string) {
	if c.Work {
		return runWork(c)
	}
	return runMod(c)
}

// FirstCalls is the menu of the fresh-process call-order check.
func FirstCalls() []fw.Call {
	var out []fw.Call
	seed := "module example.com/m\n\ngo 1.21\n\nrequire (\n\ta.com/x v1.0.0 // indirect; s1\n\tb.com/y v1.0.0 // s2\n)\n\nexclude (\n\tc.com/z v1.10.0\n\tc.com/z v1.9.0\n)\n"
	for _, c := range []caseT{
		{Seed: seed, Setter: "SetRequire", Request: "a.com/x@v1.1.0,c.com/z@v1.0.0!"},
		{Seed: seed, Setter: "SetRequireSeparateIndirect", Request: "a.com/x@v1.1.0,c.com/z@v1.0.0!"},
		{Seed: seed, Setter: "SetRequireSeparateIndirect", Request: ""},
		{Seed: "module example.com/m\n\nrequire a.com/x v1.0.0\n", Setter: "SetRequire", Request: "b.com/y@v1.0.0", Then: "SRSI:a.com/x@v1.0.0!"},
		{Work: true, Seed: "go 1.21\n\nuse (\n\t./a // s1\n\t./b\n)\n", Setter: "SetUse", Request: "./b,./c"},
		{Work: true, Seed: "go 1.21\n", Setter: "SetUse", Request: "./a"},
	} {
		c := c
		out = append(out, fw.Call{Name: c.Setter + "(" + c.Request + ")" + c.Then, F: func() string {
			msg, text := runCase(c)
			return msg + "|" + text
		}})
	}
	return out
}

func Run(r *fw.Run) {
	defer fw.FirstCallOrders(r, r.ID, FirstCalls(), nil)
	kmax := r.Pick(2, 3)
	var sds []string
	if r.Thorough() {
		// thorough: all options for <= 2 lines (both go versions) plus every 3-line layout with at most one
		// leading comment (go 1.21); the full 3-line space (518k seeds x 250 calls) takes ~30 min and adds
		// only more combinations of comments on the same shapes
		sds = seeds(2, []string{"1.20", "1.21"}, true, false)
		sds = append(sds, seeds(3, []string{"1.21"}, false, false)...)
		seenSeed := map[string]bool{}
		var uniq []string
		for _, s := range sds {
			if !seenSeed[s] {
				seenSeed[s] = true
				uniq = append(uniq, s)
			}
		}
		sds = uniq
	} else {
		// quick: the complete lean space of <= 2 lines (go 1.21; 1.20 for the single-line layouts)
		sds = seeds(2, []string{"1.21"}, false, true)
		sds = append(sds, seeds(1, []string{"1.20"}, false, true)...)
	}
	// the go version boundary of the exclude order: single-line layouts under every kind of go line
	sds = append(sds, seeds(1, []string{"1.3", "1.9", "1.20.14", "1.21rc1", "1.21beta1", "1.21.0", "1.22rc1", "1.22.3", "1.100"}, false, true)...)
	// character sweep over the text of end-of-line comments: every printable ASCII character (and a few
	// others) as the first character of a plain comment and of the text after the indirect marker
	{
		var firsts []string
		for c := 0x21; c < 0x7f; c++ {
			firsts = append(firsts, string(rune(c)))
		}
		firsts = append(firsts, "é", "\u212a", "%s", "%d", "//", "indirect", "i", "; ")
		// near misses of the marker itself
		for _, com := range []string{"// indirectly used", "// indirect;x y", "//indirect", "// indirect ; z", "// Indirect", "// indirect;", "// indirect;; w", "//  indirect;  spaced  out", "// not indirect", "// indirect\tx",
			// every kind of white space behind the marker (the documented rule splits on Unicode white space)
			"// indirect;\tx y", "// indirect;\u00a0x", "// indirect;\u3000x y", "// indirect;\vx", "// indirect;\fx", "// indirect;\u0085x", "// indirect;\u2028x", "// indirect\u00a0", "// indirect\u00a0x", "//\tindirect;\tx", "//\u00a0indirect; x", "// indirect;\u200bx", "// indirect;\ufeffx"} {
			sds = append(sds, "module example.com/m\n\ngo 1.21\n\nrequire a.com/x v1.0.0 "+com+"\n", "module example.com/m\n\ngo 1.21\n\nrequire (\n\ta.com/x v1.0.0 "+com+"\n\tb.com/y v1.0.0\n)\n")
		}
		for _, f := range firsts {
			for _, com := range []string{"// indirect; " + f + "yz q", "// " + f + "yz q", "// indirect;" + f, "//" + f} {
				sds = append(sds, "module example.com/m\n\ngo 1.21\n\nrequire a.com/x v1.0.0 "+com+"\n")
			}
		}
	}
	// blank lines inside a require block followed by leading comments of the next line
	sds = append(sds,
		"module example.com/m\n\ngo 1.21\n\nrequire (\n\ta.com/x v1.0.0 // s1\n\n\t// b2\n\tb.com/y v1.1.0 // s2\n)\n",
		"module example.com/m\n\ngo 1.21\n\nrequire (\n\ta.com/x v1.0.0 // indirect\n\n\t// b2\n\t// b2b\n\tb.com/y v1.1.0 // indirect; s2\n\n\t// b3\n\tc.com/z v1.0.0\n)\n",
		"module example.com/m\n\ngo 1.21\n\nrequire (\n\n\t// b1\n\ta.com/x v1.0.0\n\n\n\t// b2\n\tb.com/y v1.1.0\n)\n")
	// empty blocks that carry a comment of their own (the only place where a comment belongs to the block
	// statement itself): once a bulk call leaves one requirement there and Cleanup collapses the block, that
	// comment sits on the requirement's line
	sds = append(sds,
		"module example.com/m\n\ngo 1.21\n\nrequire () // indirect\n",
		"module example.com/m\n\ngo 1.21\n\nrequire () // indirect; kept for later\n",
		"module example.com/m\n\ngo 1.21\n\nrequire () // nothing yet\n\nrequire a.com/x v1.0.0 // indirect\n",
		"module example.com/m\n\ngo 1.21\n\n// above\nrequire () // indirect\n\nexclude () // indirect\n")
	// long blocks (sorting code changes strategy above a dozen or two elements): 45 requirements and 45
	// exclusions in scrambled order, every line with its own end-of-line comment
	{
		var rq, ex strings.Builder
		rq.WriteString("module example.com/m\n\ngo 1.21\n\nrequire (\n")
		ex.WriteString("exclude (\n")
		for i := 0; i < 45; i++ {
			k := (i*17 + 5) % 45
			fmt.Fprintf(&rq, "\tl%02d.com/p v1.%d.0 // r%02d\n", k, k%3, k)
			fmt.Fprintf(&ex, "\tl%02d.com/p v1.%d.0 // e%02d\n", k%9, (k*7)%11, k)
		}
		rq.WriteString("\ta.com/x v1.0.0 // s1\n\tb.com/y v1.0.0 // indirect\n)\n\n")
		ex.WriteString(")\n")
		sds = append(sds, rq.String()+ex.String())
	}
	// exclusions of one path at every version v{0,1}.{1,2,9,10,100}.{1,2,9,10} (and a few pre-releases), in
	// scrambled order: string order and version order differ in every component, for equal and unequal lengths
	for _, gov := range []string{"1.20", "1.21", "1.23.4"} {
		var vs []string
		for _, a := range []int{0, 1} {
			for _, b := range []int{1, 2, 9, 10, 100} {
				for _, c := range []int{1, 2, 9, 10} {
					vs = append(vs, fmt.Sprintf("v%d.%d.%d", a, b, c))
				}
			}
		}
		vs = append(vs, "v1.2.3-rc.2", "v1.2.3-rc.10", "v1.2.3-1", "v1.2.3-a", "v1.2.3-9", "v1.2.3-10", "v1.2.3-rc", "v2.0.0+incompatible", "v10.0.0+incompatible")
		var b strings.Builder
		fmt.Fprintf(&b, "module example.com/m\n\ngo %s\n\nrequire a.com/x v1.0.0\n\nexclude (\n", gov)
		for i := range vs {
			fmt.Fprintf(&b, "\tc.com/z %s\n", vs[(i*29+7)%len(vs)])
		}
		b.WriteString("\tb.com/y v1.0.0\n)\n")
		sds = append(sds, b.String())
	}
	// paths of which one is a prefix of another, continued by bytes on both sides of 'v' and of '/' (token order
	// is not the order of the joined line): in replace and exclude blocks that every bulk call sorts, scrambled
	for _, gov := range []string{"1.20", "1.21"} {
		rel := []string{"a.com/x", "a.com/x/v2", "a.com/x-y", "a.com/x.z", "a.com/xa", "a.com/x0", "a.com/x/w", "a.com/xv", "a.com/xw", "a.com/x_y"}
		var b strings.Builder
		fmt.Fprintf(&b, "module example.com/m\n\ngo %s\n\nrequire a.com/x v1.0.0\n\nreplace (\n", gov)
		for i := range rel {
			fmt.Fprintf(&b, "\t%s => ../r%d\n", rel[(i*7+3)%len(rel)], i)
		}
		b.WriteString(")\n\nexclude (\n")
		for i := range rel {
			p := rel[(i*3+1)%len(rel)]
			v := "v1.0.0"
			if strings.HasSuffix(p, "/v2") {
				v = "v2.0.0"
			}
			fmt.Fprintf(&b, "\t%s %s\n", p, v)
		}
		b.WriteString(")\n")
		sds = append(sds, b.String())
	}
	reqs := requests()
	r.Bounds["require_lines_max"] = kmax
	r.Bounds["seeds"] = len(sds)
	r.Bounds["requests"] = len(reqs)
	r.Bounds["setters"] = []string{"SetRequire", "SetRequireSeparateIndirect", "SetUse"}
	r.Rule = "seed = every layout of <= k require lines over 3 paths (duplicates allowed) in <= 2 statements (line or block), each line direct / indirect / indirect+note / plain end-of-line comment, with or without a leading comment, block commented or not, with or without an unrelated statement in between, go 1.20 and 1.21, plus an exclude and a retract block to sort; request = every assignment of the 3 paths to absent or (v1.0.0|v1.7.0) x (direct|indirect); both setters; each case executed twice (map iteration order) and the outputs compared. go.work: every layout of <= 3 use lines x every subset request. non-trivial = request that changes the file"
	r.Assume = []string{"reference comparators for block order (semverref)", "requests have distinct paths, as the property states"}
	type job struct{ i int }
	fw.Parallel(len(sds), func(i int) {
		l := fw.NewLocal()
		defer r.Merge(l)
		for _, setter := range []string{"SetRequire", "SetRequireSeparateIndirect"} {
			for _, rq := range reqs {
				if r.Failed() {
					return
				}
				c := caseT{Seed: sds[i], Setter: setter, Request: rq}
				l.States++
				l.Transitions++
				l.Execs += 2
				msg, out := runCase(c)
				_, out2 := runCase(c)
				if msg == "" && out != out2 {
					msg = fmt.Sprintf("two runs of the same call gave different files (map iteration order leaks):\n%s---\n%s", out, out2)
				}
				// a second bulk call on the same File (every fifth seed; thorough: every second): what the first
				// call left behind must not confuse the second
				if msg == "" && (i%5 == 0 || r.Thorough() && i%2 == 0) {
					for _, then := range []string{"SR:a.com/x@v1.7.0,b.com/y@v1.7.0!,c.com/z@v1.7.0", "SRSI:a.com/x@v1.0.0!,b.com/y@v1.7.0,c.com/z@v1.0.0", "SR:c.com/z@v1.7.0!", "SRSI:"} {
						ct := c
						ct.Then = then
						l.Execs++
						if msgT, _ := runCase(ct); msgT != "" {
							l.Outcomes[setter+":VIOLATION"]++
							r.Violation(ct.key(), "second bulk call ("+then+") on the same File: "+msgT, ct)
						}
					}
				}
				// the same call on the file as parsed (no Cleanup first), where that makes a difference: seeds with
				// a block of no or one line
				if msg == "" && smallBlock(sds[i]) && (!r.Thorough() || i%3 == 0) { // thorough: every third such seed (time)
					cr := c
					cr.Raw = true
					l.Execs++
					if msgR, _ := runCase(cr); msgR != "" {
						l.Outcomes[setter+":VIOLATION"]++
						r.Violation(cr.key(), "called on the file as parsed: "+msgR, cr)
					} else {
						l.Outcomes[setter+":as-parsed:ok"]++
					}
				}
				// the same request built from the file's own entries edited in place (every third seed in the
				// quick tier): the outcome must be the same file
				if msg == "" && rq != "" && (r.Thorough() || i%3 == 0) {
					ca := c
					ca.Alias = true
					l.Execs++
					msgA, outA := runCase(ca)
					if msgA == "" && outA != out {
						msgA = fmt.Sprintf("a request list that reuses the file's own entries gives a different file than the same request with fresh values:\n%s---\n%s", outA, out)
					}
					if msgA != "" {
						l.Outcomes[setter+":VIOLATION"]++
						r.Violation(ca.key(), msgA, ca)
					}
				}
				if out != c.Seed {
					l.Nontrivial++
				}
				if strings.HasPrefix(msg, knownExcludeClass) {
					l.Outcomes[setter+":exclude-order-go-prerelease"]++
					r.Violation(strings.TrimSuffix(knownExcludeClass, "|"), strings.TrimPrefix(msg, knownExcludeClass), c)
				} else if msg != "" {
					l.Outcomes[setter+":VIOLATION"]++
					r.Violation(c.key(), msg, c)
				} else {
					l.Outcomes[setter+":ok"]++
				}
			}
		}
	})
	// module paths spelled like the directive keywords (the path "require" inside a require block, ...): every
	// layout of two such requirements x requests that keep, flip, move and drop them, both setters
	{
		l := fw.NewLocal()
		kw := []string{"require", "exclude", "module", "replace", "retract", "go"}
		var ksd []string
		for _, k := range kw {
			for _, gov := range []string{"1.20", "1.21"} {
				h := "module example.com/m\n\ngo " + gov + "\n\n"
				ksd = append(ksd,
					h+"require (\n\t"+k+" v1.0.0\n\ta.com/x v1.0.0 // indirect\n)\n",
					h+"require (\n\t"+k+" v1.0.0 // indirect\n\ta.com/x v1.0.0 // indirect\n)\n",
					h+"require "+k+" v1.0.0\n\nrequire a.com/x v1.0.0 // indirect\n",
					h+"require (\n\t"+k+" v1.0.0\n\tb.com/y v1.0.0\n)\n\nrequire (\n\ta.com/x v1.0.0 // indirect\n)\n",
					h+"require (\n\t// c\n\t"+k+" v1.0.0 // s1\n)\n")
			}
		}
		r.Bounds["keyword_path_seeds"] = len(ksd)
		for _, sd := range ksd {
			k := strings.Fields(strings.SplitN(sd, "require", 2)[1])[0]
			if k == "(" {
				k = strings.Fields(strings.SplitN(sd, "(\n\t", 2)[1])[0]
				if k == "//" {
					k = strings.Fields(strings.SplitN(sd, "// c\n\t", 2)[1])[0]
				}
			}
			for _, rq := range []string{k + "@v1.0.0", k + "@v1.0.0!", k + "@v1.7.0!,a.com/x@v1.0.0", k + "@v1.0.0,a.com/x@v1.0.0!,b.com/y@v1.0.0", "a.com/x@v1.0.0", "", k + "@v1.7.0,b.com/y@v1.0.0!"} {
				for _, setter := range []string{"SetRequire", "SetRequireSeparateIndirect"} {
					c := caseT{Seed: sd, Setter: setter, Request: rq}
					l.States++
					l.Transitions++
					l.Execs++
					if msg, _ := runCase(c); msg != "" && !strings.HasPrefix(msg, knownExcludeClass) {
						l.Outcomes[setter+":VIOLATION"]++
						r.Violation(c.key(), msg, c)
					} else {
						l.Nontrivial++
					}
				}
			}
		}
		r.Merge(l)
	}
	r.Sample(caseT{Seed: sds[len(sds)/2], Setter: "SetRequireSeparateIndirect", Request: reqs[37]})
	// go.work
	ws := workSeeds(3)
	// go.work files whose other blocks are out of order or hold duplicates (every block is in its documented
	// order after the call, not only the one it edits)
	ws = append(ws,
		"go 1.21\n\nuse (\n\t./b\n\t./a // s0\n)\n\nreplace (\n\tb.com/y => ../y\n\ta.com/x v1.0.0 => ../x1\n\ta.com/x => ../x\n)\n",
		"go 1.21\n\ngodebug (\n\tpanicnil=1\n\tasynctimerchan=0\n)\n\nuse ./a // s0\n",
		"go 1.21\n\nuse \"./dir with space\"\n\nreplace (\n\tc.com/z => ../z\n\tb.com/y => ../y // r1\n)\n\ngodebug (\n\tx=2\n\tb=1\n)\n",
		"go 1.21\n\nreplace (\n\tb.com/y => ../y\n\ta.com/x => ../x\n)\n")
	r.Bounds["work_seeds"] = len(ws)
	var wreq []string
	ups := []string{"./a", "./b", "./dir with space", "./c"}
	for mask := 0; mask < 16; mask++ {
		var p []string
		for i, u := range ups {
			if mask&(1<<i) != 0 {
				p = append(p, u)
			}
		}
		wreq = append(wreq, strings.Join(p, ","))
	}
	fw.Parallel(len(ws), func(i int) {
		l := fw.NewLocal()
		defer r.Merge(l)
		for _, rq := range wreq {
			c := caseT{Work: true, Seed: ws[i], Setter: "SetUse", Request: rq}
			l.States++
			l.Transitions++
			l.Execs += 2
			msg, out := runCase(c)
			_, out2 := runCase(c)
			if msg == "" && out != out2 {
				msg = "two runs of the same call gave different files"
			}
			if out != c.Seed {
				l.Nontrivial++
			}
			if msg != "" {
				l.Outcomes["SetUse:VIOLATION"]++
				r.Violation(c.key(), msg, c)
			} else {
				l.Outcomes["SetUse:ok"]++
			}
		}
	})
	sort.Strings(wreq)
	r.Sample(caseT{Work: true, Seed: ws[len(ws)/2], Setter: "SetUse", Request: "./a,./b"})
}

func Replay(r *fw.Run, raw json.RawMessage) {
	var c caseT
	if err := json.Unmarshal(raw, &c); err != nil {
		r.Violation("replay", err.Error(), nil)
		return
	}
	r.States.Add(1)
	r.Transitions.Add(1)
	r.Execs.Add(1)
	r.Sample(c)
	if msg, _ := runCase(c); strings.HasPrefix(msg, knownExcludeClass) {
		r.Violation(strings.TrimSuffix(knownExcludeClass, "|"), strings.TrimPrefix(msg, knownExcludeClass), c)
	} else if msg != "" {
		r.Violation(c.key(), msg, c)
	}
}
