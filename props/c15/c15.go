// Package c15: the parsed file structure and its syntax tree never diverge under edits.
package c15

import (
	"encoding/json"
	"fmt"
	"strconv"
	"strings"

	"verif/internal/fw"
	"verif/props/modedit"
)

type checker struct{}

// State: after cleanup of a copy, typed lists == strict parse of the formatted text, no
// placeholders, every Syntax pointer is a live line.
func (checker) State(c modedit.Case) (string, bool) {
	d, err := modedit.Replay(c.Work, c.Seed, c.Hist)
	if err != nil {
		return err.Error(), false
	}
	d.Cleanup()
	typed := d.TypedDump()
	parsed, text, err := d.ParsedDump()
	if err != nil {
		return fmt.Sprintf("after %s + Cleanup the formatted file does not parse strictly: %v\n%s", modedit.HistString(c.Hist), err, text), true
	}
	for _, s := range typed {
		if strings.HasPrefix(s, "PLACEHOLDER") {
			return fmt.Sprintf("after %s + Cleanup a cleared placeholder entry remains in the typed lists: %s", modedit.HistString(c.Hist), s), true
		}
	}
	if !modedit.Equal(typed, parsed) {
		msg := fmt.Sprintf("after %s + Cleanup the in-memory directive lists differ from a strict parse of the formatted file: %s\n%s", modedit.HistString(c.Hist), modedit.Diff(typed, parsed), text)
		if paragraphsReattached(c, typed, parsed) {
			return KnownParagraphs + msg, true
		}
		return msg, true
	}
	if bad := d.Liveness(); len(bad) > 0 {
		return fmt.Sprintf("after %s + Cleanup: %s", modedit.HistString(c.Hist), strings.Join(bad, "; ")), true
	}
	return "", len(c.Hist) > 0
}

// Transition: "later operations see earlier ones": h;Cleanup;o;Cleanup in one session must be
// semantically equal to o;Cleanup applied to a fresh strict parse of Format(h;Cleanup).
func (checker) Transition(c modedit.Case) string {
	x, err := modedit.Replay(c.Work, c.Seed, c.Hist)
	if err != nil {
		return ""
	}
	x.Cleanup()
	text := x.Format()
	y, err := modedit.Parse(c.Work, text)
	if err != nil {
		return "" // reported by State
	}
	ex, px := x.Apply(*c.Next)
	ey, py := y.Apply(*c.Next)
	if px != py || (ex == nil) != (ey == nil) {
		return fmt.Sprintf("%s after %s: same-session result (err=%v) differs from result on a fresh parse of the same text (err=%v)", c.Next, modedit.HistString(c.Hist), ex, ey)
	}
	if px {
		return "" // panics are reported when the successor is built
	}
	x.Cleanup()
	y.Cleanup()
	dx, tx, err1 := x.ParsedDump()
	dy, ty, err2 := y.ParsedDump()
	if err1 != nil || err2 != nil {
		if (err1 == nil) != (err2 == nil) {
			return fmt.Sprintf("%s after %s: output parses in one session (%v) but not on a fresh parse (%v)", c.Next, modedit.HistString(c.Hist), err1, err2)
		}
		return ""
	}
	// Free text taken from comments (rationale, deprecation notice) is left out of this comparison: the two
	// sessions can hold syntax trees that print differently in their blank lines (a line moved to the front of
	// a block keeps the blank line above it; a reparse drops a blank line at the start of a block), and where
	// a comment ends up attached then differs although each session agrees with its own file. That agreement,
	// text included, is what the property states and what State checks in every state.
	dx, dy = stripCommentText(dx), stripCommentText(dy)
	if !modedit.Equal(dx, dy) {
		return fmt.Sprintf("%s applied in the same session after %s gives different directives than applied to a fresh parse of the same file: %s\n--- same session:\n%s--- fresh parse:\n%s", c.Next, modedit.HistString(c.Hist), modedit.Diff(dx, dy), tx, ty)
	}
	return ""
}

// KnownParagraphs prefixes violations of the recorded finding class:comment-paragraphs-reattach-on-reblock.
const KnownParagraphs = "class:comment-paragraphs-reattach-on-reblock|"

// paragraphsReattached recognises the recorded finding: the starting file has a blank line inside a block, the
// history cleans up and later adds a retraction (which puts a collapsed line back into a block),
// the two dumps differ only in comment text, and wherever they differ one text is the other with leading
// lines removed (comment paragraphs above a blank line counted on one side and not on the other), neither
// being empty.
func paragraphsReattached(c modedit.Case, typed, parsed []string) bool {
	if !strings.Contains(c.Seed, "\n\n\t") {
		return false
	}
	// the history must put a collapsed line back into a block: a Cleanup (explicit, or the one a bulk
	// setter is applied after), later an AddRetract
	cleaned, reblocked := false, false
	for _, o := range c.Hist {
		if o.Kind == "Cleanup" || o.Kind == "SetRequire" || o.Kind == "SetRequireSeparateIndirect" {
			cleaned = true // the two bulk setters are applied after a Cleanup (modedit.Doc.Apply)
		}
		if cleaned && o.Kind == "AddRetract" {
			reblocked = true
		}
	}
	if !reblocked {
		return false
	}
	if !modedit.Equal(stripCommentText(typed), stripCommentText(parsed)) {
		return false
	}
	text := func(d []string) map[string][]string {
		m := map[string][]string{}
		for _, s := range d {
			for _, cut := range []string{" rationale=", " deprecated="} {
				if j := strings.Index(s, cut); j >= 0 {
					m[s[:j]] = append(m[s[:j]], s[j+len(cut):])
				}
			}
		}
		return m
	}
	a, b := text(typed), text(parsed)
	for k, va := range a {
		vb := b[k]
		if len(va) != len(vb) {
			return false
		}
		for i := range va {
			x, y := va[i], vb[i]
			if x == y {
				continue
			}
			// quoted forms: compare the unquoted texts
			ux, e1 := strconv.Unquote(x)
			uy, e2 := strconv.Unquote(y)
			if e1 != nil || e2 != nil {
				ux, uy = x, y
			}
			if len(ux) > len(uy) {
				ux, uy = uy, ux
			}
			if ux == "" || !(strings.HasSuffix(uy, "\n"+ux)) {
				return false
			}
		}
	}
	return true
}

func stripCommentText(d []string) []string {
	out := make([]string, len(d))
	for i, s := range d {
		for _, cut := range []string{" rationale=", " deprecated="} {
			if j := strings.Index(s, cut); j >= 0 {
				s = s[:j]
			}
		}
		out[i] = s
	}
	return out
}

// KeyExtra: the C15 oracles depend on the implementation state only.
func (checker) KeyExtra(c modedit.Case) string { return "" }

// FirstCalls is the menu of the fresh-process call-order check: short edit histories checked by the state oracle.
func FirstCalls() []fw.Call {
	var out []fw.Call
	for i, c := range []modedit.Case{
		{Seed: modedit.ModSeeds[1], SeedIdx: 1, Hist: []modedit.Op{{Kind: "AddRequire", A: []string{"b.com/y", "v1.1.0"}}}},
		{Seed: modedit.ModSeeds[1], SeedIdx: 1, Hist: []modedit.Op{{Kind: "AddReplace", A: []string{"a.com/x", "", "../dir x", ""}}, {Kind: "DropRequire", A: []string{"a.com/x"}}}},
		{Seed: modedit.ModSeeds[0], SeedIdx: 0, Hist: []modedit.Op{{Kind: "AddGoStmt", A: []string{"1.21"}}, {Kind: "AddExclude", A: []string{"a.com/x", "v1.0.0"}}}},
		{Seed: modedit.ModSeeds[0], SeedIdx: 0, Hist: []modedit.Op{{Kind: "AddRetract", A: []string{"v1.0.0", "v1.1.0", "bad"}}}},
		{Work: true, Seed: modedit.WorkSeeds[1], SeedIdx: 1, Hist: []modedit.Op{{Kind: "AddUse", A: []string{"./b", ""}}, {Kind: "DropUse", A: []string{"./a"}}}},
		{Work: true, Seed: modedit.WorkSeeds[0], SeedIdx: 0, Hist: []modedit.Op{{Kind: "AddGodebug", A: []string{"panicnil", "1"}}}},
	} {
		i, c := i, c
		c.Check = "state"
		out = append(out, fw.Call{Name: fmt.Sprintf("history-%d %s", i, modedit.HistString(c.Hist)), F: func() string {
			msg, nt := checker{}.State(c)
			d, err := modedit.Replay(c.Work, c.Seed, c.Hist)
			text := ""
			if err == nil {
				d.Cleanup()
				text = d.Format()
			}
			return fmt.Sprint(msg, nt, err, text)
		}})
	}
	return out
}

func Run(r *fw.Run) {
	defer fw.FirstCallOrders(r, r.ID, FirstCalls(), nil)
	depth := r.Pick(2, 3)
	ops := append(modedit.ModOps(r.Thorough()), modedit.UncleanedSetterOps(false)...)
	wops := append(modedit.WorkOps(r.Thorough()), modedit.UncleanedSetterOps(true)...)
	r.Bounds["depth"] = depth
	modSeeds := append(append([]string{}, modedit.ModSeeds...), modedit.ModSeedsTypedOnly...)
	r.Bounds["go_mod_seeds"] = len(modSeeds)
	r.Bounds["go_work_seeds"] = len(modedit.WorkSeeds)
	r.Bounds["go_mod_ops"] = len(ops)
	r.Bounds["go_work_ops"] = len(wops)
	r.Rule = "breadth-first search over sequences of real edit operations from every seed file up to the depth; a state is the history reaching it, deduplicated by (formatted text, typed lists incl. placeholders, Syntax liveness); invariant in every state after Cleanup on a copy: typed lists == strict parse of Format, no placeholders, live Syntax; on every (state, op): same-session result == result on a fresh parse of the formatted state. non-trivial = non-initial state"
	r.Assume = []string{"operation arguments are valid (canonical versions, well-formed paths)", "cleanup precedes the bulk setters, as the property stipulates"}
	modedit.Explore(r, false, modSeeds, ops, depth, checker{})
	modedit.Explore(r, true, modedit.WorkSeeds, wops, depth+1, checker{})
	modedit.ArgSweep(r, checker{}, r.Pick(3, 4))
	r.Sample(modedit.Case{Work: false, SeedIdx: 6, Seed: modedit.ModSeeds[6], Hist: []modedit.Op{{Kind: "AddRetract", A: []string{"v1.1.0", "v1.1.0", "bad"}}, {Kind: "DropRetract", A: []string{"v1.1.0", "v1.1.0"}}}, Check: "state"})
}

func Replay(r *fw.Run, raw json.RawMessage) {
	var c modedit.Case
	if err := json.Unmarshal(raw, &c); err != nil {
		r.Violation("replay", err.Error(), nil)
		return
	}
	r.States.Add(1)
	r.Transitions.Add(1)
	r.Execs.Add(1)
	r.Sample(c)
	var msg string
	if c.Next != nil {
		msg = checker{}.Transition(c)
	} else {
		msg, _ = checker{}.State(c)
	}
	if msg != "" {
		modedit.Report(r, c, msg)
	}
}
