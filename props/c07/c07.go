// Package c07: a signed note opens only with verified signatures over exactly its text.
package c07

import (
	"bytes"
	"crypto/ed25519"
	"crypto/sha256"
	"encoding/base64"
	"encoding/binary"
	"encoding/json"
	"errors"
	"fmt"
	"strconv"
	"strings"
	"sync"
	"unicode"
	"unicode/utf8"

	"golang.org/x/mod/sumdb/note"

	"verif/internal/coop"
	"verif/internal/enum"
	"verif/internal/fw"
)

type caseT struct {
	Kind      string   `json:"kind"` // sign-open | message | mutation
	Text      string   `json:"text_or_message_quoted"`
	Signers   []string `json:"signers,omitempty"`
	Verifiers []string `json:"verifiers,omitempty"`
	Mutation  string   `json:"mutation,omitempty"`
}

func (c caseT) key() string {
	return fmt.Sprintf("%s:%s:%v:%v:%s", c.Kind, c.Text, c.Signers, c.Verifiers, c.Mutation)
}

// ---------------------------------------------------------------- keys

type detRand struct {
	seed string
	n    int
	buf  []byte
}

func (d *detRand) Read(p []byte) (int, error) {
	for len(d.buf) < len(p) {
		s := sha256.Sum256([]byte(fmt.Sprintf("%s/%d", d.seed, d.n)))
		d.n++
		d.buf = append(d.buf, s[:]...)
	}
	copy(p, d.buf[:len(p)])
	d.buf = d.buf[len(p):]
	return len(p), nil
}

type key struct {
	id     string
	signer note.Signer
	ver    note.Verifier
	pub    ed25519.PublicKey // nil for scripted fakes
}

var (
	keysOnce sync.Once
	keys     map[string]*key
)

type fakeSigner struct {
	name string
	hash uint32
	sig  []byte
}

func (f fakeSigner) Name() string                { return f.name }
func (f fakeSigner) KeyHash() uint32             { return f.hash }
func (f fakeSigner) Sign([]byte) ([]byte, error) { return f.sig, nil }

type fakeVerifier struct {
	name   string
	hash   uint32
	accept bool
}

func (f fakeVerifier) Name() string            { return f.name }
func (f fakeVerifier) KeyHash() uint32         { return f.hash }
func (f fakeVerifier) Verify(_, _ []byte) bool { return f.accept }

func theKeys() map[string]*key {
	keysOnce.Do(func() {
		keys = map[string]*key{}
		mk := func(id, name string) {
			sk, vk, err := note.GenerateKey(&detRand{seed: id}, name)
			if err != nil {
				panic(err)
			}
			s, _ := note.NewSigner(sk)
			v, _ := note.NewVerifier(vk)
			parts := strings.SplitN(vk, "+", 3)
			raw, _ := base64.StdEncoding.DecodeString(parts[2])
			keys[id] = &key{id: id, signer: s, ver: v, pub: ed25519.PublicKey(raw[1:])}
		}
		mk("k1", "k1.example")
		mk("k2", "k2.example/log")
		mk("k3", "k1.example") // same name as k1, different key
		// scripted fakes: "bad" signs garbage under k1's name and hash; "yes" is a verifier that accepts anything
		keys["bad"] = &key{id: "bad", signer: fakeSigner{"k1.example", keys["k1"].ver.KeyHash(), []byte("not a signature at all, 64 bytes long, padded to the usual length")}, ver: keys["k1"].ver, pub: keys["k1"].pub}
		keys["dup"] = &key{id: "dup", signer: keys["k1"].signer, ver: fakeVerifier{"k1.example", keys["k1"].ver.KeyHash(), true}}
		keys["dup2"] = &key{id: "dup2", signer: keys["k1"].signer, ver: fakeVerifier{"k1.example", keys["k1"].ver.KeyHash(), true}}
	})
	return keys
}

// recorder wraps a verifier and logs every call.
type call struct {
	name string
	hash uint32
	msg  string
	sig  string
	ok   bool
}
type recorder struct {
	note.Verifier
	log *[]call
}

func (r recorder) Verify(msg, sig []byte) bool {
	ok := r.Verifier.Verify(msg, sig)
	*r.log = append(*r.log, call{r.Name(), r.KeyHash(), string(msg), string(sig), ok})
	return ok
}

func verifiers(ids []string, log *[]call) note.Verifiers {
	var vs []note.Verifier
	for _, id := range ids {
		vs = append(vs, recorder{theKeys()[id].ver, log})
	}
	return note.VerifierList(vs...)
}

// ---------------------------------------------------------------- reference

func validName(s string) bool {
	if s == "" || !utf8.ValidString(s) || strings.Contains(s, "+") {
		return false
	}
	for _, r := range s {
		if unicode.IsSpace(r) {
			return false
		}
	}
	return true
}

func validText(s string) bool {
	if !utf8.ValidString(s) || !strings.HasSuffix(s, "\n") {
		return false
	}
	for _, r := range s {
		if r < 0x20 && r != '\n' {
			return false
		}
	}
	return true
}

type refSig struct {
	name string
	hash uint32
	b64  string
	raw  []byte
}

// refParse is the documented message format: text, blank line, signature lines.
func refParse(msg string) (text string, sigs []refSig, ok bool) {
	if !utf8.ValidString(msg) {
		return "", nil, false
	}
	for _, r := range msg {
		if r < 0x20 && r != '\n' {
			return "", nil, false
		}
	}
	i := strings.LastIndex(msg, "\n\n")
	if i < 0 {
		return "", nil, false
	}
	text, block := msg[:i+1], msg[i+2:]
	if block == "" || !strings.HasSuffix(block, "\n") {
		return "", nil, false
	}
	lines := strings.Split(strings.TrimSuffix(block, "\n"), "\n")
	if len(lines) > 100 {
		return "", nil, false
	}
	for _, l := range lines {
		rest, found := strings.CutPrefix(l, "— ")
		if !found {
			return "", nil, false
		}
		name, b64, _ := strings.Cut(rest, " ")
		raw, err := base64.StdEncoding.DecodeString(b64)
		if err != nil || !validName(name) || b64 == "" || len(raw) < 5 {
			return "", nil, false
		}
		sigs = append(sigs, refSig{name, binary.BigEndian.Uint32(raw), b64, raw[4:]})
	}
	return text, sigs, true
}

type expect struct {
	fail       string // "", "malformed", "invalid-signature", "ambiguous", "unverified"
	text       string
	ver, unver []string // "name hash b64"
}

func sigStr(name string, hash uint32, b64 string) string {
	return fmt.Sprintf("%s %08x %s", name, hash, b64)
}

// refOpen predicts Open from the documentation, given which (name,hash) are known and how the
// known verifiers judge (text, sig).
func refOpen(msg string, vids []string) expect {
	text, sigs, ok := refParse(msg)
	if !ok {
		return expect{fail: "malformed"}
	}
	type nh struct {
		n string
		h uint32
	}
	known := map[nh][]*key{}
	for _, id := range vids {
		k := theKeys()[id]
		x := nh{k.ver.Name(), k.ver.KeyHash()}
		known[x] = append(known[x], k)
	}
	e := expect{text: text}
	seen := map[nh]bool{}
	seenU := map[string]bool{}
	for _, s := range sigs {
		ks := known[nh{s.name, s.hash}]
		switch {
		case len(ks) == 0:
			if !seenU[s.name+" "+s.b64] {
				seenU[s.name+" "+s.b64] = true
				e.unver = append(e.unver, sigStr(s.name, s.hash, s.b64))
			}
		case len(ks) > 1:
			return expect{fail: "ambiguous"}
		default:
			if seen[nh{s.name, s.hash}] {
				continue
			}
			seen[nh{s.name, s.hash}] = true
			good := false
			if ks[0].pub != nil && ks[0].id != "dup" {
				good = ed25519.Verify(ks[0].pub, []byte(text), s.raw)
			} else {
				good = ks[0].ver.Verify([]byte(text), s.raw)
			}
			if !good {
				return expect{fail: "invalid-signature"}
			}
			e.ver = append(e.ver, sigStr(s.name, s.hash, s.b64))
		}
	}
	if len(e.ver) == 0 {
		e.fail = "unverified"
	}
	return e
}

func sigList(ss []note.Signature) []string {
	var out []string
	for _, s := range ss {
		out = append(out, sigStr(s.Name, s.Hash, s.Base64))
	}
	return out
}

func eq(a, b []string) bool { return strings.Join(a, "|") == strings.Join(b, "|") }

// openCase runs Open on one message and compares with the reference and the monitor.
func openCase(msg string, vids []string) (string, string) {
	var log []call
	var n *note.Note
	var err error
	var pan string
	func() {
		defer func() {
			if e := recover(); e != nil {
				pan = fmt.Sprint(e)
			}
		}()
		n, err = note.Open([]byte(msg), verifiers(vids, &log))
	}()
	if pan != "" {
		return "Open panicked: " + pan, "panic"
	}
	want := refOpen(msg, vids)
	class := want.fail
	if class == "" {
		class = "opened"
	}
	if (n != nil) == (err != nil) {
		return fmt.Sprintf("Open returned note=%v err=%v", n != nil, err), class
	}
	if err != nil {
		var une *note.UnverifiedNoteError
		var ise *note.InvalidSignatureError
		got := "malformed"
		switch {
		case errors.As(err, &une):
			got = "unverified"
			if une.Note == nil || une.Note.Text != want.text || !eq(sigList(une.Note.UnverifiedSigs), want.unver) || len(une.Note.Sigs) != 0 {
				if want.fail == "unverified" {
					return fmt.Sprintf("UnverifiedNoteError carries text %q sigs %v, want text %q unverified %v", une.Note.Text, sigList(une.Note.UnverifiedSigs), want.text, want.unver), class
				}
			}
		case errors.As(err, &ise):
			got = "invalid-signature"
		case strings.Contains(err.Error(), "ambiguous"):
			got = "ambiguous"
		}
		if want.fail == "" {
			return fmt.Sprintf("Open failed with %q (%s), documented behaviour: success", err, got), class
		}
		// which of several defects of a message is reported first is not specified; only the
		// "well-formed but nothing verifiable" outcome has a documented error type
		if want.fail == "unverified" && got != "unverified" {
			return fmt.Sprintf("Open failed with %q (%s), documented behaviour: UnverifiedNoteError", err, got), class
		}
		if got == "unverified" && want.fail != "unverified" {
			return fmt.Sprintf("Open reports no verifiable signatures, documented behaviour: %s", want.fail), class
		}
		return "", class
	}
	if want.fail != "" {
		return fmt.Sprintf("Open succeeded, documented behaviour: fail with %s", want.fail), class
	}
	if n.Text != want.text || !eq(sigList(n.Sigs), want.ver) || !eq(sigList(n.UnverifiedSigs), want.unver) {
		return fmt.Sprintf("Open: text %q verified %v unverified %v; want text %q verified %v unverified %v", n.Text, sigList(n.Sigs), sigList(n.UnverifiedSigs), want.text, want.ver, want.unver), class
	}
	// monitor: every verified signature was checked by its key's verifier over exactly the returned text
	for _, s := range n.Sigs {
		raw, _ := base64.StdEncoding.DecodeString(s.Base64)
		found := false
		for _, c := range log {
			if c.name == s.Name && c.hash == s.Hash && c.msg == n.Text && c.sig == string(raw[4:]) && c.ok {
				found = true
			}
		}
		if !found {
			return fmt.Sprintf("signature %s is listed as verified but no verifier call over exactly the returned text with that signature returned true (calls: %d)", sigStr(s.Name, s.Hash, s.Base64), len(log)), class
		}
	}
	for _, c := range log {
		if !c.ok {
			return fmt.Sprintf("a known key (%s) rejected a signature, yet a note was returned", c.name), class
		}
	}
	if len(n.Sigs) == 0 {
		return "Open returned a note without any verified signature", class
	}
	return "", class
}

func orOK(s string) string {
	if s == "" {
		return "success"
	}
	return s
}

// signOpen: Sign(text, S) then Open with V.
func signOpen(text string, sids, vids []string) (string, string) {
	var ss []note.Signer
	for _, id := range sids {
		ss = append(ss, theKeys()[id].signer)
	}
	msg, err := note.Sign(&note.Note{Text: text}, ss...)
	if err != nil {
		if validText(text) {
			return fmt.Sprintf("Sign refused valid note text %q: %v", text, err), "sign-refused"
		}
		return "", "sign-refused"
	}
	if !validText(text) {
		// Sign did not refuse: Open must
		var log []call
		if n, err := note.Open(msg, verifiers(vids, &log)); err == nil {
			return fmt.Sprintf("invalid note text %q was signed and opened (text %q)", text, n.Text), "invalid-text-opened"
		}
		return "", "invalid-text-refused-by-open"
	}
	if m, class := openCase(string(msg), vids); m != "" {
		return "Sign+Open: " + m, class
	}
	// independent expectation of the partition: S∩V verified in message order, the rest unverified
	var log []call
	n, err := note.Open(msg, verifiers(vids, &log))
	inV := map[string]bool{}
	for _, v := range vids {
		k := theKeys()[v]
		inV[fmt.Sprintf("%s/%08x", k.ver.Name(), k.ver.KeyHash())] = true
	}
	anyKnown := false
	for _, s := range sids {
		k := theKeys()[s]
		if inV[fmt.Sprintf("%s/%08x", k.signer.Name(), k.signer.KeyHash())] {
			anyKnown = true
		}
	}
	if err == nil {
		if n.Text != text {
			return fmt.Sprintf("Open(Sign(%q)) returned text %q", text, n.Text), "opened"
		}
		if !anyKnown {
			return "note opened although no signer is a known verifier", "opened"
		}
		return "", "opened"
	}
	var une *note.UnverifiedNoteError
	if errors.As(err, &une) && anyKnown {
		return "known signer present but Open reports no verifiable signatures", "unverified"
	}
	return "", "not-opened"
}

// coSign: a note that already carries signatures (opened with V1 after signing with S1) is signed again
// with S2. Documented: the new signatures follow the existing ones (Sigs, then UnverifiedSigs), and an
// existing signature is elided exactly when one of the new signers uses the same key (name and hash).
func coSign(text string, s1, s2, v1, v2 []string) (string, string) {
	var ss1, ss2 []note.Signer
	for _, id := range s1 {
		ss1 = append(ss1, theKeys()[id].signer)
	}
	for _, id := range s2 {
		ss2 = append(ss2, theKeys()[id].signer)
	}
	msg1, err := note.Sign(&note.Note{Text: text}, ss1...)
	if err != nil {
		return "first Sign failed: " + err.Error(), "cosign"
	}
	var log []call
	n1, err := note.Open(msg1, verifiers(v1, &log))
	if err != nil {
		var une *note.UnverifiedNoteError
		if !errors.As(err, &une) {
			return "", "cosign:first-open-failed"
		}
		n1 = une.Note
	}
	existing := append(sigList(n1.Sigs), sigList(n1.UnverifiedSigs)...)
	// the caller's slices have room behind their last element (they are windows of longer arrays, as after
	// sigs[:k]); what lies there belongs to the caller
	sentinel := note.Signature{Name: "sentinel.example", Hash: 0x5e5e5e5e, Base64: "Xl5eXnNlbnRpbmVs"}
	spare := func(in []note.Signature) []note.Signature {
		b := make([]note.Signature, len(in), len(in)+3)
		copy(b, in)
		full := b[:len(in)+3]
		full[len(in)], full[len(in)+1], full[len(in)+2] = sentinel, sentinel, sentinel
		return b
	}
	n1.Sigs, n1.UnverifiedSigs = spare(n1.Sigs), spare(n1.UnverifiedSigs)
	ss2w := make([]note.Signer, len(ss2), len(ss2)+2)
	copy(ss2w, ss2)
	msg2, err := note.Sign(n1, ss2w...)
	if err != nil {
		return "second Sign failed: " + err.Error(), "cosign"
	}
	for _, w := range [][]note.Signature{n1.Sigs, n1.UnverifiedSigs} {
		for _, e := range w[len(w):cap(w)] {
			if e != sentinel {
				return fmt.Sprintf("Sign wrote %v into the caller's array behind the end of a signature list it was given", e), "cosign"
			}
		}
	}
	for _, e := range ss2w[len(ss2w):cap(ss2w)] {
		if e != nil {
			return "Sign wrote into the caller's array behind the end of the signer list", "cosign"
		}
	}
	// Sign must not change the note it is given
	if after := append(sigList(n1.Sigs), sigList(n1.UnverifiedSigs)...); !eq(after, existing) || n1.Text != text {
		return fmt.Sprintf("Sign changed the note it was given: signatures %v -> %v, text %q -> %q", existing, after, text, n1.Text), "cosign"
	}
	gotText, gotSigs, ok := refParse(string(msg2))
	if !ok || gotText != text {
		return fmt.Sprintf("co-signed message is malformed or carries another text: %q", msg2), "cosign"
	}
	replaced := map[string]bool{}
	for _, sg := range ss2 {
		replaced[fmt.Sprintf("%s/%08x", sg.Name(), sg.KeyHash())] = true
	}
	var want []string
	for i, e := range append(append([]note.Signature(nil), n1.Sigs...), n1.UnverifiedSigs...) {
		if !replaced[fmt.Sprintf("%s/%08x", e.Name, e.Hash)] {
			want = append(want, existing[i])
		}
	}
	var got []string
	for _, g := range gotSigs {
		got = append(got, sigStr(g.name, g.hash, g.b64))
	}
	if len(got) != len(want)+len(ss2) || !eq(got[:len(want)], want) {
		return fmt.Sprintf("co-signing with %v a note that carries %v: signature lines %v; documented: the existing ones except those of the same key (%v), then the new ones", s2, existing, got, want), "cosign"
	}
	for i, sg := range ss2 {
		g := gotSigs[len(want)+i]
		if g.name != sg.Name() || g.hash != sg.KeyHash() {
			return fmt.Sprintf("new signature %d is by %s/%08x, signer is %s/%08x", i, g.name, g.hash, sg.Name(), sg.KeyHash()), "cosign"
		}
	}
	if m, class := openCase(string(msg2), v2); m != "" {
		return "co-signed message: " + m, "cosign:" + class
	}
	return "", "cosign:ok"
}

// keyBinding mutates every byte of an encoded verifier key and signer key: NewVerifier/NewSigner must
// refuse, or return an object whose name and hash still satisfy hash == SHA-256(name "\n" key)[:4].
func keyBinding(r *fw.Run) {
	l := fw.NewLocal()
	defer r.Merge(l)
	sk, vk, _ := note.GenerateKey(&detRand{seed: "binding"}, "bind.example")
	refHash := func(name string, key []byte) uint32 {
		h := sha256.New()
		h.Write([]byte(name))
		h.Write([]byte("\n"))
		h.Write(key)
		return binary.BigEndian.Uint32(h.Sum(nil))
	}
	check := func(kind, enc string) {
		l.States++
		l.Execs++
		var name string
		var hash uint32
		var err error
		if kind == "verifier" {
			var v note.Verifier
			if v, err = note.NewVerifier(enc); err == nil {
				name, hash = v.Name(), v.KeyHash()
			}
		} else {
			var s note.Signer
			if s, err = note.NewSigner(enc); err == nil {
				name, hash = s.Name(), s.KeyHash()
			}
		}
		if err != nil {
			l.Outcomes["key:refused"]++
			return
		}
		l.Outcomes["key:accepted"]++
		l.Nontrivial++
		// recompute the binding from the encoded string
		rest := enc
		if kind == "signer" {
			rest = strings.TrimPrefix(rest, "PRIVATE+KEY+")
		}
		parts := strings.SplitN(rest, "+", 3)
		if len(parts) != 3 {
			r.Violation("key:"+kind+":"+strconv.QuoteToASCII(enc), fmt.Sprintf("New%s accepted the malformed key %q", kind, enc), caseT{Kind: "key", Text: strconv.QuoteToASCII(enc)})
			return
		}
		key, derr := base64.StdEncoding.DecodeString(parts[2])
		pub := key
		if kind == "signer" && derr == nil && len(key) == 33 {
			pub = append([]byte{key[0]}, ed25519.NewKeyFromSeed(key[1:])[32:]...)
		}
		// the hash field is compared as a number (hex digits of either case denote the same hash)
		h64, herr := strconv.ParseUint(parts[1], 16, 32)
		if derr != nil || herr != nil || len(parts[1]) != 8 || parts[0] != name || uint32(h64) != hash || refHash(name, pub) != hash {
			r.Violation("key:"+kind+":"+strconv.QuoteToASCII(enc), fmt.Sprintf("New%s(%q) accepted a key whose hash does not bind its name and key (name %q hash %08x)", kind, enc, name, hash), caseT{Kind: "key", Text: strconv.QuoteToASCII(enc)})
		}
	}
	for _, kv := range [][2]string{{"verifier", vk}, {"signer", sk}} {
		kind, enc := kv[0], kv[1]
		check(kind, enc)
		// the hash field replaced by plausible but wrong derivations from the same name and key material
		{
			pre := ""
			rest := enc
			if kind == "signer" {
				pre, rest = "PRIVATE+KEY+", strings.TrimPrefix(enc, "PRIVATE+KEY+")
			}
			parts := strings.SplitN(rest, "+", 3)
			raw, _ := base64.StdEncoding.DecodeString(parts[2])
			vparts := strings.SplitN(vk, "+", 3)
			pub, _ := base64.StdEncoding.DecodeString(vparts[2])
			sum := func(bs ...[]byte) string {
				h := sha256.New()
				for _, b := range bs {
					h.Write(b)
				}
				return fmt.Sprintf("%08x", binary.BigEndian.Uint32(h.Sum(nil)))
			}
			n, nl := []byte(parts[0]), []byte("\n")
			for _, alt := range []string{
				sum(n, nl, raw), sum(n, nl, raw[1:]), sum(n, nl, pub[1:]), sum(n, raw), sum(n, pub), sum(raw), sum(pub), sum(n),
				sum(n, nl, []byte(parts[2])), sum(n, nl, []byte(vparts[2])), sum(n, nl), "00000000", "ffffffff",
			} {
				if alt == vparts[1] {
					continue
				}
				check(kind, pre+parts[0]+"+"+alt+"+"+parts[2])
			}
		}
		for i := 0; i < len(enc); i++ {
			for _, c := range []byte{enc[i] ^ 1, enc[i] ^ 0x20, '+', ' ', 'A', '0'} {
				if c == enc[i] {
					continue
				}
				b := []byte(enc)
				b[i] = c
				check(kind, string(b))
			}
			check(kind, enc[:i]+enc[i+1:])
			check(kind, enc[:i]+"x"+enc[i:])
		}
	}
	r.Sample(caseT{Kind: "key", Text: strconv.QuoteToASCII(vk)})
}

var textAlpha = []string{"a", "\n", "— ", " ", "é", "\x01", "\xff", "\ufffd"}

// FirstCalls is the menu of the fresh-process call-order check (keys are generated from fixed seeds, so
// every process sees the same keys and signatures).
func FirstCalls() []fw.Call {
	var out []fw.Call
	for _, c := range []struct {
		text      string
		sids, vid []string
	}{{"hello\n", []string{"k1"}, []string{"k1"}}, {"a\nb\n", []string{"k1", "k2"}, []string{"k2"}}, {"x\n", []string{"k3"}, []string{"k1"}}, {"x\n", []string{"bad"}, []string{"k1"}}} {
		c := c
		out = append(out, fw.Call{Name: fmt.Sprintf("sign-open(%q,%v,%v)", c.text, c.sids, c.vid), F: func() string {
			msg, class := signOpen(c.text, c.sids, c.vid)
			return msg + "|" + class
		}})
	}
	for _, m := range []string{"a\n\n— k1.example AAAAAAA=\n", "a\n", "a\n\n— x AAAAAAA=\n— x AAAAAAA=\n", ""} {
		m := m
		out = append(out, fw.Call{Name: fmt.Sprintf("open(%q)", m), F: func() string {
			msg, class := openCase(m, []string{"k1", "k2"})
			return msg + "|" + class
		}})
	}
	out = append(out, fw.Call{Name: "NewVerifier/NewSigner", F: func() string {
		_, e1 := note.NewVerifier("k1.example+00000000+AAAA")
		_, e2 := note.NewSigner("PRIVATE+KEY+k1.example+00000000+AAAA")
		_, e3 := note.NewVerifier("")
		return fmt.Sprint(e1, e2, e3)
	}})
	return out
}

func Run(r *fw.Run) {
	defer fw.FirstCallOrders(r, r.ID, FirstCalls(), nil)
	Lt := r.Pick(5, 6)
	r.Bounds["text_alphabet"] = []string{"a", "\\n", "em-dash+space", "space", "é", "0x01", "0xFF", "U+FFFD (validly encoded)"}
	r.Bounds["text_max_len"] = Lt
	r.Bounds["keys"] = "k1, k2 (distinct names), k3 (k1's name, other key), bad (garbage under k1's identity), dup (second verifier for k1's name+hash)"
	r.Rule = "(a) every text over a 7-symbol alphabet up to text_max_len and every sequence of <=4 line atoms x every subset of signers {k1,k2,k3,bad} (plus a duplicated signer) x every subset of verifiers {k1,k2,k3} (plus the ambiguous pair): Sign then Open; (b) every message assembled from <=5 line atoms (incl. malformed and duplicate signature lines, 99/100/101 signatures): Open vs the documented format; (c) every byte-level mutation (flip low/high bit, replace by newline/space, delete, insert newline/'a') at every position and line-level swap/duplicate/drop of signed messages. Monitor: every verified signature has a recorded verifier call over exactly the returned text that returned true, confirmed by an independent ed25519.Verify. non-trivial = Open succeeded"
	r.Assume = []string{"Ed25519 unforgeability", "reference parser transcribed from the package documentation incl. the documented de-duplication (DESIGN 7)"}
	ks := theKeys()
	_ = ks
	signerSets := [][]string{{}, {"k1"}, {"k2"}, {"k3"}, {"k1", "k2"}, {"k2", "k1"}, {"k1", "k3"}, {"k1", "k2", "k3"}, {"bad"}, {"bad", "k2"}, {"k1", "k1"}, {"k2", "bad"}}
	verSets := [][]string{{}, {"k1"}, {"k2"}, {"k3"}, {"k1", "k2"}, {"k1", "k3"}, {"k1", "k2", "k3"}, {"k1", "dup"}, {"k2", "k1", "dup"}, {"k1", "dup", "dup2"}, {"dup", "dup2", "k1"}, {"k1", "k1", "k1"}, {"k1", "dup", "k2", "dup2", "dup", "k1"}, {"dup", "k1", "dup2", "k1", "dup"}}
	run := func(kind string, text string, l *fw.Local) {
		for _, ss := range signerSets {
			for vi, vs := range verSets {
				if vi >= 9 && len(text) > 2 {
					continue // the sets with three and more copies of one key: short texts only
				}
				l.Execs++
				l.Transitions++
				msg, class := signOpen(text, ss, vs)
				l.Outcomes["sign-open:"+class]++
				if class == "opened" {
					l.Nontrivial++
				}
				if msg != "" {
					c := caseT{Kind: "sign-open", Text: strconv.QuoteToASCII(text), Signers: ss, Verifiers: vs}
					r.Violation(c.key(), msg, c)
				}
			}
		}
	}
	// (a) texts
	enum.Strings(textAlpha, Lt, fw.Workers(), func(w int) (func([]byte, int), func()) {
		l := fw.NewLocal()
		return func(b []byte, d int) {
			l.States++
			run("text", string(b), l)
		}, func() { r.Merge(l) }
	})
	k1sig := func(text string) string {
		m, _ := note.Sign(&note.Note{Text: text}, theKeys()["k1"].signer)
		return strings.TrimSuffix(string(m[bytes.LastIndex(m, []byte("\n\n"))+2:]), "\n")
	}
	lineAtoms := []string{"a", "", k1sig("a\n"), "— x AAAAAAA=", "—", " ", "— k1.example", "b c"}
	var texts []string
	enum.Sequences(len(lineAtoms), 4, func(seq []int) {
		var b strings.Builder
		for _, x := range seq {
			b.WriteString(lineAtoms[x] + "\n")
		}
		texts = append(texts, b.String())
		if len(seq) > 0 {
			texts = append(texts, strings.TrimSuffix(b.String(), "\n")) // no final newline: invalid note text
		}
	})
	fw.Parallel(16, func(sh int) {
		l := fw.NewLocal()
		for i := sh; i < len(texts); i += 16 {
			l.States++
			run("lines", texts[i], l)
		}
		r.Merge(l)
	})
	r.Sample(caseT{Kind: "sign-open", Text: strconv.QuoteToASCII("a\n\n— x AAAAAAA=\n"), Signers: []string{"k1", "k2"}, Verifiers: []string{"k2"}})

	// (b) arbitrary messages
	good1, good2 := k1sig("a\n"), ""
	{
		m, _ := note.Sign(&note.Note{Text: "a\n"}, theKeys()["k2"].signer)
		good2 = strings.TrimSuffix(string(m[bytes.LastIndex(m, []byte("\n\n"))+2:]), "\n")
	}
	badSame := "— k1.example " + base64.StdEncoding.EncodeToString(append(binary.BigEndian.AppendUint32(nil, theKeys()["k1"].ver.KeyHash()), make([]byte, 64)...))
	msgAtoms := []string{"a", "", good1, good2, badSame, "— x AAAAAAA=", "— x AAAA", "—  AAAAAAA=", "— x+y AAAAAAA=", "— x AAAAAAA= ", "— x", "-- x AAAAAAA=", "— x\tAAAAAAA="}
	var msgs []string
	maxLines := r.Pick(4, 5)
	enum.Sequences(len(msgAtoms), maxLines, func(seq []int) {
		var b strings.Builder
		for _, x := range seq {
			b.WriteString(msgAtoms[x] + "\n")
		}
		msgs = append(msgs, b.String(), strings.TrimSuffix(b.String(), "\n"))
	})
	// long lines: a signature line, a key name and a text line longer than the usual buffer sizes
	// (4 KiB, 64 KiB, 1 MiB), before and after good and bad signatures of known keys
	for _, n := range []int{4000, 4096, 49000, 49143, 49200, 65536, 70000, 1 << 20} {
		longSig := "— x " + base64.StdEncoding.EncodeToString(append([]byte{0, 0, 0, 9}, make([]byte, n)...))
		longName := "— " + strings.Repeat("n", n) + " AAAAAAA="
		longText := strings.Repeat("t", n)
		msgs = append(msgs,
			"a\n\n"+longSig+"\n"+good1+"\n", "a\n\n"+good1+"\n"+longSig+"\n", "a\n\n"+longSig+"\n"+badSame+"\n", "a\n\n"+longSig+"\n"+good2+"\n"+badSame+"\n",
			"a\n\n"+longName+"\n"+good1+"\n", "a\n\n"+longName+"\n"+badSame+"\n", "a\n\n"+longSig+"\n",
			longText+"\n\n"+good1+"\n", "a\n"+longText+"\n\n"+good1+"\n")
		// and through Sign: a long text signed and opened
		if m, err := note.Sign(&note.Note{Text: longText + "\n"}, theKeys()["k1"].signer, theKeys()["k2"].signer); err == nil {
			msgs = append(msgs, string(m))
		}
	}
	// 99 / 100 / 101 signature lines (distinct unknown signatures, then a good one)
	for _, n := range []int{7, 8, 9, 15, 16, 17, 31, 32, 33, 63, 64, 65, 98, 99, 100, 101} {
		var b strings.Builder
		b.WriteString("a\n\n")
		for i := 0; i < n; i++ {
			raw := append([]byte{0, 0, 0, byte(i)}, byte(i), 1)
			b.WriteString("— x " + base64.StdEncoding.EncodeToString(raw) + "\n")
		}
		msgs = append(msgs, b.String()+good1+"\n", good1+"\n"+b.String(), "a\n\n"+good1+"\n"+strings.TrimPrefix(b.String(), "a\n\n"))
		// duplicates count toward the cap
		var d strings.Builder
		d.WriteString("a\n\n" + good1 + "\n")
		for i := 0; i < n; i++ {
			d.WriteString("— x AAAAAAA=\n")
		}
		msgs = append(msgs, d.String())
	}
	r.Bounds["messages"] = len(msgs)
	fw.Parallel(16, func(sh int) {
		l := fw.NewLocal()
		for i := sh; i < len(msgs); i += 16 {
			for vi, vs := range verSets {
				if vi >= 9 && (i%7 != 0 || len(msgs[i]) > 4000) {
					continue // the sets with three and more copies of one key: every seventh short message
				}
				l.States++
				l.Execs++
				l.Transitions++
				msg, class := openCase(msgs[i], vs)
				l.Outcomes["message:"+class]++
				if class == "opened" {
					l.Nontrivial++
				}
				if msg != "" {
					c := caseT{Kind: "message", Text: strconv.QuoteToASCII(msgs[i]), Verifiers: vs}
					r.Violation(c.key(), msg, c)
				}
			}
		}
		r.Merge(l)
	})

	// (a1) byte sweep over texts: every byte value and a few other fills in six positions of the text
	{
		l := fw.NewLocal()
		var fills []string
		for b := 0; b < 256; b++ {
			fills = append(fills, string([]byte{byte(b)}))
		}
		fills = append(fills, "%s", "%d", "— ", "—", "\u212a", "\u2028", "\u0085", "\xe2\x80", "\r\n", "\n\n")
		for _, sl := range [][2]string{{"", "a\n"}, {"a", "b\n"}, {"a", "\n"}, {"a\n", "b\n"}, {"a\n\n", "\n"}, {"", "\n"}, {"a\n", ""}} {
			for _, f := range fills {
				text := sl[0] + f + sl[1]
				for _, sv := range [][2][]string{{{"k1"}, {"k1"}}, {{"k1", "k2"}, {"k2"}}, {{"k2"}, {"k1"}}} {
					l.States++
					l.Execs += 2
					l.Transitions++
					msg, class := signOpen(text, sv[0], sv[1])
					l.Outcomes["sign-open:"+class]++
					if class == "opened" {
						l.Nontrivial++
					}
					if msg != "" {
						c := caseT{Kind: "sign-open", Text: strconv.QuoteToASCII(text), Signers: sv[0], Verifiers: sv[1]}
						r.Violation(c.key(), msg, c)
					}
				}
			}
		}
		r.Merge(l)
	}

	// (a2) co-signing: every ordered pair of non-empty signer lists over k1, k2, k3 (k3 shares k1's name)
	{
		l := fw.NewLocal()
		lists := [][]string{{"k1"}, {"k2"}, {"k3"}, {"k1", "k2"}, {"k2", "k1"}, {"k1", "k3"}, {"k3", "k1"}, {"k2", "k3"}, {"k3", "k2"}, {"k1", "k2", "k3"}}
		vsets := [][]string{{}, {"k1"}, {"k3"}, {"k2"}, {"k1", "k2", "k3"}}
		for _, text := range []string{"a\n", "a\n\nb\n", "\n"} {
			for _, s1 := range lists {
				for _, s2 := range lists {
					for _, v1 := range vsets {
						for _, v2 := range vsets {
							l.States++
							l.Execs += 4
							l.Transitions++
							msg, class := coSign(text, s1, s2, v1, v2)
							l.Outcomes[class]++
							if class == "cosign:ok" {
								l.Nontrivial++
							}
							if msg != "" {
								c := caseT{Kind: "cosign", Text: strconv.QuoteToASCII(text), Signers: append(append(append([]string{}, s1...), "then"), s2...), Verifiers: append(append(append([]string{}, v1...), "then"), v2...)}
								r.Violation(c.key(), msg, c)
							}
						}
					}
				}
			}
		}
		r.Merge(l)
	}

	// (b2) key strings: the key hash binds name and key; altered key strings are refused
	keyBinding(r)
	overlapPart(r, nil)
	retentionPart(r)
	sharedListPart(r)
	nameSweep(r)
	// many text lines that look like signature lines (they begin with an em dash and a space): limits on the
	// number of signatures are about signature lines, not about the text
	{
		l := fw.NewLocal()
		counts := []int{1, 2, 50, 98, 99, 100, 101, 102, 200, 1000}
		r.Bounds["signature_like_text_lines"] = counts
		for _, n := range counts {
			for _, line := range []string{"— dialogue\n", "— k1.example AAAAAAA=\n", "—\n", "— x\n\n— y\n"} {
				text := "intro\n" + strings.Repeat(line, n)
				for _, sids := range [][]string{{"k1"}, {"k1", "k2"}} {
					l.States++
					l.Execs++
					l.Transitions++
					if msg, class := signOpen(text, sids, []string{"k1", "k2"}); msg != "" {
						r.Violation(fmt.Sprintf("sign-open:siglike:%d:%q:%v", n, line, sids), msg, caseT{Kind: "sign-open", Text: strconv.QuoteToASCII(text), Signers: sids, Verifiers: []string{"k1", "k2"}})
					} else if class != "" {
						l.Nontrivial++
					}
				}
			}
		}
		r.Merge(l)
	}
	// dense length sweep: a text line, a signature payload and a key name of every length 0..enum.DenseMax
	{
		var mu sync.Mutex
		r.Bounds["dense_length_sweep"] = fmt.Sprintf("text line, signature payload and key name of every length 0..%d", enum.DenseMax)
		fw.Parallel(16, func(sh int) {
			l := fw.NewLocal()
			defer r.Merge(l)
			enum.EachLength('t', enum.DenseMax, func(f string) {
				n := len(f)
				if n%16 != sh {
					return
				}
				l.States++
				report := func(kind, text string, sg, vs []string, msg string) {
					mu.Lock()
					r.Violation(fmt.Sprintf("dense:%s:%d", kind, n), msg, caseT{Kind: kind, Text: strconv.QuoteToASCII(text), Signers: sg, Verifiers: vs})
					mu.Unlock()
				}
				l.Execs += 3
				l.Transitions += 3
				if msg, class := signOpen(f+"\n", []string{"k1"}, []string{"k1"}); msg != "" {
					report("sign-open", f+"\n", []string{"k1"}, []string{"k1"}, msg)
				} else if class != "" {
					l.Nontrivial++
				}
				longSig := "— x " + base64.StdEncoding.EncodeToString(append([]byte{0, 0, 0, 9}, make([]byte, n)...))
				longName := "— " + strings.Repeat("n", n) + " AAAAAAA="
				for _, m := range []string{"a\n\n" + longSig + "\n" + good1 + "\n", "a\n\n" + longName + "\n" + good1 + "\n"} {
					if msg, _ := openCase(m, []string{"k1"}); msg != "" {
						report("message", m, nil, []string{"k1"}, msg)
					}
				}
			})
		})
	}

	// (c) mutations of signed messages
	type signed struct {
		text string
		ss   []string
	}
	var bases []signed
	for _, t := range []string{"a\n", "a\nb\n", "a\n\nb\n", "é\n", "\n", "a\n\n" + good1 + "\n", "\ufeffa\n", "\ufeff\n"} {
		for _, ss := range [][]string{{"k1"}, {"k1", "k2"}, {"k2", "k1"}} {
			bases = append(bases, signed{t, ss})
		}
	}
	fw.Parallel(len(bases), func(i int) {
		l := fw.NewLocal()
		defer r.Merge(l)
		b := bases[i]
		var ss []note.Signer
		for _, id := range b.ss {
			ss = append(ss, theKeys()[id].signer)
		}
		orig, _ := note.Sign(&note.Note{Text: b.text}, ss...)
		l.States++
		type mut struct {
			name string
			data []byte
		}
		var muts []mut
		for p := 0; p <= len(orig); p++ {
			ins := func(c byte) []byte {
				return append(append(append([]byte{}, orig[:p]...), c), orig[p:]...)
			}
			muts = append(muts, mut{fmt.Sprintf("insert-newline@%d", p), ins('\n')}, mut{fmt.Sprintf("insert-a@%d", p), ins('a')})
			// multi-byte insertions: runes and byte sequences that text-handling code tends to treat specially
			for _, w := range []string{"\ufeff", "\xef\xbb", "é", "\u2028", "\u00a0", "\r\n", "\n\n", "\u2014 ", "\x00\x00", "\ufffd", "\xe2\x80"} {
				muts = append(muts, mut{fmt.Sprintf("insert-%q@%d", w, p), append(append(append([]byte{}, orig[:p]...), w...), orig[p:]...)})
			}
			if p == len(orig) {
				break
			}
			rep := func(c byte) []byte {
				d := append([]byte{}, orig...)
				d[p] = c
				return d
			}
			// every byte value at every position for the first two base messages, a spread of values otherwise
			if i < 2 {
				for c := 0; c < 256; c++ {
					if byte(c) != orig[p] {
						muts = append(muts, mut{fmt.Sprintf("byte%#02x@%d", c, p), rep(byte(c))})
					}
				}
			} else {
				for _, c := range []byte{0x00, 0x09, 0x0d, 0x1f, '%', '+', '/', '=', '-', '_', 'A', 'z', '0', 0x7f, 0x80, 0xc3, 0xe2, 0xff} {
					if c != orig[p] {
						muts = append(muts, mut{fmt.Sprintf("byte%#02x@%d", c, p), rep(c)})
					}
				}
			}
			muts = append(muts, mut{fmt.Sprintf("flip-low@%d", p), rep(orig[p] ^ 1)}, mut{fmt.Sprintf("flip-high@%d", p), rep(orig[p] ^ 0x80)},
				mut{fmt.Sprintf("newline@%d", p), rep('\n')}, mut{fmt.Sprintf("space@%d", p), rep(' ')},
				mut{fmt.Sprintf("delete@%d", p), append(append([]byte{}, orig[:p]...), orig[p+1:]...)})
		}
		lines := strings.SplitAfter(string(orig), "\n")
		for a := 0; a < len(lines); a++ {
			for c := 0; c < len(lines); c++ {
				if a == c {
					continue
				}
				sw := append([]string{}, lines...)
				sw[a], sw[c] = sw[c], sw[a]
				muts = append(muts, mut{fmt.Sprintf("swap-lines-%d-%d", a, c), []byte(strings.Join(sw, ""))})
			}
			dup := append(append(append([]string{}, lines[:a+1]...), lines[a]), lines[a+1:]...)
			muts = append(muts, mut{fmt.Sprintf("dup-line-%d", a), []byte(strings.Join(dup, ""))})
			drop := append(append([]string{}, lines[:a]...), lines[a+1:]...)
			muts = append(muts, mut{fmt.Sprintf("drop-line-%d", a), []byte(strings.Join(drop, ""))})
		}
		for _, m := range muts {
			for _, vs := range [][]string{{"k1"}, {"k1", "k2"}, {"k2"}} {
				l.Execs++
				l.Transitions++
				msg, class := openCase(string(m.data), vs)
				l.Outcomes["mutation:"+class]++
				if msg == "" && class == "opened" {
					l.Nontrivial++
					// a modified message that still opens either carries the original text or a text that a
					// known key genuinely signed (e.g. a signed note embedded in the original text); the monitor
					// in openCase has already confirmed the signature over exactly the returned text with an
					// independent ed25519.Verify
					var log []call
					if n, err := note.Open(m.data, verifiers(vs, &log)); err == nil && n.Text != b.text {
						l.Outcomes["mutation:opened-with-other-genuinely-signed-text"]++
					}
				}
				if msg != "" {
					c := caseT{Kind: "mutation", Text: strconv.QuoteToASCII(string(m.data)), Verifiers: vs, Mutation: m.name, Signers: b.ss}
					r.Violation(c.key(), msg, c)
				}
			}
		}
	})
	r.Sample(caseT{Kind: "mutation", Text: strconv.QuoteToASCII("a\n\n" + good1 + "\n"), Verifiers: []string{"k1"}, Mutation: "flip-low@0"})
}

// ---------------------------------------------------------------- one verifier list shared by two calls

type yieldingIdentity struct{ note.Verifier }

func (y yieldingIdentity) Name() string    { coop.Yield(); return y.Verifier.Name() }
func (y yieldingIdentity) KeyHash() uint32 { coop.Yield(); return y.Verifier.KeyHash() }

// sharedListPart: two Open calls that share ONE value returned by VerifierList, in every interleaving at the
// points where the list asks its members for their names and key hashes (whenever it does that). Each call
// must return what it returns alone with a list of its own.
func sharedListPart(r *fw.Run) {
	l := fw.NewLocal()
	defer r.Merge(l)
	ks := theKeys()
	sign := func(text string, ids ...string) []byte {
		var ss []note.Signer
		for _, id := range ids {
			ss = append(ss, ks[id].signer)
		}
		m, _ := note.Sign(&note.Note{Text: text}, ss...)
		return m
	}
	msgs := [][]byte{sign("one\n", "k1"), sign("two\n", "k2"), sign("both\n", "k2", "k1"), sign("bad\n", "bad"), sign("three\n", "k3")}
	show := func(n *note.Note, err error) string {
		if err != nil {
			return "err=" + err.Error()
		}
		return fmt.Sprintf("text=%q sigs=%v unverified=%v", n.Text, sigList(n.Sigs), sigList(n.UnverifiedSigs))
	}
	mkList := func() note.Verifiers {
		return note.VerifierList(yieldingIdentity{ks["k1"].ver}, yieldingIdentity{ks["k2"].ver})
	}
	solo := make([]string, len(msgs))
	for i, m := range msgs {
		solo[i] = show(note.Open(m, mkList()))
	}
	runs := 0
	for i := range msgs {
		for j := range msgs {
			i, j := i, j
			l.States++
			k, capped := coop.Explore(func() ([]func(func()), func([]int, any)) {
				shared := mkList()
				var ra, rb string
				return []func(func()){
						func(func()) { ra = show(note.Open(msgs[i], shared)) },
						func(func()) { rb = show(note.Open(msgs[j], shared)) },
					}, func(sched []int, pan any) {
						if pan != nil || ra != solo[i] || rb != solo[j] {
							r.Violation(fmt.Sprintf("shared-list:%d:%d", i, j), fmt.Sprintf("two Open calls sharing one VerifierList, interleaving %v: results %q and %q (panic %v); alone with a list of their own: %q and %q", sched, ra, rb, pan, solo[i], solo[j]), caseT{Kind: "shared-list", Mutation: fmt.Sprintf("%d,%d", i, j)})
						}
					}
			}, 20000)
			runs += k
			if capped {
				r.Cap("shared verifier list: 20000 interleavings per pair reached")
			}
		}
	}
	r.Bounds["shared_verifier_list"] = fmt.Sprintf("%d ordered pairs of Open calls on one list, every interleaving at the members' Name/KeyHash calls", len(msgs)*len(msgs))
	l.Execs += int64(runs)
	l.Transitions += int64(runs)
	l.Nontrivial += int64(runs)
}

// ---------------------------------------------------------------- key names

// nameSweep: a key (server) name is valid exactly when it is not empty and has no plus sign and no Unicode
// white space. Every rune of a boundary set is tried inside, at the start and at the end of a name: key
// generation, NewSigner/NewVerifier, Sign and Open must all agree with that rule, and a valid name must make
// the whole round trip.
func nameSweep(r *fw.Run) {
	l := fw.NewLocal()
	defer r.Merge(l)
	var runes []rune
	// (from U+0020: a message must not contain other ASCII control characters anywhere, so a name with one
	// can sign but never be opened; that is the message rule, not the name rule)
	for c := rune(0x20); c < 0x180; c++ {
		runes = append(runes, c)
	}
	runes = append(runes, 0x09, 0x0b, 0x0c, 0x0d, 0x1680, 0x2000, 0x2003, 0x2005, 0x200a, 0x200b, 0x2028, 0x2029, 0x202f, 0x205f, 0x3000, 0xfeff, 0x4e05, 0x0160, 0x212a, 0xfffd, 0x10000, 0x10ffff, 0x7ff, 0x800, 0xd7ff, 0xe000)
	r.Bounds["key_name_runes"] = len(runes)
	for _, c := range runes {
		for _, name := range []string{"k" + string(c) + ".example", string(c) + "k.example", "k.example/" + string(c)} {
			l.States++
			l.Execs++
			l.Transitions++
			valid := name != "" && utf8.ValidString(name)
			for _, x := range name {
				if x == '+' || unicode.IsSpace(x) {
					valid = false
				}
			}
			skey, vkey, err := note.GenerateKey(&detRand{seed: "name-sweep"}, name)
			if err != nil {
				continue
			}
			rep := func(what string) {
				r.Violation("name:"+strconv.QuoteToASCII(name)+":"+what, fmt.Sprintf("key name %s (valid by the documented rule: %v): %s", strconv.QuoteToASCII(name), valid, what), caseT{Kind: "name", Text: strconv.QuoteToASCII(name)})
			}
			sg, e1 := note.NewSigner(skey)
			vf, e2 := note.NewVerifier(vkey)
			if (e1 == nil) != valid || (e2 == nil) != valid {
				rep(fmt.Sprintf("NewSigner err=%v, NewVerifier err=%v", e1, e2))
				continue
			}
			if !valid {
				// a hand-made signer with that name must be refused by Sign, and a message with such a line by Open
				if _, err := note.Sign(&note.Note{Text: "t\n"}, fakeSigner{name, 7, []byte("0123456789")}); err == nil {
					rep("Sign accepted a signer with this name")
				}
				if !strings.ContainsAny(name, "\n") {
					msg := "t\n\n— " + name + " AAAAB3g=\n"
					if _, err := note.Open([]byte(msg), note.VerifierList()); err == nil || !strings.Contains(err.Error(), "malformed") {
						var une *note.UnverifiedNoteError
						if errors.As(err, &une) || err == nil {
							rep(fmt.Sprintf("Open took a signature line with this name for well-formed (err=%v)", err))
						}
					}
				}
				continue
			}
			l.Nontrivial++
			m, err := note.Sign(&note.Note{Text: "t\n"}, sg)
			if err != nil {
				rep("Sign failed: " + err.Error())
				continue
			}
			n, err := note.Open(m, note.VerifierList(vf))
			if err != nil || len(n.Sigs) != 1 || n.Sigs[0].Name != name {
				rep(fmt.Sprintf("a note signed with this key does not open: %v", err))
			}
		}
	}
}

// ---------------------------------------------------------------- retention

// retentionPart: what the caller does with its own memory after a call returns must not change what the call
// produced. (1) a list built with VerifierList(vs...) keeps answering as built when vs is overwritten
// afterwards; (2) a Note returned by Open does not change when the message bytes are overwritten; (3) the
// bytes returned by Sign do not change when the note is edited, and editing the bytes does not change the note.
func retentionPart(r *fw.Run) {
	l := fw.NewLocal()
	defer r.Merge(l)
	ks := theKeys()
	ids := []string{"k1", "k2", "k3", "dup"}
	sign := func(text string, sids ...string) []byte {
		var ss []note.Signer
		for _, id := range sids {
			ss = append(ss, ks[id].signer)
		}
		m, err := note.Sign(&note.Note{Text: text}, ss...)
		if err != nil {
			panic(err)
		}
		return m
	}
	msgs := map[string][]byte{"by-k1": sign("hello\n", "k1"), "by-k2": sign("hello\n", "k2"), "by-k1k2": sign("two\nlines\n", "k1", "k2"), "by-k3": sign("hello\n", "k3")}
	show := func(n *note.Note, err error) string {
		if err != nil {
			return "err=" + err.Error()
		}
		return fmt.Sprintf("text=%q sigs=%v unverified=%v", n.Text, sigList(n.Sigs), sigList(n.UnverifiedSigs))
	}
	var sets [][]string
	for _, a := range ids {
		sets = append(sets, []string{a})
		for _, b := range ids {
			if a != b {
				sets = append(sets, []string{a, b})
			}
		}
	}
	r.Bounds["retention"] = fmt.Sprintf("%d verifier lists x every single replacement afterwards x %d messages; Open and Sign with the caller's bytes overwritten afterwards", len(sets), len(msgs))
	mnames := []string{"by-k1", "by-k2", "by-k1k2", "by-k3"}
	for _, set := range sets {
		for pos := range set {
			for _, repl := range ids {
				vs := make([]note.Verifier, len(set), len(set)+2)
				for i, id := range set {
					vs[i] = ks[id].ver
				}
				list := note.VerifierList(vs...)
				fresh := note.VerifierList(append([]note.Verifier(nil), vs...)...)
				vs[pos] = ks[repl].ver // the caller reuses its slice
				for _, mn := range mnames {
					l.States++
					l.Execs += 2
					l.Transitions++
					got := show(note.Open(append([]byte(nil), msgs[mn]...), list))
					want := show(note.Open(append([]byte(nil), msgs[mn]...), fresh))
					if got != want {
						r.Violation(fmt.Sprintf("retention:verifierlist:%v:%d:%s:%s", set, pos, repl, mn), fmt.Sprintf("VerifierList(%v...) answers differently after the caller overwrote element %d of its slice with %s: message %s opens as %s, a list built from a copy gives %s", set, pos, repl, mn, got, want), caseT{Kind: "retention", Signers: []string{mn}, Verifiers: set, Mutation: fmt.Sprintf("%d<-%s", pos, repl)})
					} else {
						l.Nontrivial++
					}
				}
			}
		}
	}
	for _, mn := range mnames {
		for _, set := range [][]string{{"k1"}, {"k2"}, {"k1", "k2"}} {
			var vs []note.Verifier
			for _, id := range set {
				vs = append(vs, ks[id].ver)
			}
			buf := append([]byte(nil), msgs[mn]...)
			n, err := note.Open(buf, note.VerifierList(vs...))
			before := show(n, err)
			var une *note.UnverifiedNoteError
			if errors.As(err, &une) {
				n = une.Note
				before = show(n, nil)
			}
			for i := range buf {
				buf[i] = 'X'
			}
			l.States++
			l.Execs++
			after := before
			if n != nil {
				after = show(n, nil)
			}
			if n != nil && before != after && err == nil {
				r.Violation("retention:open:"+mn, fmt.Sprintf("the Note returned by Open changed when the caller overwrote the message bytes: %s -> %s", before, after), caseT{Kind: "retention", Signers: []string{mn}, Verifiers: set, Mutation: "overwrite-message"})
			}
			if n != nil && errors.As(err, &une) && show(une.Note, nil) != before {
				r.Violation("retention:open-unverified:"+mn, "the Note inside UnverifiedNoteError changed when the caller overwrote the message bytes", caseT{Kind: "retention", Signers: []string{mn}, Verifiers: set, Mutation: "overwrite-message"})
			}
		}
	}
	{
		n := &note.Note{Text: "hello\n"}
		out, err := note.Sign(n, ks["k1"].signer)
		keep := string(out)
		n.Text = "other\n"
		n.Sigs = append(n.Sigs, note.Signature{Name: "x", Hash: 1, Base64: "AAAAAQ=="})
		l.States++
		l.Execs++
		if err != nil || string(out) != keep {
			r.Violation("retention:sign", "the bytes returned by Sign changed when the caller edited the note afterwards", caseT{Kind: "retention", Mutation: "edit-note-after-sign"})
		}
		for i := range out {
			out[i] = 'X'
		}
		if n.Text != "other\n" {
			r.Violation("retention:sign-back", "overwriting the bytes returned by Sign changed the note", caseT{Kind: "retention", Mutation: "overwrite-signed-bytes"})
		}
	}
}

// ---------------------------------------------------------------- overlapping calls

type yieldVerifiers struct {
	inner note.Verifiers
	yield func()
}

type yieldVerifier struct {
	note.Verifier
	yield func()
}

func (y yieldVerifier) Verify(msg, sig []byte) bool {
	m0, s0 := string(msg), string(sig)
	y.yield()
	ok := y.Verifier.Verify(msg, sig)
	y.yield()
	if string(msg) != m0 || string(sig) != s0 {
		panic("the message or signature handed to Verify changed while Verify was running")
	}
	return ok
}

func (y yieldVerifiers) Verifier(name string, hash uint32) (note.Verifier, error) {
	y.yield()
	v, err := y.inner.Verifier(name, hash)
	if err != nil {
		return nil, err
	}
	return yieldVerifier{v, y.yield}, nil
}

type yieldSigner struct {
	note.Signer
	yield func()
}

func (y yieldSigner) Sign(msg []byte) ([]byte, error) {
	m0 := string(msg)
	y.yield()
	sig, err := y.Signer.Sign(msg)
	y.yield()
	if string(msg) != m0 {
		panic("the text handed to Sign changed while Sign was running")
	}
	return sig, err
}

// overlapMenu returns named calls of Open and Sign; each takes the yield function handed to its callbacks.
func overlapMenu() (names []string, calls []func(yield func()) string) {
	ks := theKeys()
	sign := func(text string, ids ...string) []byte {
		var ss []note.Signer
		for _, id := range ids {
			ss = append(ss, ks[id].signer)
		}
		m, err := note.Sign(&note.Note{Text: text}, ss...)
		if err != nil {
			panic(err)
		}
		return m
	}
	vlist := func(ids ...string) note.Verifiers {
		var vs []note.Verifier
		for _, id := range ids {
			vs = append(vs, ks[id].ver)
		}
		return note.VerifierList(vs...)
	}
	addOpen := func(name string, msg []byte, vids ...string) {
		names = append(names, name)
		calls = append(calls, func(y func()) string {
			n, err := note.Open(append([]byte(nil), msg...), yieldVerifiers{vlist(vids...), y})
			if err != nil {
				return "err=" + err.Error()
			}
			return fmt.Sprintf("text=%q sigs=%v unverified=%v", n.Text, sigList(n.Sigs), sigList(n.UnverifiedSigs))
		})
	}
	addSign := func(name, text string, sids ...string) {
		names = append(names, name)
		calls = append(calls, func(y func()) string {
			var ss []note.Signer
			for _, id := range sids {
				ss = append(ss, yieldSigner{ks[id].signer, y})
			}
			n := &note.Note{Text: text}
			m, err := note.Sign(n, ss...)
			return fmt.Sprintf("%q err=%v text-after=%q sigs-after=%d", m, err, n.Text, len(n.Sigs))
		})
	}
	m1 := sign("hello\n", "k1")
	m2 := sign("a longer text\nof two lines\n", "k1", "k2")
	m3 := sign("hello\n", "bad")
	m4 := sign("other\n", "k2")
	long := sign(strings.Repeat("line of text\n", 300), "k2", "k1")
	addOpen("open-k1", m1, "k1")
	addOpen("open-k1k2", m2, "k1", "k2")
	addOpen("open-k1k2-knows-k2", m2, "k2")
	addOpen("open-bad-signature", m3, "k1")
	addOpen("open-unknown-key", m4, "k1")
	addOpen("open-long", long, "k1", "k2")
	addOpen("open-malformed", []byte("hello\n\n— k1.example no-base64!\n"), "k1")
	addSign("sign-k1", "hello\n", "k1")
	addSign("sign-k2k1", "another text\n", "k2", "k1")
	addSign("sign-long", strings.Repeat("line of text\n", 300), "k1")
	// calls of Sign that fail after an earlier signer has already produced its signature
	addFailing := func(name, text string, existing []note.Signature, mk func(y func()) []note.Signer) {
		names = append(names, name)
		calls = append(calls, func(y func()) string {
			n := &note.Note{Text: text, Sigs: existing}
			m, err := note.Sign(n, mk(y)...)
			return fmt.Sprintf("%q err=%v", m, err)
		})
	}
	addFailing("sign-k1-then-failing-signer", "will fail\n", nil, func(y func()) []note.Signer {
		return []note.Signer{yieldSigner{ks["k1"].signer, y}, errSigner{ks["k2"].signer}}
	})
	addFailing("sign-k2-then-invalid-name", "will fail too\n", nil, func(y func()) []note.Signer {
		return []note.Signer{yieldSigner{ks["k2"].signer, y}, fakeSigner{"bad name", 7, []byte("x")}}
	})
	addFailing("sign-k1-over-malformed-existing", "fails late\n", []note.Signature{{Name: "x.example", Hash: 5, Base64: "!!not base64!!"}}, func(y func()) []note.Signer {
		return []note.Signer{yieldSigner{ks["k1"].signer, y}}
	})
	return
}

type errSigner struct{ note.Signer }

func (errSigner) Sign([]byte) ([]byte, error) { return nil, fmt.Errorf("injected signer error") }

// overlapPart explores every interleaving (at verifier lookups, Verify and Sign callbacks) of every ordered
// pair of calls and compares each result with the call run alone. only (replay) restricts to one pair.
func overlapPart(r *fw.Run, only *caseT) {
	names, calls := overlapMenu()
	if only != nil {
		idx := func(n string) int {
			for i, m := range names {
				if m == n {
					return i
				}
			}
			return 0
		}
		if len(only.Signers) != 2 {
			return
		}
		a, b := idx(only.Signers[0]), idx(only.Signers[1])
		names, calls = []string{names[a], names[b]}, []func(func()) string{calls[a], calls[b]}
	}
	l := fw.NewLocal()
	defer r.Merge(l)
	pairs, runs, capped := coop.Pairs(len(calls), func(i int, y func()) string { return calls[i](y) }, nil, func(i, j int, sched []int, what string) {
		r.Violation(fmt.Sprintf("overlap:%s:%s", names[i], names[j]), fmt.Sprintf("%s overlapped with %s, interleaving %v: %s", names[i], names[j], sched, what), caseT{Kind: "overlap", Signers: []string{names[i], names[j]}})
	}, 20000)
	if only == nil {
		r.Bounds["overlapping_calls"] = fmt.Sprintf("%d ordered pairs of Open/Sign calls (%v), every interleaving at Verifiers.Verifier, Verifier.Verify and Signer.Sign callbacks (cap 20000 per pair)", pairs, names)
	}
	if capped {
		r.Cap("overlapping note calls: 20000 interleavings per pair reached")
	}
	l.States += int64(pairs)
	l.Execs += int64(runs)
	l.Transitions += int64(runs)
	l.Nontrivial += int64(runs)
	l.Outcomes["overlap:interleavings"] += int64(runs)
}

func Replay(r *fw.Run, raw json.RawMessage) {
	var c caseT
	if err := json.Unmarshal(raw, &c); err != nil {
		r.Violation("replay", err.Error(), nil)
		return
	}
	if c.Kind == "overlap" {
		r.States.Add(1)
		r.Sample(c)
		overlapPart(r, &c)
		return
	}
	if c.Kind == "shared-list" {
		r.Sample(c)
		sharedListPart(r)
		return
	}
	if c.Kind == "name" {
		r.Sample(c)
		nameSweep(r)
		return
	}
	if c.Kind == "retention" {
		r.Sample(c)
		retentionPart(r)
		return
	}
	t, _ := strconv.Unquote(c.Text)
	r.States.Add(1)
	r.Transitions.Add(1)
	r.Execs.Add(1)
	r.Sample(c)
	var msg string
	if c.Kind == "cosign" {
		split := func(x []string) (a, b []string) {
			for i, e := range x {
				if e == "then" {
					return x[:i], x[i+1:]
				}
			}
			return x, nil
		}
		s1, s2 := split(c.Signers)
		v1, v2 := split(c.Verifiers)
		text, _ := strconv.Unquote(c.Text)
		if msg, _ := coSign(text, s1, s2, v1, v2); msg != "" {
			r.Violation(c.key(), msg, c)
		}
		return
	}
	if c.Kind == "sign-open" {
		msg, _ = signOpen(t, c.Signers, c.Verifiers)
	} else {
		msg, _ = openCase(t, c.Verifiers)
	}
	if msg != "" {
		r.Violation(c.key(), msg, c)
	}
}
