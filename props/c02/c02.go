// Package c02: formatting a go.mod/go.work file preserves its meaning and is idempotent.
package c02

import (
	"encoding/json"
	"fmt"
	"sort"
	"strconv"
	"strings"
	"sync"

	"golang.org/x/mod/modfile"
	"golang.org/x/mod/module"

	"verif/internal/enum"
	"verif/internal/fw"
	"verif/props/modedit"
	"verif/props/modgen"
)

type caseT struct {
	Layer string `json:"layer"` // syntax | mod | mod-lax | work
	Fix   bool   `json:"with_version_fixer,omitempty"`
	Input string `json:"input_quoted"`
}

func (c caseT) key() string { return fmt.Sprintf("%s:fix=%v:%s", c.Layer, c.Fix, c.Input) }

// ---------------------------------------------------------------- syntax layer

type event struct {
	pos  int
	text string
}

// flatten lists statements/tokens/comment texts as events ordered by byte position: it does
// not depend on which node a comment is attached to.
func flatten(fs *modfile.FileSyntax) []string {
	var ev []event
	seq := 0
	add := func(pos int, s string) {
		ev = append(ev, event{pos*4096 + seq, s})
		seq++
	}
	coms := func(c *modfile.Comments) {
		for _, group := range [][]modfile.Comment{c.Before, c.Suffix, c.After} {
			for _, x := range group {
				t := strings.TrimSpace(x.Token)
				if t == "" {
					continue // blank-line marker
				}
				add(x.Start.Byte, "comment "+t)
			}
		}
	}
	coms(&fs.Comments)
	for _, st := range fs.Stmt {
		switch x := st.(type) {
		case *modfile.CommentBlock:
			coms(&x.Comments)
		case *modfile.Line:
			add(x.Start.Byte, "line "+strings.Join(x.Token, "\x1f"))
			coms(&x.Comments)
		case *modfile.LineBlock:
			add(x.Start.Byte, "block "+strings.Join(x.Token, "\x1f"))
			coms(&x.Comments)
			add(x.LParen.Pos.Byte, "(")
			coms(&x.LParen.Comments)
			for _, l := range x.Line {
				add(l.Start.Byte, "  line "+strings.Join(l.Token, "\x1f"))
				coms(&l.Comments)
			}
			add(x.RParen.Pos.Byte, ")")
			coms(&x.RParen.Comments)
		}
	}
	sort.SliceStable(ev, func(i, j int) bool { return ev[i].pos/4096 < ev[j].pos/4096 })
	out := make([]string, len(ev))
	for i, e := range ev {
		out[i] = e.text
	}
	return out
}

func syntaxCase(in []byte) (msg string, accepted bool) {
	fs, err := modfile.VerifParseSyntax("in", in)
	if err != nil {
		return "", false
	}
	out := modfile.Format(fs)
	fs2, err := modfile.VerifParseSyntax("out", out)
	if err != nil {
		return fmt.Sprintf("input %q is accepted, but its formatted form %q is rejected: %v", in, out, err), true
	}
	a, b := flatten(fs), flatten(fs2)
	if !modedit.Equal(a, b) {
		return fmt.Sprintf("formatting changed statements/tokens/comments: input %q -> output %q\n in: %q\nout: %q", in, out, a, b), true
	}
	if out2 := modfile.Format(fs2); string(out2) != string(out) {
		return fmt.Sprintf("formatting is not idempotent: %q -> %q -> %q", in, out, out2), true
	}
	// what Format returns belongs to the caller, and what Parse was given still belongs to the caller:
	// overwriting either must not change what the same tree formats to
	keep := string(out)
	for i := range out {
		out[i] = 'X'
	}
	for i := range in {
		in[i] = 'Y'
	}
	if out3 := modfile.Format(fs); string(out3) != keep {
		return fmt.Sprintf("Format of the same tree gives %q after the caller overwrote the input and the previous result (before: %q)", out3, keep), true
	}
	return "", true
}

var byteAlpha = []string{"a", "(", ")", ",", "[", "\"", "/", "\n", " ", "\r", "\\"}

// lineAlpha: whole lines, so that block structures with comments in every position (after the opening
// parenthesis, before and after the closing one, between lines) are reachable at small depth.
var lineAlpha = []string{"a (\n", "a ( //c\n", "b\n", "b c //d\n", "//e\n", "\n", ")\n", ") //f\n", "a ()\n", "x (y) z\n", "\"q r\" s\r\n", "  //g  \n"}

var atomAlpha = []string{"a", "b", "(", ")", "[", "]", ",", "\"s t\"", "`r`", "//c", "// d ", "\n", "\r\n", " ", "\t", "a//", "{", "}", "\x01", "\u00a0"}

// SweepSlots are (prefix, suffix) pairs; the byte sweep puts every fill between them.
var SweepSlots = [][2]string{
	{"a ", " b\n"}, {"a", "b c\n"}, {"x \"s", "t\" y\n"}, {"x `r", "q` y\n"}, {"a b //c", "d\n"}, {"//c", "d\na b\n"},
	{"a (\n\tb ", "\n)\n"}, {"a (\n\tb c //e", "\n)\n"}, {"a ( //f", "\n\tb\n)\n"}, {"a (\n\tb\n) //g", "\n"},
	{"", "a b\n"}, {"a b\n", ""}, {"a b ", ""}, {"a b //c", ""}, {"a \"s\\", "t\" y\n"},
	// inside a raw and an interpreted string of a statement that has an end-of-line comment and follows a
	// statement that has one too (a token that came to span lines would move comments about)
	{"a b //c\nx `r", "q` y //d\n"}, {"a b //c\nx \"s", "t\" y //d\n"}, {"a (\n\tb //c\n\t`r", "q` //d\n) //e\n"}, {"//c\na `r", "q` //d\n//e\n"},
	// at the very start and at the very end of a file that has whole-line and end-of-line comments
	{"", "a b\n// whole line\nc d // e\n\n// f\ng (\n\t// h\n\ti\n)\n"}, {"a b\n// whole line\nc d // e\n// f\n", ""}, {"// lead\n", "a b\n// whole\nc\n"},
}

// SweepFills are all 256 byte values plus format verbs, multi-byte runes and line endings.
func SweepFills() []string {
	var fills []string
	for b := 0; b < 256; b++ {
		fills = append(fills, string([]byte{byte(b)}))
	}
	fills = append(fills, "%s", "%d", "%%", "%!", "%v%", "é", "\u212a", "\ufffd", "\u00a0", "\u2028", "\u3000", "\xe2\x82", "\r\n", "\n\n", "//", "/*", "*/", "\ufeff", "\ufeff\ufeff", "\xef\xbb", "\ufffe", "\u200b", "\u0085", "\x00\x00")
	// words the typed layer gives a meaning to, and near misses of them (whole, cut short, run together)
	fills = append(fills, " indirect", " indirect;", " indirect; ", " indirect;x", "indirect;", " indirect ;", " indirect;;", " Indirect;", "\tindirect;\t",
		" Deprecated:", " Deprecated: ", "Deprecated:x", " deprecated: x", "+incompatible", " v1.0.0", " =>", " => ", "=>", " [", "]", ", ",
		" module", " go", " require", " toolchain", " godebug", " tool", " use", " retract", " exclude", " replace", " ignore", "=", " k=v", " a=b=c")
	fills = append(fills, enum.BoundaryRunes()...)
	fills = append(fills, enum.LongFills('a')...)
	fills = append(fills, strings.Repeat("(", 300), strings.Repeat("a (\n", 200), strings.Repeat("x ", 40000))
	return fills
}

// ---------------------------------------------------------------- directive layer

func fixer(path, vers string) (string, error) {
	switch vers {
	case "latest":
		return "v1.2.3", nil
	}
	if c := module.CanonicalVersion(vers); c != "" {
		return c, nil
	}
	return vers, nil
}

func parseDoc(layer string, data []byte, fix bool) (*modedit.Doc, error) {
	var fx modfile.VersionFixer
	if fix {
		fx = fixer
	}
	switch layer {
	case "work":
		w, err := modfile.ParseWork("go.work", data, fx)
		if err != nil {
			return nil, err
		}
		return &modedit.Doc{Work: true, W: w}, nil
	case "mod-lax":
		f, err := modfile.ParseLax("go.mod", data, fx)
		if err != nil {
			return nil, err
		}
		return &modedit.Doc{F: f}, nil
	}
	f, err := modfile.Parse("go.mod", data, fx)
	if err != nil {
		return nil, err
	}
	return &modedit.Doc{F: f}, nil
}

func directiveCase(layer string, in []byte, fix bool) (msg string, accepted bool) {
	d1, err := parseDoc(layer, in, fix)
	if err != nil {
		return "", false
	}
	v1 := d1.TypedDump()
	out := []byte(d1.Format())
	d2, err := parseDoc(layer, out, fix)
	if err != nil {
		return fmt.Sprintf("%s: input is accepted but its formatted form is rejected: %v\n--- input\n%s--- output\n%s", layer, err, in, out), true
	}
	v2 := d2.TypedDump()
	if !modedit.Equal(v1, v2) {
		return fmt.Sprintf("%s (fixer=%v): directive values change across formatting: %s\n--- input\n%s--- output\n%s", layer, fix, modedit.Diff(v1, v2), in, out), true
	}
	if out2 := d2.Format(); out2 != string(out) {
		return fmt.Sprintf("%s: formatting is not idempotent:\n--- first\n%s--- second\n%s", layer, out, out2), true
	}
	// the strict form must also survive without a fixer once versions are canonical
	if fix {
		d3, err := parseDoc(layer, out, false)
		if err != nil {
			return fmt.Sprintf("%s: file formatted after version fixing is rejected without a fixer: %v\n%s", layer, err, out), true
		}
		if v3 := d3.TypedDump(); !modedit.Equal(v1, v3) {
			return fmt.Sprintf("%s: fixed-and-formatted file reads differently without a fixer: %s", layer, modedit.Diff(v1, v3)), true
		}
	}
	return "", true
}

// FirstCalls is the menu of the fresh-process call-order check.
func FirstCalls() []fw.Call {
	var out []fw.Call
	for _, in := range []string{"module example.com/m\n\ngo 1.21\n\nrequire (\n\ta.com/x v1.0.0 // indirect\n\tb.com/y v1.1.0\n)\n", "a b // c\n// d\ne (\n\tf \"g h\"\n)\n", "x \"unterminated\n", "go 1.21\n\nuse (\n\t./a\n\t\"./b c\"\n)\n"} {
		in := in
		out = append(out, fw.Call{Name: fmt.Sprintf("syntax(%q)", in), F: func() string {
			msg, acc := syntaxCase([]byte(in))
			return fmt.Sprint(msg, acc)
		}})
		out = append(out, fw.Call{Name: fmt.Sprintf("typed(%q)", in), F: func() string {
			f, err := modfile.Parse("go.mod", []byte(in), nil)
			if err != nil {
				w, err2 := modfile.ParseWork("go.work", []byte(in), nil)
				if err2 != nil {
					return "err=" + err.Error() + " / " + err2.Error()
				}
				return string(modfile.Format(w.Syntax))
			}
			b, err := f.Format()
			return fmt.Sprintf("%s err=%v", b, err)
		}})
	}
	out = append(out, fw.Call{Name: "quote", F: func() string {
		return fmt.Sprint(modfile.AutoQuote("a b"), modfile.AutoQuote("x"), modfile.MustQuote("(("), modfile.IsDirectoryPath("./x"), modfile.ModulePath([]byte("module \"a.b/c\"\n")))
	}})
	return out
}

func Run(r *fw.Run) {
	defer fw.FirstCallOrders(r, r.ID, FirstCalls(), nil)
	L := r.Pick(7, 8)
	D := r.Pick(5, 6)
	K := r.Pick(2, 3)
	r.Bounds["byte_alphabet"] = byteAlpha
	r.Bounds["byte_max_len"] = L
	r.Bounds["atom_alphabet"] = atomAlpha
	r.Bounds["atom_max_depth"] = D
	r.Bounds["line_alphabet"] = lineAlpha
	r.Bounds["line_max_depth"] = r.Pick(6, 7)
	r.Bounds["max_statements"] = K
	r.Rule = "syntax layer: every byte string over the byte alphabet up to byte_max_len, every concatenation of up to atom_max_depth atoms, every sequence of up to line_max_depth lines of the line alphabet, and every generated file is parsed by the syntax-only parser; for accepted inputs the formatted output must parse, flatten to the same position-ordered sequence of statements/tokens/comment texts, and re-format to itself. Directive layer: every file of <= max_statements statement variants (kind x layout x quoting x comments) x separator x line ending, through Parse/ParseLax/ParseWork with and without a version fixer: directive values before and after formatting equal, formatting idempotent. non-trivial = input accepted by the parser"
	r.Assume = []string{"comment texts are compared in document (byte position) order, not by attachment point; blank-line markers and surrounding white space of comments are formatting (DESIGN 7)"}
	for _, sp := range []struct {
		name  string
		alpha []string
		depth int
	}{{"bytes", byteAlpha, L}, {"atoms", atomAlpha, D}, {"lines", lineAlpha, r.Pick(6, 7)}} {
		sp := sp
		enum.Strings(sp.alpha, sp.depth, fw.Workers(), func(w int) (func([]byte, int), func()) {
			l := fw.NewLocal()
			return func(b []byte, d int) {
				l.States++
				l.Transitions++
				l.Execs++
				msg, acc := syntaxCase(b)
				if acc {
					l.Nontrivial++
					l.Outcomes["syntax-"+sp.name+":accepted"]++
				} else {
					l.Outcomes["syntax-"+sp.name+":rejected"]++
				}
				if msg != "" {
					c := caseT{Layer: "syntax", Input: strconv.QuoteToASCII(string(b))}
					r.Violation(c.key(), msg, c)
				}
			}, func() { r.Merge(l) }
		})
	}
	r.Sample(caseT{Layer: "syntax", Input: strconv.QuoteToASCII("a ( // d \n\"s t\" `r`\n)\r\n")})

	// byte sweep: every byte value and a few other fills (format verbs, multi-byte runes, CRLF) in every
	// kind of position of small files: between tokens, inside an identifier, a quoted and a raw string, a
	// suffix and a whole-line comment, a block line, at the start and at the end of the file
	{
		l := fw.NewLocal()
		r.Bounds["byte_sweep_slots"] = len(SweepSlots)
		for _, sl := range SweepSlots {
			for _, f := range SweepFills() {
				b := []byte(sl[0] + f + sl[1])
				l.States++
				l.Transitions++
				l.Execs++
				msg, acc := syntaxCase(b)
				if acc {
					l.Nontrivial++
					l.Outcomes["syntax-sweep:accepted"]++
				} else {
					l.Outcomes["syntax-sweep:rejected"]++
				}
				if msg != "" {
					c := caseT{Layer: "syntax", Input: strconv.QuoteToASCII(string(b))}
					r.Violation(c.key(), msg, c)
				}
			}
		}
		r.Merge(l)
	}
	// dense length sweep: a token, a comment and a quoted string of every length 0..enum.DenseMax
	{
		var mu sync.Mutex
		dslots := [][2]string{{"a ", " b\n"}, {"a b //", "\n"}, {"x \"", "\" y\n"}, {"a (\n\tb ", " // c\n)\n"}}
		r.Bounds["dense_length_sweep"] = fmt.Sprintf("%d slots x every fill length 0..%d", len(dslots), enum.DenseMax)
		fw.Parallel(16, func(sh int) {
			l := fw.NewLocal()
			defer r.Merge(l)
			enum.EachLength('k', enum.DenseMax, func(f string) {
				if len(f)%16 != sh {
					return
				}
				for si, sl := range dslots {
					b := []byte(sl[0] + f + sl[1])
					l.States++
					l.Transitions++
					l.Execs++
					msg, acc := syntaxCase(b)
					if acc {
						l.Nontrivial++
					}
					if msg != "" {
						mu.Lock()
						r.Violation(fmt.Sprintf("syntax:dense:%d:%d", si, len(f)), msg, caseT{Layer: "syntax", Input: strconv.QuoteToASCII(string(b))})
						mu.Unlock()
					}
				}
			})
		})
	}

	// directive layer
	type job struct {
		layer string
		files []modgen.File
	}
	collect := func(stmts []modgen.Stmt) []modgen.File {
		var fs []modgen.File
		modgen.Files(stmts, K, func(f modgen.File) { fs = append(fs, f) })
		return fs
	}
	modFiles := collect(modgen.ModStmts())
	workFiles := collect(modgen.WorkStmts())
	r.Bounds["go_mod_files"] = len(modFiles)
	r.Bounds["go_work_files"] = len(workFiles)
	run := func(layer string, files []modgen.File) {
		fw.Parallel(16, func(sh int) {
			l := fw.NewLocal()
			for i := sh; i < len(files); i += 16 {
				f := files[i]
				for _, fix := range []bool{false, true} {
					if f.Fix && !fix {
						continue
					}
					if f.Lax && layer == "mod" {
						continue
					}
					if !fix && layer != "mod-lax" {
						// comments and tokens of the whole file, through the syntax-only parser
						l.Execs++
						if m, _ := syntaxCase([]byte(f.Text)); m != "" {
							c := caseT{Layer: "syntax", Input: strconv.QuoteToASCII(f.Text)}
							r.Violation(c.key(), m, c)
						}
					}
					l.States++
					l.Transitions++
					l.Execs++
					msg, acc := directiveCase(layer, []byte(f.Text), fix)
					if acc {
						l.Nontrivial++
						l.Outcomes[layer+":accepted"]++
					} else {
						l.Outcomes[layer+":rejected"]++
					}
					if msg != "" {
						c := caseT{Layer: layer, Fix: fix, Input: strconv.QuoteToASCII(f.Text)}
						r.Violation(c.key(), msg, c)
					}
				}
			}
			r.Merge(l)
		})
	}
	run("mod", modFiles)
	run("mod-lax", modFiles)
	run("work", workFiles)
	directiveSweep(r)
	r.Sample(caseT{Layer: "mod", Fix: true, Input: strconv.QuoteToASCII(modFiles[len(modFiles)/3].Text)})
}

// ValuePieces are what quoted values are built from in directiveSweep: letters of one, two and three bytes,
// an invalid byte, white space, and every character or pair the lexer gives a meaning to.
var ValuePieces = []string{"a", "é", "日", "\xff", " ", "/", "*", "//", "/*", "*/", "\"", "'", "`", "(", ")", ",", "=", ">", "\t", ";", "[", "]", "\\", "\u00a0"}

// directiveSweep: every value of up to 3 pieces, written as an interpreted and (where it can be) as a raw
// string, in the places of a file where the typed parsers read a quoted value and write it back their own
// way (module path, replacement directory, use directory): what is read after formatting is what was read
// before, and formatting is idempotent.
func directiveSweep(r *fw.Run) {
	var vals []string
	var rec func(cur string, n int)
	rec = func(cur string, n int) {
		if n > 0 {
			vals = append(vals, cur)
		}
		if n == 3 {
			return
		}
		for _, p := range ValuePieces {
			rec(cur+p, n+1)
		}
	}
	rec("", 0)
	type slot struct{ layer, pre, lead, post string }
	slots := []slot{
		{"mod", "module example.com/m\n\nreplace a.com/x => ", "./", "\n"},
		{"mod", "module example.com/m\n\nreplace (\n\tb.com/y v1.0.0 => ../y\n\ta.com/x => ", "../d", " // c\n)\n"},
		{"mod", "module ", "example.com/", "\n\ngo 1.21\n"},
		{"work", "go 1.21\n\nuse ", "./", "\n"},
		{"work", "go 1.21\n\nuse (\n\t./a\n\t", "./d", " // c\n)\n"},
	}
	r.Bounds["quoted_value_sweep"] = fmt.Sprintf("%d values (<= 3 pieces of %d) x %d places x {interpreted, raw} string", len(vals), len(ValuePieces), len(slots))
	fw.Parallel(16, func(sh int) {
		l := fw.NewLocal()
		defer r.Merge(l)
		for i := sh; i < len(vals); i += 16 {
			for _, sl := range slots {
				v := sl.lead + vals[i]
				forms := []string{strconv.Quote(v)}
				if !strings.ContainsAny(v, "`\n") {
					forms = append(forms, "`"+v+"`")
				}
				for _, q := range forms {
					text := sl.pre + q + sl.post
					l.States++
					l.Transitions++
					l.Execs++
					msg, acc := directiveCase(sl.layer, []byte(text), false)
					if acc {
						l.Nontrivial++
						l.Outcomes["value-sweep:accepted"]++
					} else {
						l.Outcomes["value-sweep:rejected"]++
					}
					if msg != "" {
						c := caseT{Layer: sl.layer, Input: strconv.QuoteToASCII(text)}
						r.Violation(c.key(), msg, c)
					}
				}
			}
		}
	})
}

func Replay(r *fw.Run, raw json.RawMessage) {
	var c caseT
	if err := json.Unmarshal(raw, &c); err != nil {
		r.Violation("replay", err.Error(), nil)
		return
	}
	in, _ := strconv.Unquote(c.Input)
	r.States.Add(1)
	r.Transitions.Add(1)
	r.Execs.Add(1)
	r.Sample(c)
	var msg string
	if c.Layer == "syntax" {
		msg, _ = syntaxCase([]byte(in))
	} else {
		msg, _ = directiveCase(c.Layer, []byte(in), c.Fix)
	}
	if msg != "" {
		r.Violation(c.key(), msg, c)
	}
}
