// Package c17: which files belong in a module zip is a fixed function of the tree.
package c17

import (
	"archive/zip"
	"bytes"
	"encoding/json"
	"fmt"
	"io"
	"os"
	"path"
	"path/filepath"
	"sort"
	"strconv"
	"strings"
	"sync"

	"golang.org/x/mod/module"
	modzip "golang.org/x/mod/zip"

	"verif/internal/enum"
	"verif/internal/fw"
	"verif/internal/memfile"
	"verif/internal/ref/zipref"
	"verif/props/zipx"
)

type caseT struct {
	Kind  string   `json:"kind"` // list | perm | size | tree
	Paths []string `json:"paths_quoted"`
	Modes []int    `json:"modes,omitempty"`
	GoMod string   `json:"root_go_mod_quoted,omitempty"`
	Sizes []int64  `json:"declared_sizes,omitempty"`
}

func (c caseT) key() string {
	return fmt.Sprintf("%s:%v:%v:%s:%v", c.Kind, c.Paths, c.Modes, c.GoMod, c.Sizes)
}

func q(ss []string) []string {
	out := make([]string, len(ss))
	for i, s := range ss {
		out[i] = strconv.QuoteToASCII(s)
	}
	return out
}

func modesInt(m []zipref.Mode) []int {
	out := make([]int, len(m))
	for i, x := range m {
		out[i] = int(x)
	}
	return out
}

// listCase compares CheckFiles with the reference on one list.
func listCase(paths []string, modes []zipref.Mode, goMod string) (msg string, rep zipref.Report, errNil bool) {
	rf, zf := zipx.MakeList(paths, modes, goMod)
	rep = zipref.Classify(rf)
	var cf modzip.CheckedFiles
	var err error
	func() {
		defer func() {
			if e := recover(); e != nil {
				msg = fmt.Sprintf("CheckFiles panicked: %v", e)
			}
		}()
		cf, err = modzip.CheckFiles(zf)
	}()
	if msg != "" {
		return
	}
	errNil = err == nil
	gotV, gotO, gotI := cf.Valid, zipx.PathsOf(cf.Omitted), zipx.PathsOf(cf.Invalid)
	if zipx.Join(gotV) != zipx.Join(rep.Valid) || zipx.Join(gotO) != zipx.Join(rep.Omitted) || zipx.Join(gotI) != zipx.Join(rep.Invalid) {
		msg = fmt.Sprintf("CheckFiles(%q modes %v): valid %q omitted %q invalid %q; documented rules give valid %q omitted %q invalid %q", paths, modes, gotV, gotO, gotI, rep.Valid, rep.Omitted, rep.Invalid)
		return
	}
	if (cf.SizeError != nil) != rep.SizeError {
		msg = fmt.Sprintf("CheckFiles(%q): SizeError=%v, reference %v", paths, cf.SizeError, rep.SizeError)
		return
	}
	if errNil != rep.OK() {
		msg = fmt.Sprintf("CheckFiles(%q): err=%v but reference OK=%v", paths, err, rep.OK())
		return
	}
	distinct := map[string]bool{}
	for _, p := range paths {
		distinct[p] = true
	}
	if len(distinct) == len(paths) && len(gotV)+len(gotO)+len(gotI) != len(paths) {
		msg = fmt.Sprintf("CheckFiles(%q): %d valid + %d omitted + %d invalid != %d files", paths, len(gotV), len(gotO), len(gotI), len(paths))
	}
	return
}

// sizeCase checks CheckFiles on two files with declared sizes s1, s2 (negative: Lstat reports a negative size)
// whose content is gmData (which matters for a root go.mod).
func sizeCase(n1, n2 string, s1, s2 int64, gmData string) (msg string, nontrivial bool) {
	rf := []zipref.File{{Path: n1, Size: s1, Data: gmData}, {Path: n2, Size: s2, Data: gmData}}
	zf := []modzip.File{memfile.File{P: n1, Data: []byte(gmData), Declared: s1}, memfile.File{P: n2, Data: []byte(gmData), Declared: s2}}
	if s1 < 0 {
		zf[0] = negSize{memfile.File{P: n1, Data: []byte(gmData), Declared: 0}}
	}
	if s2 < 0 {
		zf[1] = negSize{memfile.File{P: n2, Data: []byte(gmData), Declared: 0}}
	}
	rep := zipref.Classify(rf)
	cf, err := modzip.CheckFiles(zf)
	if zipx.Join(cf.Valid) != zipx.Join(rep.Valid) || zipx.Join(zipx.PathsOf(cf.Invalid)) != zipx.Join(rep.Invalid) || (cf.SizeError != nil) != rep.SizeError || (err == nil) != rep.OK() {
		msg = fmt.Sprintf("CheckFiles with declared sizes %s=%d %s=%d (content %q): valid %q invalid %q sizeErr=%v err=%v; reference valid %q invalid %q sizeErr=%v", n1, s1, n2, s2, gmData, cf.Valid, zipx.PathsOf(cf.Invalid), cf.SizeError != nil, err, rep.Valid, rep.Invalid, rep.SizeError)
	}
	return msg, !rep.OK()
}

func sorted(ss []string) string {
	c := append([]string(nil), ss...)
	sort.Strings(c)
	return strings.Join(c, "|")
}

// treeCase materialises a tree and compares the directory form with the list form.
func treeCase(scratch string, id int, paths []string, goMod string) (msg string, ok bool) {
	root := filepath.Join(scratch, strconv.Itoa(id))
	defer os.RemoveAll(root)
	for _, p := range paths {
		full := filepath.Join(root, filepath.FromSlash(p))
		if err := os.MkdirAll(filepath.Dir(full), 0o755); err != nil {
			return "", false // file/directory clash in the tree itself: not a tree
		}
		data := "content of " + p + "\n"
		if p == "go.mod" {
			data = goMod
		}
		if err := os.WriteFile(full, []byte(data), 0o644); err != nil {
			return "", false
		}
	}
	// permission and special bits of regular files on disk say nothing about what the file is: one file of
	// every tree gets (after it is written) setuid, setgid, the sticky bit, or no permission at all
	if len(paths) > 0 {
		full := filepath.Join(root, filepath.FromSlash(paths[id%len(paths)]))
		switch id % 6 {
		case 1:
			os.Chmod(full, 0o644|os.ModeSetuid)
		case 2:
			os.Chmod(full, 0o755|os.ModeSetgid)
		case 3:
			os.Chmod(full, 0o644|os.ModeSticky)
		case 4:
			os.Chmod(full, 0o755|os.ModeSetuid|os.ModeSetgid|os.ModeSticky)
		case 5:
			os.Chmod(full, 0o400)
		}
	}
	// list of the tree's regular files, by an independent walk
	var files []modzip.File
	var names []string
	filepath.Walk(root, func(fp string, info os.FileInfo, err error) error {
		if err != nil || info.IsDir() {
			return nil
		}
		rel, _ := filepath.Rel(root, fp)
		names = append(names, filepath.ToSlash(rel))
		return nil
	})
	sort.Strings(names)
	for _, n := range names {
		b, _ := os.ReadFile(filepath.Join(root, filepath.FromSlash(n)))
		// the list side delivers its content in another reader shape for every tree
		files = append(files, memfile.File{P: n, Data: b, Declared: -1, Shape: id % memfile.Shapes})
	}
	mv := module.Version{Path: "example.com/m", Version: "v1.0.0"}
	var bd, bl bytes.Buffer
	errD := modzip.CreateFromDir(&bd, mv, root)
	errL := modzip.Create(&bl, mv, files)
	if (errD == nil) != (errL == nil) {
		return fmt.Sprintf("tree %q: CreateFromDir err=%v, Create(list of its files) err=%v", paths, errD, errL), true
	}
	if errD == nil {
		ed, err1 := entries(bd.Bytes())
		el, err2 := entries(bl.Bytes())
		if err1 != nil || err2 != nil {
			return fmt.Sprintf("tree %q: cannot read produced archives: %v %v", paths, err1, err2), true
		}
		if len(ed) != len(el) {
			return fmt.Sprintf("tree %q: directory form has %d entries, list form %d", paths, len(ed), len(el)), true
		}
		for n, d := range ed {
			if l, ok := el[n]; !ok || l != d {
				return fmt.Sprintf("tree %q: entry %q differs between directory form and list form", paths, n), true
			}
		}
	}
	// other spellings of the same root directory (trailing separator, "/.", doubled separator, through a
	// sibling and back) must give the same archive and the same check result
	if errD == nil {
		for _, alt := range []string{root + string(filepath.Separator), root + string(filepath.Separator) + ".", filepath.Dir(root) + string(filepath.Separator) + string(filepath.Separator) + filepath.Base(root), filepath.Dir(root) + string(filepath.Separator) + "zz" + string(filepath.Separator) + ".." + string(filepath.Separator) + filepath.Base(root)} {
			if strings.Contains(alt, "zz") {
				os.Mkdir(filepath.Join(filepath.Dir(root), "zz"), 0o755)
			}
			var ba bytes.Buffer
			if err := modzip.CreateFromDir(&ba, mv, alt); err != nil {
				return fmt.Sprintf("tree %q: CreateFromDir succeeds for %q but fails for the spelling %q: %v", paths, root, alt, err), true
			}
			ea, _ := entries(ba.Bytes())
			ed, _ := entries(bd.Bytes())
			if len(ea) != len(ed) {
				return fmt.Sprintf("tree %q: CreateFromDir gives %d entries for %q and %d for the spelling %q", paths, len(ed), root, len(ea), alt), true
			}
			for n, d := range ed {
				if a, ok := ea[n]; !ok || a != d {
					return fmt.Sprintf("tree %q: entry %q differs between %q and the spelling %q", paths, n, root, alt), true
				}
			}
			ca, errA := modzip.CheckDir(alt)
			c0, err0 := modzip.CheckDir(root)
			if (errA == nil) != (err0 == nil) || len(ca.Valid) != len(c0.Valid) || len(ca.Invalid) != len(c0.Invalid) || len(ca.Omitted) != len(c0.Omitted) {
				return fmt.Sprintf("tree %q: CheckDir differs between %q and the spelling %q", paths, root, alt), true
			}
		}
	}
	cd, errCD := modzip.CheckDir(root)
	cl, errCL := modzip.CheckFiles(files)
	strip := func(ps []string) []string {
		var out []string
		for _, p := range ps {
			rel, _ := filepath.Rel(root, p)
			out = append(out, filepath.ToSlash(rel))
		}
		return out
	}
	if sorted(strip(cd.Valid)) != sorted(cl.Valid) || sorted(strip(zipx.PathsOf(cd.Invalid))) != sorted(zipx.PathsOf(cl.Invalid)) {
		return fmt.Sprintf("tree %q: CheckDir valid %q invalid %q, CheckFiles valid %q invalid %q", paths, strip(cd.Valid), strip(zipx.PathsOf(cd.Invalid)), cl.Valid, zipx.PathsOf(cl.Invalid)), true
	}
	if (errCD == nil) != (errCL == nil) {
		return fmt.Sprintf("tree %q: CheckDir err=%v CheckFiles err=%v", paths, errCD, errCL), true
	}
	return "", true
}

func entries(b []byte) (map[string]string, error) {
	zr, err := zip.NewReader(bytes.NewReader(b), int64(len(b)))
	if err != nil {
		return nil, err
	}
	out := map[string]string{}
	for _, f := range zr.File {
		rc, err := f.Open()
		if err != nil {
			return nil, err
		}
		d, err := io.ReadAll(rc)
		rc.Close()
		if err != nil {
			return nil, err
		}
		out[f.Name] = string(d)
	}
	return out, nil
}

// FirstCalls is the menu of the fresh-process call-order check.
func FirstCalls() []fw.Call {
	var out []fw.Call
	for _, ps := range [][]string{{"go.mod", "a.go", "vendor/x/y.go", "vendor/modules.txt"}, {"a.go", "A.go"}, {"sub/go.mod", "sub/x.go", "y.go"}, {"GO.MOD", "go.mod", "pkg/vendor/v.go"}, {".git/config", "a.go", "CON"}} {
		ps := ps
		out = append(out, fw.Call{Name: fmt.Sprintf("CheckFiles%v", ps), F: func() string {
			msg, rep, errNil := listCase(ps, make([]zipref.Mode, len(ps)), zipx.GoMods[0])
			return fmt.Sprint(msg, rep.Valid, rep.Omitted, rep.Invalid, errNil)
		}})
	}
	out = append(out, fw.Call{Name: "tree", F: func() string {
		scratch, err := os.MkdirTemp("/dev/shm", "verif-first-")
		if err != nil {
			return "no scratch"
		}
		defer os.RemoveAll(scratch)
		msg, ok := treeCase(scratch, 1, []string{"go.mod", "a.go", "sub/go.mod", "sub/x.go", "vendor/p/q.go"}, zipx.GoMods[0])
		return fmt.Sprint(msg, ok)
	}})
	return out
}

func Run(r *fw.Run) {
	defer fw.FirstCallOrders(r, r.ID, FirstCalls(), nil)
	pool3 := zipx.Pool
	r.Bounds["pool"] = q(zipx.Pool)
	r.Bounds["pool_for_triples"] = len(pool3)
	r.Bounds["root_go_mod_variants"] = len(zipx.GoMods)
	r.Bounds["modes"] = "regular, symlink, directory, named pipe (one non-regular element per list)"
	r.Rule = "every list of 1..2 paths over the full pool and every list of 3 paths over the pool (thorough: also every list of 4 over a 22-path pool), in every order, with one element at a time made a symlink / directory / named pipe, and every root go.mod content variant when the list contains go.mod: CheckFiles vs the documented-rule reference (ordered valid/omitted/invalid lists, size error, error status, accounting for every file). Permutation invariance of the error status and, for collision-free lists, of the classification. Declared-size products for the size limits. Trees of regular files materialised on tmpfs: CreateFromDir vs Create(list), CheckDir vs CheckFiles. non-trivial = list with at least one omitted or invalid file"
	r.Assume = []string{"reference internal/ref/zipref follows the documented decision order; repeated reports for one path are collapsed as documented (DESIGN 7)", "Linux tmpfs (case-sensitive) for the tree form"}

	type job struct{ paths []string }
	var jobs []job
	for _, a := range zipx.Pool {
		jobs = append(jobs, job{[]string{a}})
		for _, b := range zipx.Pool {
			jobs = append(jobs, job{[]string{a, b}})
		}
	}
	for i, a := range pool3 {
		for j := i; j < len(pool3); j++ {
			for k := j; k < len(pool3); k++ {
				jobs = append(jobs, job{[]string{a, pool3[j], pool3[k]}})
			}
		}
	}
	if r.Thorough() {
		sp := zipx.SmallPool
		for i := range sp {
			for j := i; j < len(sp); j++ {
				for k := j; k < len(sp); k++ {
					for m := k; m < len(sp); m++ {
						jobs = append(jobs, job{[]string{sp[i], sp[j], sp[k], sp[m]}})
					}
				}
			}
		}
	}
	// unclean spellings of a nested go.mod (they are invalid names, and mark no module boundary), next to clean
	// files of that directory, with and without the real go.mod
	for _, u := range []string{"sub//go.mod", "sub/./go.mod", "./sub/go.mod", "x/../sub/go.mod", "sub//GO.MOD", "sub/go.mod/", "sub/deep/../go.mod", "/sub/go.mod", "sub/go.mod/.", "//go.mod", "./go.mod"} {
		jobs = append(jobs, job{[]string{u, "sub/x.go"}}, job{[]string{"sub/x.go", "sub/deep/y.go", u}}, job{[]string{"go.mod", u, "sub/x.go", "y.go"}}, job{[]string{u, "sub/go.mod", "sub/x.go"}})
	}
	// vendor directories inside vendor directories (which "vendor" element decides depends on the go version)
	{
		vv := []string{"go.mod", "cmd/vendor/vendor/v.go", "cmd/vendor/example.com/x/internal/vendor/v.go", "a/vendor/b/vendor/c.go", "vendor/vendor/x.go", "vendor/a/vendor/b.go", "a/vendor/v.go", "a/vendor/vendor.go", "a/vendor/b/c.go", "vendor/modules.txt", "a/vendor/modules.txt", "a/vendor/vendor/modules.txt", "vendor/vendor/modules.txt", "x/vendorvendor/vendor/y.go", "vendor.go", "a/vendor"}
		for i := 1; i < len(vv); i++ {
			jobs = append(jobs, job{[]string{"go.mod", vv[i]}})
			for j := i + 1; j < len(vv); j++ {
				jobs = append(jobs, job{[]string{"go.mod", vv[i], vv[j]}})
			}
		}
	}
	// collisions above the parent directory: every list of 2..4 paths over a mini pool with two files below
	// the same deeper directory of a colliding ancestor
	{
		mini := []string{"sub/x.go", "SUB/deep/q.go", "SUB/deep/r.go", "SUB/z.go", "sub/deep/y.go", "a", "a/b/c", "a/b/d", "A/b/e", "a/B/f/g", "a/B/f/h", "tool-x/a.go", "tool/b.go", "Tool/c.go", "tool", "\u212a/ab", "\u212a/a", "k/ab", "d\u2126/a.go", "d\u03c9/b.go", "\u212a\u212a/x", "\u017fa/x.go", "\u017fA/y.go", "\u212ab/x", "\u212aB/y", "\u212a/b/z", "\u212a/B/w", "\u2126x/q/r", "\u2126X/q/s"}
		for i := range mini {
			for j := i + 1; j < len(mini); j++ {
				jobs = append(jobs, job{[]string{mini[i], mini[j]}})
				for k := j + 1; k < len(mini); k++ {
					jobs = append(jobs, job{[]string{mini[i], mini[j], mini[k]}})
					for m := k + 1; m < len(mini); m++ {
						jobs = append(jobs, job{[]string{mini[i], mini[j], mini[k], mini[m]}})
					}
				}
			}
		}
	}
	// counts: lists of many files (sizes on both sides of 8, 16, 64, 128, 1024), all valid, and with one
	// colliding, one vendored and one nested-module file near the end
	for _, n := range []int{7, 8, 9, 15, 16, 17, 63, 64, 65, 66, 127, 128, 129, 1000, 1025} {
		var ps []string
		for i := 0; i < n; i++ {
			ps = append(ps, fmt.Sprintf("d%d/f%04d.go", i%5, i))
		}
		jobs = append(jobs, job{append([]string{}, ps...)})
		jobs = append(jobs, job{append(append([]string{"go.mod"}, ps...), "D0/F0000.GO", "vendor/p/x.go", "sub/go.mod", "sub/x.go")})
	}
	// byte sweep over names: alone and next to a fixed neighbour
	for _, n := range zipx.SweepNames() {
		jobs = append(jobs, job{[]string{n}}, job{[]string{"N", n}})
	}
	r.Bounds["base_lists"] = len(jobs)
	// dense length sweep: a file name of every length 0..enum.DenseMax (one long element, or many short ones),
	// all regular, list side only (such names cannot exist in a directory)
	{
		var mu sync.Mutex
		r.Bounds["dense_length_sweep"] = fmt.Sprintf("file names of every length up to %d", enum.DenseMax)
		fw.Parallel(16, func(sh int) {
			l := fw.NewLocal()
			defer r.Merge(l)
			enum.EachLength('n', enum.DenseMax, func(f string) {
				if len(f)%16 != sh {
					return
				}
				cands := [][]string{{"go.mod", "a/" + f + ".go"}}
				if len(f) <= 1200 {
					cands = append(cands, []string{strings.ReplaceAll(f, "nnnnnnnn", "nnnnnnn/") + "x.go"}) // up to 150 elements
				}
				for _, paths := range cands {
					l.States++
					l.Execs++
					l.Transitions++
					modes := make([]zipref.Mode, len(paths))
					msg, _, _ := listCase(paths, modes, zipx.GoMods[0])
					if msg != "" {
						mu.Lock()
						c := caseT{Kind: "list", Paths: q(paths), Modes: modesInt(modes), GoMod: strconv.QuoteToASCII(zipx.GoMods[0])}
						r.Violation(fmt.Sprintf("list:dense:%d:%d", len(paths), len(f)), msg, c)
						mu.Unlock()
					} else {
						l.Nontrivial++
					}
				}
			})
		})
	}
	allModes := []zipref.Mode{zipref.Symlink, zipref.Dir, zipref.Irregular}
	fw.Parallel(16, func(sh int) {
		l := fw.NewLocal()
		defer r.Merge(l)
		for ji := sh; ji < len(jobs); ji += 16 {
			if r.Failed() {
				return
			}
			base := jobs[ji].paths
			hasGoMod := false
			for _, p := range base {
				if p == "go.mod" {
					hasGoMod = true
				}
			}
			gms := zipx.GoMods[:1]
			if hasGoMod {
				gms = zipx.GoMods
			}
			for _, gm := range gms {
				// mode variants
				variants := [][]zipref.Mode{make([]zipref.Mode, len(base))}
				for pos := range base {
					if len(base) > 4 {
						break // long lists: all regular
					}
					for _, m := range allModes {
						v := make([]zipref.Mode, len(base))
						v[pos] = m
						variants = append(variants, v)
					}
				}
				for _, modes := range variants {
					// every order
					var firstErr *bool
					var firstClass map[string]string
					collisionFree := true
					perms := enum.Permutations
					if len(base) > 4 {
						// long lists: the given order, the reverse and one rotation instead of every order
						perms = func(n int, f func([]int)) {
							id := make([]int, n)
							rev := make([]int, n)
							rot := make([]int, n)
							for i := range id {
								id[i], rev[i], rot[i] = i, n-1-i, (i+n/3)%n
							}
							f(id)
							f(rev)
							f(rot)
						}
					}
					perms(len(base), func(p []int) {
						paths := make([]string, len(base))
						ms := make([]zipref.Mode, len(base))
						for i, x := range p {
							paths[i], ms[i] = base[x], modes[x]
						}
						l.States++
						l.Transitions++
						l.Execs++
						msg, rep, errNil := listCase(paths, ms, gm)
						if len(rep.Omitted)+len(rep.Invalid) > 0 {
							l.Nontrivial++
						}
						l.Outcomes[fmt.Sprintf("list:v%d,o%d,i%d", len(rep.Valid), len(rep.Omitted), len(rep.Invalid))]++
						if msg != "" {
							c := caseT{Kind: "list", Paths: q(paths), Modes: modesInt(ms), GoMod: strconv.QuoteToASCII(gm)}
							r.Violation(c.key(), msg, c)
							return
						}
						// permutation invariance
						distinctPaths := true
						seenP := map[string]bool{}
						for _, x := range paths {
							if seenP[x] {
								distinctPaths = false
							}
							seenP[x] = true
						}
						if firstErr == nil {
							e := errNil
							firstErr = &e
						} else if *firstErr != errNil && distinctPaths {
							// (a list naming the same path twice is degenerate: the documented collapse of repeated
							// reports per path makes its error status depend on which copy is seen first - DESIGN 7)
							c := caseT{Kind: "perm", Paths: q(paths), Modes: modesInt(ms), GoMod: strconv.QuoteToASCII(gm)}
							r.Violation(c.key(), fmt.Sprintf("the error status of CheckFiles depends on the order of the list %q", paths), c)
						}
						class := map[string]string{}
						dup := map[string]bool{}
						for _, x := range paths {
							if dup[x] {
								collisionFree = false
							}
							dup[x] = true
						}
						for _, x := range rep.Valid {
							class[x] = "valid"
						}
						for _, x := range rep.Omitted {
							class[x] = "omitted"
						}
						for _, x := range rep.Invalid {
							class[x] = "invalid"
						}
						// lists in which some pair of names (including parent directories) collides under case
						// folding or as file vs directory are order dependent by nature
						type nd struct {
							name  string
							isDir bool
						}
						var all []nd
						for i, x := range paths {
							all = append(all, nd{x, ms[i] == zipref.Dir})
							for d := path.Dir(x); d != "." && d != "/" && d != x; d = path.Dir(d) {
								all = append(all, nd{d, true})
							}
						}
						for i := range all {
							for j := range all {
								if i == j {
									continue
								}
								if strings.EqualFold(all[i].name, all[j].name) && (all[i].name != all[j].name || all[i].isDir != all[j].isDir) {
									collisionFree = false
								}
							}
						}
						if firstClass == nil {
							firstClass = class
						} else if collisionFree {
							for k, v := range class {
								if firstClass[k] != v {
									c := caseT{Kind: "perm", Paths: q(paths), Modes: modesInt(ms), GoMod: strconv.QuoteToASCII(gm)}
									r.Violation(c.key(), fmt.Sprintf("classification of %q in collision-free list %q depends on the order (%s vs %s)", k, paths, firstClass[k], v), c)
								}
							}
						}
					})
				}
			}
		}
	})
	r.Sample(caseT{Kind: "list", Paths: q([]string{"go.mod", "pkg/vendor/vendor.go", "sub/GO.MOD"}), Modes: []int{0, 0, 0}, GoMod: strconv.QuoteToASCII(zipx.GoMods[2])})

	// declared sizes
	sizes := []int64{0, 1, zipref.MaxGoMod, zipref.MaxGoMod + 1, zipref.MaxZipFile / 2, zipref.MaxZipFile/2 + 1, zipref.MaxZipFile, zipref.MaxZipFile + 1, -1}
	// (the go version that selects the vendor rules is read from the root go.mod whatever its declared size)
	names := []string{"go.mod", "LICENSE", "a", "sub/LICENSE", "vendor/modules.txt", "pkg/vendor/v.go"}
	l := fw.NewLocal()
	for _, gmData := range []string{zipx.GoMods[0], zipx.GoMods[1], zipx.GoMods[2]} {
		for _, n1 := range names {
			for _, n2 := range names {
				if n1 == n2 {
					continue
				}
				if gmData != zipx.GoMods[0] && n1 != "go.mod" && n2 != "go.mod" {
					continue // the other go.mod contents matter only when a go.mod is in the list
				}
				for _, s1 := range sizes {
					for _, s2 := range sizes {
						msg, nt := sizeCase(n1, n2, s1, s2, gmData)
						l.States++
						l.Execs++
						l.Transitions++
						if nt {
							l.Nontrivial++
						}
						l.Outcomes[fmt.Sprintf("size:ok=%v", !nt)]++
						if msg != "" {
							c := caseT{Kind: "size", Paths: q([]string{n1, n2}), Sizes: []int64{s1, s2}, GoMod: strconv.QuoteToASCII(gmData)}
							r.Violation(c.key(), msg, c)
						}
					}
				}
			}
		}
	}
	r.Merge(l)

	// resources: CheckDir and CreateFromDir over a tree with more files than the process may have descriptors open
	{
		base := filepath.Join(r.Scratch(), "fdlimit")
		os.RemoveAll(base)
		var want []string
		for i := 0; i < 500; i++ {
			n := fmt.Sprintf("d%d/f%04d.go", i%7, i)
			full := filepath.Join(base, filepath.FromSlash(n))
			os.MkdirAll(filepath.Dir(full), 0o755)
			os.WriteFile(full, []byte("package p\n"), 0o644)
			want = append(want, n)
		}
		os.WriteFile(filepath.Join(base, "go.mod"), []byte("module example.com/m\n"), 0o644)
		want = append(want, "go.mod")
		sort.Strings(want)
		var cd modzip.CheckedFiles
		var e1, e2 error
		var buf bytes.Buffer
		ok := fw.WithFDLimit(120, func() {
			cd, e1 = modzip.CheckDir(base)
			e2 = modzip.CreateFromDir(&buf, module.Version{Path: "example.com/m", Version: "v1.0.0"}, base)
		})
		os.RemoveAll(base)
		r.States.Add(1)
		r.Execs.Add(2)
		r.Bounds["descriptor_limit"] = "a tree of 501 files with at most 120 open descriptors (CheckDir, CreateFromDir)"
		var got []string
		for _, v := range cd.Valid {
			// CheckDir reports file system paths
			got = append(got, filepath.ToSlash(strings.TrimPrefix(v, base+string(filepath.Separator))))
		}
		sort.Strings(got)
		if ok && (e1 != nil || e2 != nil || zipx.Join(got) != zipx.Join(want)) {
			diff := ""
			for i := range want {
				if i >= len(got) || got[i] != want[i] {
					diff = fmt.Sprintf("first difference at %d: want %q", i, want[i])
					if i < len(got) {
						diff += fmt.Sprintf(" got %q", got[i])
					}
					break
				}
			}
			r.Violation("fd-limit", fmt.Sprintf("a tree of 501 files with at most 120 open descriptors: CheckDir err=%v (%d valid, %s), CreateFromDir err=%v", e1, len(cd.Valid), diff, e2), caseT{Kind: "fd-limit"})
		}
	}

	// mode bits beyond the four classes: a file is regular, a directory, a symbolic link or irregular; other
	// bits (permissions, setuid, sticky, append-only, which kind of irregular) must not matter
	{
		l := fw.NewLocal()
		type mv struct{ variant, rep os.FileMode }
		mvs := []mv{
			{0o001, 0o644}, {0o400, 0o644}, {0o777, 0o644}, {os.ModeSetuid | 0o755, 0o644}, {os.ModeSetgid | 0o644, 0o644}, {os.ModeSticky | 0o644, 0o644},
			{os.ModeAppend | 0o644, 0o644}, {os.ModeExclusive | 0o644, 0o644}, {os.ModeTemporary | 0o644, 0o644},
			{os.ModeDevice | 0o600, os.ModeNamedPipe | 0o644}, {os.ModeDevice | os.ModeCharDevice | 0o600, os.ModeNamedPipe | 0o644}, {os.ModeSocket | 0o600, os.ModeNamedPipe | 0o644}, {os.ModeIrregular | 0o600, os.ModeNamedPipe | 0o644},
			{os.ModeSymlink | 0o000, os.ModeSymlink | 0o777}, {os.ModeDir | 0o000, os.ModeDir | 0o755}, {os.ModeDir | os.ModeSticky | 0o777, os.ModeDir | 0o755},
		}
		r.Bounds["mode_bit_variants"] = len(mvs)
		for _, p := range []string{"a.go", "sub/x.go", "go.mod", "vendor/p/x.go", "LICENSE", "sub/go.mod"} {
			for _, m := range mvs {
				res := func(mode os.FileMode) string {
					f := memfile.File{P: p, Data: []byte("module example.com/m\n"), Declared: -1, M: mode}
					cf, err := modzip.CheckFiles([]modzip.File{f, memfile.Reg("other.go", "x")})
					return fmt.Sprintf("valid=%v omitted=%v invalid=%v err=%v", cf.Valid, zipx.PathsOf(cf.Omitted), zipx.PathsOf(cf.Invalid), err != nil)
				}
				l.States++
				l.Execs += 2
				l.Transitions++
				if a, b := res(m.variant), res(m.rep); a != b {
					c := caseT{Kind: "mode", Paths: q([]string{p}), Modes: []int{int(m.variant)}}
					r.Violation(c.key(), fmt.Sprintf("CheckFiles treats %q with mode %v differently from mode %v: %s vs %s", p, m.variant, m.rep, a, b), c)
				} else {
					l.Nontrivial++
				}
			}
		}
		r.Merge(l)
	}

	// tree form
	scratch := r.Scratch()
	treePool := []string{"cmd/vendor/vendor.go", "cmd/vendor/p/x.go", "Z/vendor/v.go", "a", "A", "a/b", "go.mod", "GO.MOD", "sub/go.mod", "sub/GO.MOD", "sub/x.go", "sub/deep/y.go", "sub/deep/go.mod", "vendor/modules.txt", "vendor/x.go", "vendor/p/x.go", "pkg/vendor/vendor.go", "pkg/vendor/p/x.go", "LICENSE", ".hg_archival.txt", ".git", "sub/.hg", ".gitignore", "con", "é", "K", "k", "\u212a", "a b", "a:b", "x.", "sub/go.mod/n.txt", "go.mod/n.txt", "sub/vendor/go.mod/n.txt",
		// directories whose names are other spellings of the version-control directories (the exact names are
		// outside the directory/list equality the property states), at the root and below
		".GIT/notes.txt", "docs/.Hg/readme.md", "sub/.Bzr/y", ".svn.d/x"}
	var trees [][]string
	for i := range treePool {
		trees = append(trees, []string{treePool[i]})
		for j := i + 1; j < len(treePool); j++ {
			trees = append(trees, []string{treePool[i], treePool[j]})
			if r.Thorough() {
				for k := j + 1; k < len(treePool); k++ {
					trees = append(trees, []string{treePool[i], treePool[j], treePool[k]})
				}
			}
		}
	}
	// nested modules inside nested modules: all triples and quadruples over a small pool, in both tiers
	nest := []string{"sub/go.mod", "sub/deep/go.mod", "sub/x.go", "sub/deep/y.go", "sub/deep/z/w.go", "sub/a.go", "go.mod"}
	for i := range nest {
		for j := i + 1; j < len(nest); j++ {
			for k := j + 1; k < len(nest); k++ {
				trees = append(trees, []string{nest[i], nest[j], nest[k]})
				for m := k + 1; m < len(nest); m++ {
					trees = append(trees, []string{nest[i], nest[j], nest[k], nest[m]})
				}
			}
		}
	}
	r.Bounds["trees"] = len(trees)
	fw.Parallel(len(trees), func(i int) {
		l := fw.NewLocal()
		defer r.Merge(l)
		gms := zipx.GoMods[:1]
		for _, p := range trees[i] {
			if p == "go.mod" {
				gms = zipx.GoMods
			}
		}
		for gi, gm := range gms {
			msg, ok := treeCase(scratch, i*10+gi, trees[i], gm)
			if !ok {
				l.Outcomes["tree:not-materialisable"]++
				continue
			}
			l.States++
			l.Execs += 4
			l.Transitions++
			l.Nontrivial++
			l.Outcomes["tree:compared"]++
			if msg != "" {
				c := caseT{Kind: "tree", Paths: q(trees[i]), GoMod: strconv.QuoteToASCII(gm)}
				r.Violation(c.key(), msg, c)
			}
		}
	})
	r.Sample(caseT{Kind: "tree", Paths: q([]string{"go.mod", "vendor/modules.txt", "pkg/vendor/vendor.go"}), GoMod: strconv.QuoteToASCII(zipx.GoMods[2])})
}

type negSize struct{ memfile.File }

func (n negSize) Lstat() (os.FileInfo, error) {
	fi, _ := n.File.Lstat()
	return negInfo{fi}, nil
}

type negInfo struct{ os.FileInfo }

func (negInfo) Size() int64 { return -1 }

func Replay(r *fw.Run, raw json.RawMessage) {
	var c caseT
	if err := json.Unmarshal(raw, &c); err != nil {
		r.Violation("replay", err.Error(), nil)
		return
	}
	var paths []string
	for _, p := range c.Paths {
		s, _ := strconv.Unquote(p)
		paths = append(paths, s)
	}
	gm, _ := strconv.Unquote(c.GoMod)
	r.States.Add(1)
	r.Transitions.Add(1)
	r.Execs.Add(1)
	r.Sample(c)
	switch c.Kind {
	case "tree":
		if msg, _ := treeCase(r.Scratch(), 0, paths, gm); msg != "" {
			r.Violation(c.key(), msg, c)
		}
	case "size":
		if len(paths) == 2 && len(c.Sizes) == 2 {
			if msg, _ := sizeCase(paths[0], paths[1], c.Sizes[0], c.Sizes[1], gm); msg != "" {
				r.Violation(c.key(), msg, c)
			}
		}
	default:
		var ms []zipref.Mode
		for _, m := range c.Modes {
			ms = append(ms, zipref.Mode(m))
		}
		if msg, _, _ := listCase(paths, ms, gm); msg != "" {
			r.Violation(c.key(), msg, c)
		}
	}
}
