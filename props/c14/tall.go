package c14

import (
	"encoding/json"
	"fmt"
	"sort"
	"strings"

	"golang.org/x/mod/sumdb"

	"verif/internal/fw"
	"verif/internal/opsenv"
	"verif/internal/world"
)

// tallCase is one sequential history of one client with tall tiles: the honest server holds Size1 records
// for the first lookup and Size2 for the others.
type tallCase struct {
	Scenario string `json:"scenario"` // "tall-tiles" (sequential; no schedule)
	Height   int    `json:"tile_height"`
	Size1    int    `json:"log_size_at_first_lookup"`
	Size2    int    `json:"log_size_afterwards"`
}

// tallSizes are the log sizes around the half, the whole and the multiples of a tile of height h.
func tallSizes(h int) []int {
	w := 1 << uint(h)
	set := map[int]bool{}
	for _, b := range []int{w / 2, w, w + w/2, 2 * w, 2*w + w/2} {
		for _, d := range []int{-1, 0, 1, 88} {
			set[b+d] = true
		}
	}
	var out []int
	for s := range set {
		out = append(out, s)
	}
	sort.Ints(out)
	return out
}

// tallExec runs the history of c on a fresh client over an honest world: what a client that reads the log
// at two sizes is served is what the sequential reference says (every lookup succeeds with the lines of its
// record) and nothing is fetched from the server twice.
func tallExec(lg *world.SignedLog, c tallCase) string {
	env := opsenv.New(world.TheKeys().Verifier)
	client := sumdb.NewClient(env)
	client.SetTileHeight(c.Height)
	type step struct{ rec, size int }
	steps := []step{{c.Size1 - 1, c.Size1}, {c.Size2 - 1, c.Size2}, {0, c.Size2}, {c.Size1, c.Size2}, {c.Size1 / 2, c.Size2}}
	for i, st := range steps {
		size := st.size
		env.Remote = func(p string) ([]byte, error) { return lg.Serve(p, size) }
		m := lg.Mods[st.rec]
		var lines []string
		var err error
		pan := ""
		func() {
			defer func() {
				if e := recover(); e != nil {
					pan = fmt.Sprint(e)
				}
			}()
			lines, err = client.Lookup(m.Path, m.Version)
		}()
		if pan != "" || err != nil {
			return fmt.Sprintf("lookup %d (record %d, honest server with %d records, tile height %d): err=%v panic=%q; looked up one at a time by separate clients these succeed", i+1, st.rec, size, c.Height, err, pan)
		}
		if strings.Join(lines, "\n") != strings.Join(m.Lines(false), "\n") {
			return fmt.Sprintf("lookup %d (record %d, %d records, tile height %d) returned %q, the record says %q", i+1, st.rec, size, c.Height, lines, m.Lines(false))
		}
	}
	seen := map[string]bool{}
	for _, call := range env.Calls {
		if p, ok := strings.CutPrefix(call, "ReadRemote "); ok && p != "/latest" {
			if seen[p] {
				return fmt.Sprintf("one client fetched %s from the server twice (tile height %d, sizes %d then %d)", p, c.Height, c.Size1, c.Size2)
			}
			seen[p] = true
		}
	}
	return ""
}

// tallTiles: clients whose tiles are taller than the default (heights 9 and up), reading the log at two
// sizes around the half, the whole and the multiples of one tile. Sequential: the dimension explored is
// (height, size, size), not the schedule.
func tallTiles(r *fw.Run) {
	hs := []int{9, 10, 11}
	if r.Thorough() {
		hs = []int{9, 10, 11, 12, 13}
	}
	r.Bounds["tall_tile_histories"] = fmt.Sprintf("tile heights %v x every ordered pair of log sizes in {w/2, w, 3w/2, 2w, 5w/2} + {-1, 0, 1, 88} (w = 2^height) x 5 lookups by one client", hs)
	fw.Parallel(len(hs), func(i int) {
		h := hs[i]
		l := fw.NewLocal()
		defer r.Merge(l)
		sizes := tallSizes(h)
		lg := world.Honest(sizes[len(sizes)-1] + 1)
		for a, s1 := range sizes {
			for _, s2 := range sizes[a+1:] {
				c := tallCase{Scenario: "tall-tiles", Height: h, Size1: s1, Size2: s2}
				l.States++
				l.Execs++
				l.Transitions += 5
				l.Nontrivial++
				if msg := tallExec(lg, c); msg != "" {
					l.Outcomes["tall-tiles:VIOLATION"]++
					r.Violation(fmt.Sprintf("tall-tiles:%d:%d:%d", h, s1, s2), msg, c)
				} else {
					l.Outcomes["tall-tiles:ok"]++
				}
			}
		}
	})
}

// DeepLogs: clients with the lowest tiles (height 1, 2) over logs deep enough that one read asks for more
// than 16, 32, 64 tiles: sizes around 2^15, 2^16, 2^17 (height 1) and 2^16 (height 2), the same five-lookup
// history as tallTiles. Sequential; shared with C01 (an honest server never makes a lookup fail).
func DeepLogs(r *fw.Run) {
	type job struct{ h, s1, s2 int }
	var jobs []job
	for _, k := range []int{15, 16, 17} {
		n := 1 << uint(k)
		jobs = append(jobs, job{1, n - 1, n}, job{1, n/2 + 1, n + 1}, job{1, 3, 2*n - 1})
	}
	jobs = append(jobs, job{2, 1<<16 - 1, 1<<16 + 1}, job{3, 5, 1<<17 - 1})
	if !r.Thorough() {
		jobs = []job{{1, 1<<15 - 1, 1 << 15}, {1, 1<<16 + 1, 1<<17 - 1}, {1, 3, 1 << 16}, {2, 1<<16 - 1, 1<<16 + 1}}
	}
	r.Bounds["deep_log_histories"] = fmt.Sprintf("%d (height, size, size) triples with tile heights 1-3 and logs of 2^15..2^18 records x 5 lookups by one client", len(jobs))
	max := 0
	for _, j := range jobs {
		if j.s2 > max {
			max = j.s2
		}
	}
	lg := world.Honest(max + 1)
	fw.Parallel(len(jobs), func(i int) {
		j := jobs[i]
		l := fw.NewLocal()
		defer r.Merge(l)
		c := tallCase{Scenario: "tall-tiles", Height: j.h, Size1: j.s1, Size2: j.s2}
		l.States++
		l.Execs++
		l.Transitions += 5
		l.Nontrivial++
		if msg := tallExec(lg, c); msg != "" {
			l.Outcomes["deep-logs:VIOLATION"]++
			r.Violation(fmt.Sprintf("tall-tiles:%d:%d:%d", j.h, j.s1, j.s2), msg, c)
		} else {
			l.Outcomes["deep-logs:ok"]++
		}
	})
}

// ReplayTall replays a tall-tile / deep-log history (also for C01).
func ReplayTall(r *fw.Run, raw json.RawMessage) bool { return replayTall(r, raw) }

func replayTall(r *fw.Run, raw json.RawMessage) bool {
	var c tallCase
	if json.Unmarshal(raw, &c) != nil || c.Scenario != "tall-tiles" {
		return false
	}
	r.States.Add(1)
	r.Execs.Add(1)
	r.Sample(c)
	if msg := tallExec(world.Honest(c.Size2+1), c); msg != "" {
		r.Violation(fmt.Sprintf("tall-tiles:%d:%d:%d", c.Height, c.Size1, c.Size2), msg, c)
	}
	return true
}
