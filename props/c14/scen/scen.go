// Package scen defines the closed concurrent drivers (scenarios) for C14 / C13-schedules and
// their per-execution oracle. It does not depend on the scheduler: goroutine creation and
// scheduling points are injected, so the same bodies run under the controlled scheduler and
// free-running under the race detector.
package scen

import (
	"bytes"
	"context"
	"crypto/sha256"
	"encoding/base64"
	"errors"
	"fmt"
	"net/http"
	"net/http/httptest"
	"sort"
	"strings"
	"sync"

	"golang.org/x/mod/module"
	"golang.org/x/mod/sumdb"
	"golang.org/x/mod/sumdb/note"
	"golang.org/x/mod/sumdb/tlog"

	"verif/internal/ref/pathref"
	"verif/internal/world"
)

type Lookup struct {
	Client     int
	Path, Vers string
}

type Scenario struct {
	Name      string
	Height    int
	Preload   []string   // module@version looked up on the server before the clients start
	Stored    bool       // the shared config starts with the head after Preload (otherwise empty)
	Clients   int        // clients sharing one config and one cache
	Threads   [][]Lookup // one goroutine per entry
	GONOSUMDB string
	Fork      bool // C13: client 1 talks to a second server whose log diverges after Preload
	// ByThread (with Fork): one equivocating server; which of the two logs answers is decided by the
	// top-level goroutine the request descends from (goroutine k talks to log k mod 2), not by the client.
	ByThread bool
	// Grow: after the stored head has been taken, the server's log grows by this many more records
	// before the clients start (large logs: many tiles per read).
	Grow int
	// Warm: lookups performed one after the other by a throw-away client before the scenario's clients
	// start (they fill the shared cache and advance the shared configuration). ResetConfig then puts the
	// configuration back ("empty", or "stored" = the head taken after Preload) while the cache is kept.
	Warm        []Lookup
	ResetConfig string
	// StrictPartials: the server answers "not found" for a partial tile whose complete tile exists.
	StrictPartials bool
	// ForgeLookup: lookup responses whose path contains this text carry a record whose first hash is altered
	// (the signed tree head in the response stays as the server made it).
	ForgeLookup string
	// DefaultHeight: the clients do not call SetTileHeight (Height must be 8, the default, for the server's sake).
	DefaultHeight bool
	// WriteFails: the WriteConfig calls with these ordinal numbers (1-based, over all clients) fail with an
	// I/O error instead of being performed.
	WriteFails []int
}

// CurrentThread returns the id (1-based, in spawn order) of the top-level goroutine the caller descends
// from. It is set by the controlled-scheduler worker; nil when free-running.
var CurrentThread func() int

func mv(i int) (string, string) {
	if i%4 == 1 {
		return fmt.Sprintf("m%d.example/p%d", i, i), fmt.Sprintf("v1.0.%d-RC.%d", i, i) // upper case in the version
	}
	return fmt.Sprintf("m%d.example/p%d", i, i), fmt.Sprintf("v1.0.%d", i)
}

func L(c, i int, goMod bool) Lookup {
	p, v := mv(i)
	if i == 2 {
		p = "m2.example/Upper2"
	}
	if goMod {
		v += "/go.mod"
	}
	return Lookup{c, p, v}
}

func pre(is ...int) []string {
	var out []string
	for _, i := range is {
		p, v := mv(i)
		out = append(out, p+"@"+v)
	}
	return out
}

// All returns the scenarios.
func All() []Scenario {
	return []Scenario{
		{Name: "same-key-twice", Height: 2, Clients: 1, Threads: [][]Lookup{{L(0, 0, false)}, {L(0, 0, true)}}},
		{Name: "two-keys-growing-log", Height: 2, Clients: 1, Threads: [][]Lookup{{L(0, 0, false)}, {L(0, 1, false)}}},
		{Name: "two-keys-stored-3", Height: 2, Preload: pre(10, 11, 12), Stored: true, Clients: 1, Threads: [][]Lookup{{L(0, 0, false)}, {L(0, 1, false)}}},
		{Name: "three-keys-stored-3", Height: 2, Preload: pre(10, 11, 12), Stored: true, Clients: 1, Threads: [][]Lookup{{L(0, 0, false)}, {L(0, 1, false)}, {L(0, 3, false)}}},
		{Name: "upper-and-gomod", Height: 2, Preload: pre(10), Clients: 1, Threads: [][]Lookup{{L(0, 2, false)}, {L(0, 2, true)}}},
		{Name: "two-clients-shared-config", Height: 2, Preload: pre(10, 11), Stored: true, Clients: 2, Threads: [][]Lookup{{L(0, 0, false)}, {L(1, 1, false)}}},
		{Name: "two-clients-same-key", Height: 1, Clients: 2, Threads: [][]Lookup{{L(0, 0, false)}, {L(1, 0, false)}}},
		{Name: "nosumdb-next-to-normal", Height: 2, Clients: 1, GONOSUMDB: "m7.example,*.corp", Threads: [][]Lookup{{L(0, 7, false)}, {L(0, 0, false)}}},
		{Name: "nosumdb-only-client", Height: 2, Clients: 2, GONOSUMDB: "m7.example,*.corp", Threads: [][]Lookup{{L(1, 7, false), L(1, 7, true)}, {L(0, 0, false)}}},
		{Name: "nosumdb-character-class", Height: 2, Clients: 1, GONOSUMDB: "m[6-8].example,*.corp", Threads: [][]Lookup{{L(0, 7, false)}, {L(0, 0, false)}}},
		{Name: "nosumdb-escape-and-question-mark", Height: 2, Clients: 2, GONOSUMDB: "other.example,m\\7.example/p?", Threads: [][]Lookup{{L(1, 7, false), L(1, 7, true)}, {L(0, 0, false)}}},
		{Name: "three-heads-one-client-h8", Height: 8, Preload: pre(10, 11, 12), Stored: true, Clients: 1, Threads: [][]Lookup{{L(0, 0, false)}, {L(0, 1, false)}, {L(0, 3, false)}}},
		{Name: "height-8-single-tile", Height: 8, Preload: pre(10, 11, 12, 13, 14), Stored: true, Clients: 1, Threads: [][]Lookup{{L(0, 0, false)}, {L(0, 1, true)}}},
		{Name: "one-thread-two-lookups-vs-one", Height: 2, Preload: pre(10), Clients: 1, Threads: [][]Lookup{{L(0, 0, false), L(0, 1, false)}, {L(0, 1, true)}}},
		// heads whose signed notes differ in length: tree sizes 9, 10, 11 (one digit more), one client
		{Name: "three-heads-crossing-ten", Height: 2, Preload: pre(10, 11, 12, 13, 14, 15, 16, 17), Stored: true, Clients: 1, Threads: [][]Lookup{{L(0, 0, false)}, {L(0, 1, false)}, {L(0, 3, false)}}},
		{Name: "two-heads-crossing-hundred-two-clients", Height: 3, Preload: pre(10), Stored: true, Grow: 97, Clients: 2, Threads: [][]Lookup{{L(0, 0, false)}, {L(1, 1, false)}}},
		{Name: "growing-log-strict-partials-h1", Height: 1, Preload: pre(10), Stored: true, Clients: 1, StrictPartials: true, Threads: [][]Lookup{{L(0, 0, false)}, {L(0, 1, false)}}},
		{Name: "growing-log-strict-partials-h2", Height: 2, Preload: pre(10, 11), Stored: true, Clients: 2, StrictPartials: true, Threads: [][]Lookup{{L(0, 0, false)}, {L(1, 1, false)}, {L(0, 3, false)}}},
		{Name: "growing-log-strict-partials-h3-empty", Height: 3, Clients: 1, StrictPartials: true, Threads: [][]Lookup{{L(0, 0, false), L(0, 1, false)}, {L(0, 3, false)}}},
		{Name: "cache-ahead-of-empty-config", Height: 2, Preload: pre(10), Clients: 2, Warm: []Lookup{L(0, 0, false), L(0, 1, false)}, ResetConfig: "empty", Threads: [][]Lookup{{L(0, 0, false)}, {L(1, 1, false)}}},
		{Name: "cache-ahead-of-older-config", Height: 2, Preload: pre(10), Stored: true, Clients: 1, Warm: []Lookup{L(0, 0, false), L(0, 1, false)}, ResetConfig: "stored", Threads: [][]Lookup{{L(0, 1, true)}, {L(0, 0, false)}}},
	}
}

// Big returns scenarios over larger logs (one read asks for many tiles at once). They are explored with
// small deviation bounds only.
func Big() []Scenario {
	return []Scenario{
		// clients that never call SetTileHeight (default height 8), logs past the first complete tile, with and
		// without a server that drops stale partial tiles, stored heads below and above 256
		{Name: "default-height-strict-partials-small-head", Height: 8, DefaultHeight: true, Preload: pre(10), Stored: true, Grow: 300, StrictPartials: true, Clients: 1, Threads: [][]Lookup{{L(0, 0, false)}, {L(0, 1, true)}}},
		{Name: "default-height-strict-partials-head-260", Height: 8, DefaultHeight: true, Preload: pre(10), Grow: 259, Warm: []Lookup{L(0, 0, false)}, ResetConfig: "", StrictPartials: true, Clients: 2, Threads: [][]Lookup{{L(0, 1, false)}, {L(1, 3, false)}}},
		{Name: "default-height-plain-server", Height: 8, DefaultHeight: true, Preload: pre(10), Stored: true, Grow: 270, Clients: 1, Threads: [][]Lookup{{L(0, 0, false)}, {L(0, 2, false)}}},
		{Name: "big-log-h1-stored-1", Height: 1, Preload: pre(10), Stored: true, Grow: 40, Clients: 1, Threads: [][]Lookup{{L(0, 0, false)}, {L(0, 1, true)}}},
		{Name: "big-log-h1-stored-1-b", Height: 1, Preload: pre(10), Stored: true, Grow: 61, Clients: 1, Threads: [][]Lookup{{L(0, 0, false)}, {L(0, 1, true)}}},
		{Name: "big-log-h1-stored-1-c", Height: 1, Preload: pre(10), Stored: true, Grow: 125, Clients: 1, Threads: [][]Lookup{{L(0, 1, true)}, {L(0, 0, false)}}},
		{Name: "big-log-h1-empty-config", Height: 1, Preload: pre(10), Grow: 270, Clients: 1, Threads: [][]Lookup{{L(0, 0, false)}, {L(0, 2, false)}}},
		{Name: "big-log-h2-stored-1", Height: 2, Preload: pre(10), Stored: true, Grow: 300, Clients: 2, Threads: [][]Lookup{{L(0, 0, false)}, {L(1, 1, false)}}},
		{Name: "big-log-h8-stored-1", Height: 8, Preload: pre(10), Stored: true, Grow: 300, Clients: 1, Threads: [][]Lookup{{L(0, 0, false)}, {L(0, 0, true)}}},
	}
}

// Wide returns scenarios with many goroutines looking up different modules at once.
func Wide() []Scenario {
	many := func(n, clients int, goModEvery int) [][]Lookup {
		var th [][]Lookup
		for i := 0; i < n; i++ {
			th = append(th, []Lookup{L(i%clients, 20+i, goModEvery > 0 && i%goModEvery == 0)})
		}
		return th
	}
	return []Scenario{
		{Name: "wide-17-lookups", Height: 2, Preload: pre(10), Stored: true, Clients: 1, Threads: many(17, 1, 0)},
		{Name: "wide-33-lookups-h8", Height: 8, Preload: pre(10, 11, 12), Stored: true, Clients: 1, Threads: many(33, 1, 3)},
		{Name: "wide-65-lookups-empty-config", Height: 3, Clients: 1, Threads: many(65, 1, 0)},
		{Name: "wide-40-lookups-two-clients", Height: 2, Preload: pre(10), Stored: true, Clients: 2, Threads: many(40, 2, 0)},
	}
}

// KnownMemoryAhead prefixes the message of a violation that belongs to the recorded finding
// class:memory-head-ahead-of-config-after-failed-flush (see known_findings.txt and DESIGN.md section 11).
const KnownMemoryAhead = "class:memory-head-ahead-of-config-after-failed-flush|"

func lookupPath(l Lookup) string {
	ep, _ := module.EscapePath(l.Path)
	ev, _ := module.EscapeVersion(strings.TrimSuffix(l.Vers, "/go.mod"))
	return "/lookup/" + ep + "@" + ev
}

// ForkScenarios are the C13 schedule scenarios: two clients share a compare-and-swap config
// while their servers present forks of the same prefix, or the same log at different sizes.
func ForkScenarios() []Scenario {
	return []Scenario{
		{Name: "fork-two-clients", Height: 2, Preload: pre(10, 11), Stored: true, Clients: 2, Fork: true, Threads: [][]Lookup{{L(0, 0, false)}, {L(1, 1, false)}}},
		{Name: "fork-two-clients-empty-config", Height: 1, Preload: pre(10), Clients: 2, Fork: true, Threads: [][]Lookup{{L(0, 0, false)}, {L(1, 0, false)}}},
		{Name: "fork-one-client-two-threads", Height: 2, Preload: pre(10, 11, 12, 13), Stored: true, Clients: 1, Fork: true, ByThread: true, Threads: [][]Lookup{{L(0, 0, false)}, {L(0, 1, false), L(0, 10, false)}}},
		// round 32: the lookup on log A installs a new head A#5 while the lookup on log B, which carries B#5 for a
		// record of the shared prefix, is between its load of the client's head and its install (lost install race)
		{Name: "fork-one-client-lost-install", Height: 2, Preload: pre(10, 11, 12, 13), Stored: true, Grow: 1, Clients: 1, Fork: true, ByThread: true, Threads: [][]Lookup{{L(0, 20, false)}, {L(0, 10, false)}}},
		{Name: "fork-two-clients-second-lookup-same-head", Height: 2, Preload: pre(10, 11), Stored: true, Clients: 2, Fork: true, Threads: [][]Lookup{{L(0, 0, false)}, {L(1, 1, false), L(1, 10, false)}}},
		{Name: "fork-two-clients-two-new-records-on-fork", Height: 2, Preload: pre(10, 11), Stored: true, Clients: 2, Fork: true, Threads: [][]Lookup{{L(0, 0, false)}, {L(1, 1, false), L(1, 3, false)}}},
		{Name: "fork-two-clients-two-new-records-each-h1", Height: 1, Preload: pre(10), Stored: true, Clients: 2, Fork: true, Threads: [][]Lookup{{L(0, 0, false), L(0, 4, false)}, {L(1, 1, false), L(1, 3, false)}}},
		// configuration writes that fail with an I/O error, one client facing an equivocating server (threads 1 and 3
		// talk to one log, thread 2 to the other); thread 3 looks up a record that is already logged
		{Name: "fork-one-client-first-write-fails", Height: 2, Preload: pre(10, 11, 12, 13), Stored: true, Clients: 1, Fork: true, ByThread: true, WriteFails: []int{1}, Threads: [][]Lookup{{L(0, 0, false)}, {L(0, 1, false)}, {L(0, 10, false)}}},
		{Name: "fork-two-clients-second-write-fails", Height: 1, Preload: pre(10), Stored: true, Clients: 2, Fork: true, WriteFails: []int{2}, Threads: [][]Lookup{{L(0, 0, false), L(0, 10, false)}, {L(1, 1, false)}}},
		// a validly signed, advancing head that comes with a record that does not authenticate (client 0), then a
		// lookup of the same client answered under that head, while client 1 is shown a fork
		{Name: "fork-two-clients-forged-record-under-advancing-head", Height: 2, Preload: pre(10, 11), Stored: true, Clients: 2, Fork: true, ForgeLookup: "m0.example", Threads: [][]Lookup{{L(0, 0, false), L(0, 10, false)}, {L(1, 1, false)}}},
		{Name: "fork-two-clients-second-lookup-fork-only-record", Height: 1, Preload: pre(10), Stored: true, Clients: 2, Fork: true, Threads: [][]Lookup{{L(0, 0, false)}, {L(1, 1, false), {1, "fork.example/only", "v1.0.0"}}}},
		{Name: "same-log-different-sizes", Height: 2, Preload: pre(10, 11, 12), Stored: true, Clients: 2, Threads: [][]Lookup{{L(0, 0, false), L(0, 1, false)}, {L(1, 3, false)}}},
	}
}

func Find(name string) (Scenario, bool) {
	for _, s := range append(append(append(All(), ForkScenarios()...), Big()...), Wide()...) {
		if s.Name == name {
			return s, true
		}
	}
	return Scenario{}, false
}

// ---------------------------------------------------------------- environment

func gosum(variant string) func(path, vers string) ([]byte, error) {
	return func(path, vers string) ([]byte, error) {
		h := func(s string) string {
			x := sha256.Sum256([]byte(s))
			return "h1:" + base64.StdEncoding.EncodeToString(x[:])
		}
		return []byte(fmt.Sprintf("%s %s %s\n%s %s/go.mod %s\n", path, vers, h(path+vers+variant), path, vers, h(path+vers+"mod"+variant))), nil
	}
}

// Op is one external operation as observed.
type Op struct {
	Client int
	Kind   string
	Arg    string
}

// Env is the shared world of one execution: server(s), config, cache and the operation log.
type Env struct {
	mu             sync.Mutex // real mutex: held only inside short critical sections without scheduling points
	Point          func(label string)
	servers        []*sumdb.Server
	tservers       []*sumdb.TestServer
	Config         map[string][]byte
	Cache          map[string][]byte
	Ops            []Op
	Writes         []ConfigWrite
	HeadsSeen      []int64 // sizes of tree heads carried by lookup responses
	Served         []ServedHead
	byThread       bool
	forgeLookup    string
	writeFails     []int
	nWrites        int
	strictPartials bool
	Security       []string
	name           string
}

// ServedHead is the signed tree head carried by one lookup response.
type ServedHead struct {
	Client int
	Path   string
	Tree   tlog.Tree
}

type ConfigWrite struct {
	Client   int
	Old, New []byte
	Conflict bool
}

type view struct {
	e  *Env
	id int
}

func (v view) rec(kind, arg string) {
	if v.e.Point != nil {
		v.e.Point(fmt.Sprintf("c%d %s %s", v.id, kind, arg))
	}
	v.e.mu.Lock()
	v.e.Ops = append(v.e.Ops, Op{v.id, kind, arg})
	v.e.mu.Unlock()
}

func (v view) ReadRemote(path string) ([]byte, error) {
	v.rec("ReadRemote", path)
	srv := v.e.servers[0]
	if len(v.e.servers) > 1 {
		srv = v.e.servers[v.id%len(v.e.servers)]
		if v.e.byThread && CurrentThread != nil {
			if t := CurrentThread(); t > 0 {
				srv = v.e.servers[(t-1)%len(v.e.servers)]
			}
		}
	}
	if v.e.strictPartials && strings.HasPrefix(path, "/tile/") {
		// a server that stops serving the partial widths of a tile once the tile is complete (it keeps only
		// the complete tile, as the tile protocol allows); its "not found" is a plain error value
		if t, err := tlog.ParseTilePath(path[1:]); err == nil && t.L >= 0 && t.W < 1<<uint(t.H) {
			rq, _ := http.NewRequest("GET", "http://sum.example/latest", nil)
			lw := httptest.NewRecorder()
			srv.ServeHTTP(lw, rq)
			if n, err := note.Open(lw.Body.Bytes(), note.VerifierList(world.TheKeys().V)); err == nil {
				if cur, err := tlog.ParseTree([]byte(n.Text)); err == nil {
					// hashes at the tile's level in the server's current log
					if cur.N>>uint(t.H*t.L) >= (t.N+1)<<uint(t.H) {
						return nil, fmt.Errorf("GET %s: 404 not found", path)
					}
				}
			}
		}
	}
	req, err := http.NewRequest("GET", "http://sum.example"+path, nil)
	if err != nil {
		return nil, err
	}
	w := httptest.NewRecorder()
	srv.ServeHTTP(w, req)
	if w.Code != 200 {
		return nil, fmt.Errorf("GET %s: %d %s", path, w.Code, strings.TrimSpace(w.Body.String()))
	}
	data := w.Body.Bytes()
	if v.e.forgeLookup != "" && strings.HasPrefix(path, "/lookup/") && strings.Contains(path, v.e.forgeLookup) {
		if i := bytes.Index(data, []byte(" h1:")); i >= 0 && i+5 < len(data) {
			data = append([]byte(nil), data...)
			if data[i+4] == 'A' {
				data[i+4] = 'B'
			} else {
				data[i+4] = 'A'
			}
		}
	}
	if strings.HasPrefix(path, "/lookup/") {
		if _, _, treeMsg, err := tlog.ParseRecord(data); err == nil {
			if n, err := note.Open(treeMsg, note.VerifierList(world.TheKeys().V)); err == nil {
				if t, err := tlog.ParseTree([]byte(n.Text)); err == nil {
					v.e.mu.Lock()
					v.e.HeadsSeen = append(v.e.HeadsSeen, t.N)
					v.e.Served = append(v.e.Served, ServedHead{v.id, path, t})
					v.e.mu.Unlock()
				}
			}
		}
	}
	return data, nil
}

func (v view) ReadConfig(file string) ([]byte, error) {
	v.rec("ReadConfig", file)
	v.e.mu.Lock()
	defer v.e.mu.Unlock()
	if file == "key" {
		return []byte(world.TheKeys().Verifier), nil
	}
	return append([]byte(nil), v.e.Config[file]...), nil
}

func (v view) WriteConfig(file string, old, new []byte) error {
	v.rec("WriteConfig", file)
	v.e.mu.Lock()
	defer v.e.mu.Unlock()
	v.e.nWrites++
	for _, k := range v.e.writeFails {
		if k == v.e.nWrites {
			return fmt.Errorf("injected I/O error writing %s", file)
		}
	}
	w := ConfigWrite{Client: v.id, Old: append([]byte(nil), old...), New: append([]byte(nil), new...)}
	if !bytes.Equal(v.e.Config[file], old) {
		w.Conflict = true
		v.e.Writes = append(v.e.Writes, w)
		return sumdb.ErrWriteConflict
	}
	v.e.Config[file] = append([]byte(nil), new...)
	v.e.Writes = append(v.e.Writes, w)
	return nil
}

func (v view) ReadCache(file string) ([]byte, error) {
	v.rec("ReadCache", file)
	v.e.mu.Lock()
	defer v.e.mu.Unlock()
	d, ok := v.e.Cache[file]
	if !ok {
		return nil, errors.New("cache miss")
	}
	if strings.Contains(file, "/lookup/") {
		// a cached lookup carries a signed head too: it counts as a head this client has seen
		if _, _, treeMsg, err := tlog.ParseRecord(d); err == nil {
			if n, err := note.Open(treeMsg, note.VerifierList(world.TheKeys().V)); err == nil {
				if t, err := tlog.ParseTree([]byte(n.Text)); err == nil {
					v.e.HeadsSeen = append(v.e.HeadsSeen, t.N)
				}
			}
		}
	}
	return append([]byte(nil), d...), nil
}

func (v view) WriteCache(file string, data []byte) {
	v.rec("WriteCache", file)
	v.e.mu.Lock()
	v.e.Cache[file] = append([]byte(nil), data...)
	v.e.mu.Unlock()
}

func (v view) Log(msg string) {}

func (v view) SecurityError(msg string) {
	v.rec("SecurityError", "")
	v.e.mu.Lock()
	v.e.Security = append(v.e.Security, msg)
	v.e.mu.Unlock()
}

// Result of one lookup.
type Res struct {
	Lookup Lookup
	Lines  []string
	Err    error
}

// Exec runs the scenario once. spawn starts a goroutine, wait blocks until all spawned ones are
// done, point is the scheduling hook for external operations (nil when free-running).
func Exec(sc Scenario, spawn func(func()), wait func(), point func(string)) (*Env, []Res) {
	k := world.TheKeys()
	e := &Env{Point: nil, Config: map[string][]byte{}, Cache: map[string][]byte{}, name: k.Name, byThread: sc.ByThread, strictPartials: sc.StrictPartials, writeFails: sc.WriteFails, forgeLookup: sc.ForgeLookup}
	nsrv := 1
	if sc.Fork {
		nsrv = 2
	}
	for i := 0; i < nsrv; i++ {
		variant := ""
		ts := sumdb.NewTestServer(k.Signer, func(path, vers string) ([]byte, error) {
			// records after the preloaded prefix differ between the forks
			return gosum(variant)(path, vers)
		})
		e.tservers = append(e.tservers, ts)
		e.servers = append(e.servers, sumdb.NewServer(ts))
	}
	// preload through the real HTTP handler (server side only)
	pv := view{e, 0}
	for i := range e.servers {
		for _, m := range sc.Preload {
			pv.id = i
			mp, mver, _ := strings.Cut(m, "@")
			ep, _ := module.EscapePath(mp)
			ev, _ := module.EscapeVersion(mver)
			if _, err := pv.ReadRemote("/lookup/" + ep + "@" + ev); err != nil {
				panic("preload failed: " + err.Error())
			}
		}
	}
	if sc.Fork {
		// make the second log diverge: it gets one extra private record right after the shared prefix
		pv.id = 1
		if _, err := pv.ReadRemote("/lookup/fork.example/only@v1.0.0"); err != nil {
			panic("fork preload failed: " + err.Error())
		}
	}
	var storedHead []byte
	if sc.Stored || sc.ResetConfig == "stored" {
		pv.id = 0
		head, err := pv.ReadRemote("/latest")
		if err != nil {
			panic(err)
		}
		storedHead = head
		if sc.Fork {
			// the stored head is the shared prefix: serve it from a pristine server of the same size
		}
		e.Config[k.Name+"/latest"] = head
	}
	for i := 0; i < sc.Grow; i++ {
		pv.id = 0
		if _, err := pv.ReadRemote(fmt.Sprintf("/lookup/filler%d.example/f@v1.0.%d", i, i)); err != nil {
			panic("growing the log failed: " + err.Error())
		}
	}
	if len(sc.Warm) > 0 {
		wc := sumdb.NewClient(view{e, 0})
		if !sc.DefaultHeight {
			wc.SetTileHeight(sc.Height)
		}
		for _, l := range sc.Warm {
			if _, err := wc.Lookup(l.Path, l.Vers); err != nil {
				panic("warm-up lookup failed: " + err.Error())
			}
		}
		switch sc.ResetConfig {
		case "empty":
			delete(e.Config, k.Name+"/latest")
		case "stored":
			e.Config[k.Name+"/latest"] = storedHead
		}
	}
	e.Ops, e.HeadsSeen, e.Served, e.Writes = nil, nil, nil, nil
	e.Point = point
	clients := make([]*sumdb.Client, sc.Clients)
	for i := range clients {
		c := sumdb.NewClient(view{e, i})
		if !sc.DefaultHeight {
			c.SetTileHeight(sc.Height)
		}
		if sc.GONOSUMDB != "" {
			c.SetGONOSUMDB(sc.GONOSUMDB)
		}
		clients[i] = c
	}
	var results []Res
	var rmu sync.Mutex
	for _, th := range sc.Threads {
		th := th
		spawn(func() {
			for _, l := range th {
				lines, err := clients[l.Client].Lookup(l.Path, l.Vers)
				rmu.Lock()
				results = append(results, Res{l, lines, err})
				rmu.Unlock()
			}
		})
	}
	wait()
	return e, results
}

// Check is the per-execution oracle. It returns a message ("" if fine) and an outcome class.
func Check(sc Scenario, e *Env, results []Res) (string, string) {
	k := world.TheKeys()
	total := 0
	for _, th := range sc.Threads {
		total += len(th)
	}
	if len(results) != total {
		return fmt.Sprintf("%d of %d lookups returned", len(results), total), ""
	}
	// private paths: the documented prefix-glob rule (reference implementation shared with C06)
	skipped := func(p string) bool { return sc.GONOSUMDB != "" && pathref.MatchPrefix(sc.GONOSUMDB, p) }
	// a client that only ever looks up private paths must perform no external operation at all
	onlyPrivate := map[int]bool{}
	for _, th := range sc.Threads {
		for _, l := range th {
			if _, seen := onlyPrivate[l.Client]; !seen {
				onlyPrivate[l.Client] = true
			}
			if !skipped(l.Path) {
				onlyPrivate[l.Client] = false
			}
		}
	}
	for _, op := range e.Ops {
		if onlyPrivate[op.Client] {
			return fmt.Sprintf("client %d only looked up paths on the private-module list, yet performed %s %s", op.Client, op.Kind, op.Arg), ""
		}
	}
	nsec := 0
	for _, r := range results {
		l := r.Lookup
		if skipped(l.Path) {
			if r.Err != sumdb.ErrGONOSUMDB {
				return fmt.Sprintf("lookup of private path %s returned %v, want ErrGONOSUMDB", l.Path, r.Err), ""
			}
			for _, op := range e.Ops {
				if strings.Contains(op.Arg, strings.ToLower(l.Path)) {
					return fmt.Sprintf("private path %s caused the external operation %s %s", l.Path, op.Kind, op.Arg), ""
				}
			}
			continue
		}
		if sc.Fork {
			if r.Err != nil {
				if strings.Contains(r.Err.Error(), sumdb.ErrSecurity.Error()) {
					nsec++
				}
				continue // with forked servers a lookup may legitimately fail; the timeline monitors below decide
			}
		} else if r.Err != nil {
			return fmt.Sprintf("honest server, but lookup %s@%s (client %d) failed: %v", l.Path, l.Vers, l.Client, r.Err), ""
		}
		want, _ := gosum("")(l.Path, strings.TrimSuffix(l.Vers, "/go.mod"))
		var wl []string
		for _, line := range strings.Split(string(want), "\n") {
			if strings.HasPrefix(line, l.Path+" "+l.Vers+" ") {
				wl = append(wl, line)
			}
		}
		if strings.Join(r.Lines, "\n") != strings.Join(wl, "\n") {
			return fmt.Sprintf("lookup %s@%s returned %q, the server's lines are %q", l.Path, l.Vers, r.Lines, wl), ""
		}
	}
	// each distinct lookup fetched from cache or network at most once per client
	count := map[string]int{}
	for _, op := range e.Ops {
		if (op.Kind == "ReadRemote" || op.Kind == "ReadCache") && strings.Contains(op.Arg, "/lookup/") {
			key := fmt.Sprintf("client %d %s %s", op.Client, op.Kind, op.Arg)
			count[key]++
			if count[key] > 1 {
				return key + " was performed more than once", ""
			}
		}
	}
	// shared head never regresses and ends at the largest tree seen
	open := func(msg []byte) (tlog.Tree, error) {
		if len(msg) == 0 {
			return tlog.Tree{}, nil
		}
		n, err := note.Open(msg, note.VerifierList(k.V))
		if err != nil {
			return tlog.Tree{}, err
		}
		return tlog.ParseTree([]byte(n.Text))
	}
	var sizes []string
	conflicts := 0
	for _, w := range e.Writes {
		if w.Conflict {
			conflicts++
			continue
		}
		ot, err1 := open(w.Old)
		nt, err2 := open(w.New)
		if err1 != nil || err2 != nil {
			return fmt.Sprintf("WriteConfig with an unreadable head: %v %v", err1, err2), ""
		}
		if nt.N < ot.N {
			return fmt.Sprintf("stored head regressed from size %d to %d (client %d)", ot.N, nt.N, w.Client), ""
		}
		if !sc.Fork {
			// single honest log: every stored head must be a true head
			h, err := e.treeHash(0, nt.N)
			if err != nil || h != nt.Hash {
				return fmt.Sprintf("stored head of size %d is not the server's tree of that size", nt.N), ""
			}
		} else if ot.N > 0 {
			// forked servers: the new head must contain the old one on one of the logs
			ok := false
			for i := range e.tservers {
				ho, err1 := e.treeHash(i, ot.N)
				hn, err2 := e.treeHash(i, nt.N)
				if err1 == nil && err2 == nil && ho == ot.Hash && hn == nt.Hash {
					ok = true
				}
			}
			if !ok {
				return fmt.Sprintf("stored head moved from size %d to size %d of a tree that does not contain it", ot.N, nt.N), ""
			}
		}
		sizes = append(sizes, fmt.Sprint(nt.N))
	}
	final, err := open(e.Config[k.Name+"/latest"])
	if err != nil {
		return "final stored head unreadable: " + err.Error(), ""
	}
	if !sc.Fork {
		max := int64(0)
		if sc.Stored {
			max = int64(len(sc.Preload))
		}
		for _, n := range e.HeadsSeen {
			if n > max {
				max = n
			}
		}
		anyLookup := false
		for _, r := range results {
			if r.Err == nil {
				anyLookup = true
			}
		}
		if anyLookup && final.N != max {
			return fmt.Sprintf("final stored head has size %d, the largest tree seen has size %d (heads seen %v)", final.N, max, e.HeadsSeen), ""
		}
	}
	if sc.Fork {
		// one timeline per client: the heads carried by the responses of its successful lookups and the
		// heads it stored must all be true heads of one and the same log
		for c := 0; c < sc.Clients; c++ {
			var ts []tlog.Tree
			var what []string
			for _, r := range results {
				if r.Err != nil || r.Lookup.Client != c || skipped(r.Lookup.Path) {
					continue
				}
				for _, sh := range e.Served {
					if sh.Client == c && sh.Path == lookupPath(r.Lookup) {
						ts = append(ts, sh.Tree)
						what = append(what, fmt.Sprintf("lookup %s -> size %d", r.Lookup.Path, sh.Tree.N))
					}
				}
			}
			for _, w := range e.Writes {
				if w.Client == c && !w.Conflict {
					if nt, err := open(w.New); err == nil {
						ts = append(ts, nt)
						what = append(what, fmt.Sprintf("stored size %d", nt.N))
					}
				}
			}
			one := len(ts) == 0
			for i := range e.tservers {
				all := true
				for _, t := range ts {
					if h, err := e.treeHash(i, t.N); err != nil || h != t.Hash {
						all = false
					}
				}
				if all {
					one = true
				}
			}
			if !one {
				return fmt.Sprintf("client %d accepted signed trees that do not lie on one log: %v", c, what), ""
			}
		}
	}
	if sc.Fork {
		// one timeline for everybody who shares the configuration: the heads carried by the responses of all
		// successful lookups and all stored heads, of all clients, must be true heads of one and the same log
		type acc struct {
			client int
			t      tlog.Tree
			what   string
			lookup bool
		}
		var all []acc
		for _, r := range results {
			if r.Err != nil || skipped(r.Lookup.Path) {
				continue
			}
			for _, sh := range e.Served {
				if sh.Client == r.Lookup.Client && sh.Path == lookupPath(r.Lookup) {
					all = append(all, acc{r.Lookup.Client, sh.Tree, fmt.Sprintf("client %d lookup %s@%s accepted with head size %d %s", r.Lookup.Client, r.Lookup.Path, r.Lookup.Vers, sh.Tree.N, sh.Tree.Hash.String()[:8]), true})
				}
			}
		}
		for _, w := range e.Writes {
			if !w.Conflict {
				if nt, err := open(w.New); err == nil {
					all = append(all, acc{w.Client, nt, fmt.Sprintf("client %d stored head size %d %s", w.Client, nt.N, nt.Hash.String()[:8]), false})
				}
			}
		}
		if final.N > 0 {
			all = append(all, acc{-1, final, fmt.Sprintf("final stored head size %d %s", final.N, final.Hash.String()[:8]), false})
		}
		oneLog := func(skip func(a acc) bool) bool {
			for i := range e.tservers {
				ok := true
				for _, a := range all {
					if skip != nil && skip(a) {
						continue
					}
					if h, err := e.treeHash(i, a.t.N); err != nil || h != a.t.Hash {
						ok = false
					}
				}
				if ok {
					return true
				}
			}
			return false
		}
		if !oneLog(nil) {
			var what []string
			for _, a := range all {
				what = append(what, a.what)
			}
			// Known class: the accepted head is one that the same client installed in memory during an
			// earlier lookup whose reconciliation with the shared configuration then failed (that lookup
			// returned an error); a later response carrying exactly that head is answered from memory.
			tainted := func(a acc) bool {
				if !a.lookup {
					return false
				}
				for _, r := range results {
					if r.Err == nil || r.Lookup.Client != a.client {
						continue
					}
					// the earlier lookup must have failed while reconciling two heads or the configuration: a security
					// error, a failed comparison of two trees, or an I/O error of the configuration
					if es := r.Err.Error(); !strings.Contains(es, sumdb.ErrSecurity.Error()) && !strings.Contains(es, "injected I/O error") && !strings.Contains(es, "checking tree#") {
						continue // (comparing two heads can also fail on a tile of the other log found in the shared cache)
					}
					for _, sh := range e.Served {
						if sh.Client == a.client && sh.Path == lookupPath(r.Lookup) && sh.Tree == a.t {
							return true
						}
					}
				}
				return false
			}
			if oneLog(tainted) {
				return KnownMemoryAhead + fmt.Sprintf("accepted signed trees do not lie on one log: %v", what), ""
			}
			return fmt.Sprintf("clients sharing one configuration accepted signed trees that do not lie on one log: %v", what), ""
		}
	}
	// every security report must prove its claim: it carries (verbatim, signatures included) two signed
	// tree heads that are not heads of one and the same log
	for _, m := range e.Security {
		flat := strings.ReplaceAll(m, "\n\t", "\n")
		var heads []tlog.Tree
		for rest := flat; ; {
			i := strings.Index(rest, "go.sum database tree\n")
			if i < 0 {
				break
			}
			seg := rest[i:]
			// the note ends after its signature lines
			end := strings.Index(seg, "\n\n")
			if end < 0 {
				break
			}
			j := end + 2
			for strings.HasPrefix(seg[j:], "— ") {
				nl := strings.Index(seg[j:], "\n")
				if nl < 0 {
					j = len(seg)
					break
				}
				j += nl + 1
			}
			if t, err := open([]byte(seg[:j])); err == nil {
				heads = append(heads, t)
			}
			rest = seg[len("go.sum database tree\n"):]
		}
		proves := false
		for a := 0; a < len(heads); a++ {
			for b := a + 1; b < len(heads); b++ {
				same := false
				for i := range e.tservers {
					ha, ea := e.treeHash(i, heads[a].N)
					hb, eb := e.treeHash(i, heads[b].N)
					if ea == nil && eb == nil && ha == heads[a].Hash && hb == heads[b].Hash {
						same = true
					}
				}
				if !same {
					proves = true
				}
			}
		}
		if !proves {
			var ds []string
			for _, t := range heads {
				ds = append(ds, fmt.Sprintf("size %d %s", t.N, t.Hash.String()[:8]))
			}
			return fmt.Sprintf("a security report does not carry two validly signed heads that contradict each other (heads found in it: %v)", ds), ""
		}
	}
	if nsec > 0 && len(e.Security) == 0 {
		return "a lookup reported a security error but the callback never ran", ""
	}
	sort.Strings(sizes)
	return "", fmt.Sprintf("writes=%s conflicts=%d final=%d security=%d", strings.Join(sizes, ","), conflicts, final.N, nsec)
}

// treeHash computes the server's tree hash of the first n records from its tiles (height 1 tiles
// are plain hashes of consecutive records), using the real tlog code on server-side data.
func (e *Env) treeHash(server int, n int64) (h tlog.Hash, err error) {
	defer func() {
		if r := recover(); r != nil {
			err = fmt.Errorf("server %d has fewer than %d records", server, n)
		}
	}()
	ts := e.tservers[server]
	return tlog.TreeHash(n, tlog.HashReaderFunc(func(ix []int64) ([]tlog.Hash, error) {
		out := make([]tlog.Hash, len(ix))
		for i, x := range ix {
			t := tlog.TileForIndex(1, x)
			d, err := ts.ReadTileData(context.Background(), t)
			if err != nil {
				return nil, err
			}
			h, err := tlog.HashFromTile(t, d, x)
			if err != nil {
				return nil, err
			}
			out[i] = h
		}
		return out, nil
	}))
}
