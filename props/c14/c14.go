// Package c14: concurrent lookups behave like sequential ones and fetch each record once.
// This file is the orchestrator: it drives worker processes built with the scheduler overlay
// (cmd/vsched) over all scenarios, shards and granularities, and the free-running race pass.
package c14

import (
	"bytes"
	"encoding/json"
	"fmt"
	"os"
	"os/exec"
	"sort"
	"strings"
	"sync"
	"time"

	"verif/internal/fw"
	"verif/props/c14/scen"
)

type workerOut struct {
	Scenario    string         `json:"scenario"`
	Granularity string         `json:"granularity"`
	Bound       int            `json:"preemption_bound"`
	Executions  int64          `json:"executions"`
	Points      int64          `json:"scheduling_points"`
	MaxPoints   int            `json:"max_points_in_one_execution"`
	MaxThreads  int            `json:"max_threads"`
	Preempted   int64          `json:"executions_with_preemption"`
	Outcomes    map[string]int `json:"outcomes"`
	Complete    bool           `json:"complete"`
	Cap         string         `json:"cap,omitempty"`
	Violation   string         `json:"violation,omitempty"`
	Known       map[string]struct {
		Count    int    `json:"executions"`
		Message  string `json:"message"`
		Schedule []int  `json:"first_schedule"`
	} `json:"known_classes,omitempty"`
	Schedule []int    `json:"schedule,omitempty"`
	Children [][]int  `json:"children,omitempty"`
	Labels   []string `json:"schedule_labels,omitempty"`
	WallS    float64  `json:"wall_s"`
}

type CaseT struct {
	Scenario    string   `json:"scenario"`
	Granularity string   `json:"granularity"`
	Schedule    []int    `json:"schedule"`
	Labels      []string `json:"labels_at_choice_points,omitempty"`
	Race        string   `json:"race_report,omitempty"`
}

func (c CaseT) key() string {
	return fmt.Sprintf("%s:%s:%s", c.Scenario, c.Granularity, rle(c.Schedule))
}

// rle prints a schedule with runs of equal choices collapsed ("0x140 1 0x3").
func rle(s []int) string {
	var parts []string
	for i := 0; i < len(s); {
		j := i
		for j < len(s) && s[j] == s[i] {
			j++
		}
		if j-i > 3 {
			parts = append(parts, fmt.Sprintf("%dx%d", s[i], j-i))
		} else {
			for k := i; k < j; k++ {
				parts = append(parts, fmt.Sprint(s[k]))
			}
		}
		i = j
	}
	return "[" + strings.Join(parts, " ") + "]"
}

func schedBin() string { return os.Getenv("VERIF_BIN") + ".sched" }
func raceBin() string  { return os.Getenv("VERIF_BIN") + ".race" }

type jobT struct {
	sc     string
	gran   string
	mode   string // "preemptions" (switches at blocking points are free) | "deviations" (every departure from the default schedule counts)
	bound  int
	prefix []int
	plan   bool
	limit  time.Duration
}

type summary struct {
	Scenario    string `json:"scenario"`
	Granularity string `json:"granularity"`
	Mode        string `json:"bounded_quantity"`
	Bound       int    `json:"bound"`
	Executions  int64  `json:"executions"`
	Complete    bool   `json:"complete_within_bound"`
	Subtrees    int    `json:"subtree_jobs"`
	MaxPoints   int    `json:"max_choice_points"`
	MaxThreads  int    `json:"max_goroutines"`
	Outcomes    int    `json:"distinct_outcomes"`
}

// Config is one exploration configuration applied to every scenario (or to those in Only).
type Config struct {
	Gran  string
	Mode  string
	Bound int
	Only  map[string]bool
}

// Small lists the scenarios whose preemption-bounded trees (free switches at blocking points) are small enough to finish.
var Small = map[string]bool{"same-key-twice": true, "two-keys-growing-log": true, "upper-and-gomod": true, "two-clients-same-key": true, "nosumdb-next-to-normal": true, "nosumdb-only-client": true, "one-thread-two-lookups-vs-one": true, "fork-two-clients-empty-config": true}

// Compact lists the scenarios that get one more deviation (few scheduling points per execution).
var Compact = map[string]bool{"three-heads-one-client-h8": true, "same-key-twice": true, "two-keys-growing-log": true, "two-clients-same-key": true, "one-thread-two-lookups-vs-one": true, "fork-two-clients-empty-config": true, "fork-one-client-two-threads": true}

func prefixArg(p []int) string {
	var ss []string
	for _, x := range p {
		ss = append(ss, fmt.Sprint(x))
	}
	return strings.Join(ss, ",")
}

// RunSchedules explores the scenarios and records results in r. The schedule tree of every
// (scenario, granularity) is split two levels deep into subtree jobs that worker processes
// explore depth-first; total is the wall-clock budget after which no new subtree is started.
func RunSchedules(r *fw.Run, scs []scen.Scenario, cfgs []Config, perJob, total time.Duration) {
	if _, err := os.Stat(schedBin()); err != nil {
		r.Violation("no-scheduler-binary", "the scheduler-instrumented worker binary was not built: "+err.Error(), nil)
		return
	}
	if u := os.Getenv("VERIF_SCHED_UNSUPPORTED"); u != "" {
		// the package now synchronises through constructs the scheduler cannot intercept (channels,
		// select, timers): a controlled execution could block for ever. Say so instead of exploring.
		r.Cap("controlled-scheduler exploration skipped: package sumdb uses constructs outside the scheduler's model: " + u)
		r.Note("schedules not explored for this tree; only the parts of the check that do not need the scheduler ran")
		return
	}
	deadline := time.Now().Add(total)
	type agg struct {
		summary
		outcomes   map[string]int
		incomplete bool
	}
	var mu sync.Mutex
	aggs := map[string]*agg{}
	get := func(j jobT) *agg {
		k := fmt.Sprintf("%s/%s/%s/%d", j.sc, j.gran, j.mode, j.bound)
		a := aggs[k]
		if a == nil {
			a = &agg{summary: summary{Scenario: j.sc, Granularity: j.gran, Mode: j.mode, Bound: j.bound}, outcomes: map[string]int{}}
			aggs[k] = a
		}
		return a
	}
	runJob := func(j jobT) (workerOut, bool) {
		args := []string{"-scenario", j.sc, "-gran", j.gran, "-bound", fmt.Sprint(j.bound), "-time", j.limit.String()}
		if j.mode == "deviations" {
			args = append(args, "-deviations")
		}
		if j.mode == "round-robin-deviations" {
			args = append(args, "-rr")
		}
		if len(j.prefix) > 0 {
			args = append(args, "-prefix", prefixArg(j.prefix))
		}
		if j.plan {
			args = append(args, "-plan")
		}
		cmd := exec.Command(schedBin(), args...)
		var stdout, stderr bytes.Buffer
		cmd.Stdout, cmd.Stderr = &stdout, &stderr
		err := cmd.Run()
		var o workerOut
		if err != nil || json.Unmarshal(bytes.TrimSpace(stdout.Bytes()), &o) != nil {
			c := CaseT{Scenario: j.sc, Granularity: j.gran, Schedule: j.prefix}
			if err != nil && strings.Contains(err.Error(), "signal: killed") {
				// killed from outside (memory pressure, an operator): no verdict for this subtree
				r.Cap(fmt.Sprintf("%s/%s %s<=%d: a worker process was killed from outside; its subtree is unexplored", j.sc, j.gran, j.mode, j.bound))
				return o, false
			}
			clip := func(s string) string {
				if len(s) > 3000 {
					return s[:3000] + "..."
				}
				return s
			}
			r.Violation("worker:"+c.key(), fmt.Sprintf("scheduler worker failed (%v): %s %s", err, clip(stderr.String()), clip(stdout.String())), c)
			return o, false
		}
		r.States.Add(o.Executions)
		r.Execs.Add(o.Executions)
		r.Transitions.Add(o.Points)
		r.Nontrivial.Add(o.Preempted)
		mu.Lock()
		a := get(j)
		a.Executions += o.Executions
		if o.MaxPoints > a.MaxPoints {
			a.MaxPoints = o.MaxPoints
		}
		if o.MaxThreads > a.MaxThreads {
			a.MaxThreads = o.MaxThreads
		}
		if !j.plan {
			a.Subtrees++
			if !o.Complete {
				a.incomplete = true
			}
		}
		for c, n := range o.Outcomes {
			a.outcomes[c] += n
		}
		mu.Unlock()
		for c, n := range o.Outcomes {
			r.OutcomeN(j.sc+" | "+c, int64(n))
		}
		for cls, k := range o.Known {
			c := CaseT{Scenario: j.sc, Granularity: j.gran, Schedule: k.Schedule}
			for i := 0; i < k.Count; i++ {
				r.Violation(cls, fmt.Sprintf("scenario %s (%s granularity), schedule %s: %s", j.sc, j.gran, rle(k.Schedule), k.Message), c)
			}
		}
		if o.Violation != "" {
			c := CaseT{Scenario: j.sc, Granularity: j.gran, Schedule: o.Schedule, Labels: o.Labels}
			r.Violation(c.key(), fmt.Sprintf("scenario %s (%s granularity), schedule %s: %s", j.sc, j.gran, rle(o.Schedule), o.Violation), c)
			return o, false
		}
		return o, true
	}
	// level 1 and 2 plans
	var roots []jobT
	for _, sc := range scs {
		for _, c := range cfgs {
			if c.Only != nil && !c.Only[sc.Name] {
				continue
			}
			roots = append(roots, jobT{sc: sc.Name, gran: c.Gran, mode: c.Mode, bound: c.Bound, plan: true, limit: perJob})
		}
	}
	var level1 []jobT
	fw.Parallel(len(roots), func(i int) {
		o, ok := runJob(roots[i])
		if !ok {
			return
		}
		mu.Lock()
		for _, c := range o.Children {
			j := roots[i]
			j.prefix = c
			level1 = append(level1, j)
		}
		mu.Unlock()
	})
	var jobs []jobT
	// trees with many first-level alternatives are split one level deep only (one process per subtree)
	perTree := map[string]int{}
	for _, j := range level1 {
		perTree[fmt.Sprintf("%s/%s/%s/%d", j.sc, j.gran, j.mode, j.bound)]++
	}
	var split []jobT
	for _, j := range level1 {
		if perTree[fmt.Sprintf("%s/%s/%s/%d", j.sc, j.gran, j.mode, j.bound)] >= 48 {
			j.plan = false
			jobs = append(jobs, j)
		} else {
			split = append(split, j)
		}
	}
	level1 = split
	fw.Parallel(len(level1), func(i int) {
		if r.Failed() {
			return
		}
		o, ok := runJob(level1[i])
		if !ok {
			return
		}
		mu.Lock()
		for _, c := range o.Children {
			j := level1[i]
			j.prefix = c
			j.plan = false
			jobs = append(jobs, j)
		}
		mu.Unlock()
	})
	// interleave the jobs of the different scenarios so that a time budget cuts them evenly
	byKey := map[string][]jobT{}
	var keys []string
	for _, j := range jobs {
		k := fmt.Sprintf("%s/%s/%s/%d", j.sc, j.gran, j.mode, j.bound)
		if _, ok := byKey[k]; !ok {
			keys = append(keys, k)
		}
		byKey[k] = append(byKey[k], j)
	}
	// smallest trees first: they complete, a time budget then cuts only the largest ones
	sort.Slice(keys, func(a, b int) bool {
		if len(byKey[keys[a]]) != len(byKey[keys[b]]) {
			return len(byKey[keys[a]]) < len(byKey[keys[b]])
		}
		return keys[a] < keys[b]
	})
	var ordered []jobT
	for _, k := range keys {
		ordered = append(ordered, byKey[k]...)
	}
	fw.Parallel(len(ordered), func(i int) {
		j := ordered[i]
		if r.Failed() {
			return
		}
		if time.Now().After(deadline) {
			mu.Lock()
			get(j).incomplete = true
			mu.Unlock()
			r.Cap(fmt.Sprintf("%s/%s %s<=%d: wall-clock budget %v reached before every subtree was explored", j.sc, j.gran, j.mode, j.bound, total))
			return
		}
		o, ok := runJob(j)
		if ok && o.Cap != "" {
			r.Cap(fmt.Sprintf("%s/%s %s<=%d: %s in a subtree", j.sc, j.gran, j.mode, j.bound, o.Cap))
		}
	})
	var sums []summary
	for _, sc := range scs {
		for _, c := range cfgs {
			if a := aggs[fmt.Sprintf("%s/%s/%s/%d", sc.Name, c.Gran, c.Mode, c.Bound)]; a != nil {
				a.Complete = !a.incomplete
				a.Outcomes = len(a.outcomes)
				sums = append(sums, a.summary)
			}
		}
	}
	prev, _ := r.Extra["schedule_exploration"].([]summary)
	r.Extra["schedule_exploration"] = append(prev, sums...)
}

// RunRace runs the free-running race pass (sampling).
func RunRace(r *fw.Run, reps int) {
	if _, err := os.Stat(raceBin()); err != nil {
		r.Note("race pass skipped: binary not built (%v)", err)
		r.Extra["race_pass"] = "not run"
		return
	}
	cmd := exec.Command(raceBin(), "-reps", fmt.Sprint(reps))
	cmd.Env = append(os.Environ(), "GOMAXPROCS=16", "GORACE=halt_on_error=0")
	var stdout, stderr bytes.Buffer
	cmd.Stdout, cmd.Stderr = &stdout, &stderr
	err := cmd.Run()
	var o struct {
		Runs      int            `json:"runs"`
		Outcomes  map[string]int `json:"outcomes"`
		Violation string         `json:"violation"`
		Scenario  string         `json:"scenario"`
		Stalled   string         `json:"stalled"`
	}
	json.Unmarshal(bytes.TrimSpace(stdout.Bytes()), &o)
	if o.Stalled != "" {
		// no wall-clock oracle: a free-running execution that does not end is left to the controlled
		// exploration, which decides deadlocks exactly; here it only ends the sampling pass
		r.Cap("race pass: " + o.Stalled)
		err = nil
	}
	r.Extra["race_pass"] = map[string]any{"kind": "free-running executions under the Go race detector (sampling, not exhaustive)", "runs": o.Runs, "distinct_outcomes": len(o.Outcomes)}
	if strings.Contains(stderr.String(), "DATA RACE") {
		rep := stderr.String()
		if len(rep) > 3000 {
			rep = rep[:3000]
		}
		c := CaseT{Scenario: "race-pass", Race: rep}
		r.Violation("race:"+firstLines(rep, 8), "the race detector reported a data race in a free-running execution:\n"+rep, c)
		return
	}
	if o.Violation != "" {
		c := CaseT{Scenario: o.Scenario, Granularity: "free-running"}
		r.Violation("free:"+o.Scenario+":"+o.Violation, "free-running execution: "+o.Violation, c)
		return
	}
	if err != nil {
		r.Violation("race-binary", fmt.Sprintf("race pass failed to run: %v %s", err, stderr.String()), nil)
	}
}

func firstLines(s string, n int) string {
	l := strings.Split(s, "\n")
	if len(l) > n {
		l = l[:n]
	}
	return strings.Join(l, "\n")
}

// FirstCalls is the menu of the fresh-process call-order check: scenarios run one goroutine after the other.
func FirstCalls() []fw.Call {
	var out []fw.Call
	for _, name := range []string{"same-key-twice", "two-keys-stored-3", "upper-and-gomod", "nosumdb-next-to-normal", "growing-log-strict-partials-h1"} {
		name := name
		out = append(out, fw.Call{Name: name, F: func() string {
			sc, _ := scen.Find(name)
			env, res := scen.Exec(sc, func(f func()) { f() }, func() {}, nil)
			msg, class := scen.Check(sc, env, res)
			var rs []string
			for _, x := range res {
				rs = append(rs, fmt.Sprintf("%q err=%v", x.Lines, x.Err))
			}
			return msg + "|" + class + "|" + strings.Join(rs, ";")
		}})
	}
	return out
}

func Run(r *fw.Run) {
	defer fw.FirstCallOrders(r, r.ID, FirstCalls(), nil)
	tallTiles(r)
	DeepLogs(r)
	scs := scen.All()
	cfgs := []Config{{Gran: "ops", Mode: "deviations", Bound: 2, Only: nil}, {Gran: "sync", Mode: "deviations", Bound: 1, Only: nil}, {Gran: "ops", Mode: "preemptions", Bound: 1, Only: Small}, {Gran: "sync", Mode: "preemptions", Bound: 1, Only: Small}, {Gran: "ops", Mode: "deviations", Bound: 3, Only: Compact}}
	perJob, total := 60*time.Second, 150*time.Second
	if r.Thorough() {
		cfgs = []Config{{Gran: "ops", Mode: "deviations", Bound: 3, Only: nil}, {Gran: "sync", Mode: "deviations", Bound: 2, Only: nil}, {Gran: "ops", Mode: "preemptions", Bound: 2, Only: Small}, {Gran: "sync", Mode: "preemptions", Bound: 1, Only: Small}, {Gran: "ops", Mode: "deviations", Bound: 4, Only: Compact}}
		perJob, total = 15*time.Minute, 25*time.Minute
	}
	var names []string
	for _, s := range scs {
		names = append(names, s.Name)
	}
	r.Bounds["scenarios"] = names
	var cs []string
	for _, c := range cfgs {
		only := "all scenarios"
		if c.Only != nil {
			only = "the small scenarios"
		}
		cs = append(cs, fmt.Sprintf("%s granularity, %s <= %d, %s", c.Gran, c.Mode, c.Bound, only))
	}
	r.Bounds["configurations"] = cs
	r.Bounds["time_budget"] = fmt.Sprintf("schedule trees are split two levels deep into subtree jobs; %v per subtree, no new subtree after %v", perJob, total)
	r.Rule = "state = one complete execution (schedule) of a closed 2-3 goroutine driver (wide scenarios: 17-65 goroutines) of the real client against the real sumdb.Server/TestServer under a cooperative scheduler that owns every sync/atomic and channel operation of package sumdb and every ClientOps call; stateless depth-first search with replay over all schedules within a bound on deviations from a default schedule (every non-default choice counts, blocking points included; two defaults: run each goroutine to completion, and round robin = hand over at every scheduling point) and, for the small scenarios, within a preemption bound with free switches at blocking points; at two granularities: ops (ClientOps calls + blocking) and sync (every synchronisation operation). transitions = scheduling points executed. non-trivial = schedule with at least one preemption. Oracle per execution: all lookups succeed with the server's lines; each lookup key read from cache and from network at most once per client; stored head monotone, true, and finally the largest head seen; GONOSUMDB path causes no external operation; no deadlock, livelock or panic. A separate free-running -race pass looks for data races (sampling)."
	r.Assume = []string{"the scheduler models sequentially consistent interleavings of the intercepted operations; unsynchronised accesses are the business of the separate race pass", "shards that hit their time limit leave part of the bounded space unexplored: reported per scenario and as exhaustive=false"}
	RunSchedules(r, scs, cfgs, perJob, total)
	// larger logs (many tiles per read): the default schedule (thorough: and every single deviation from it);
	// the free-running pass below runs them too
	var bigNames []string
	for _, s := range scen.Big() {
		bigNames = append(bigNames, s.Name)
	}
	r.Bounds["big_log_scenarios"] = bigNames
	RunSchedules(r, scen.Big(), []Config{{Gran: "ops", Mode: "deviations", Bound: r.Pick(0, 1), Only: nil}}, perJob, total)
	// many goroutines at once (more than any fixed small limit on work in flight): both default schedules
	// - run each goroutine to completion, and hand over at every scheduling point (round robin) - and
	// every single deviation from them
	var wideNames []string
	for _, s := range scen.Wide() {
		wideNames = append(wideNames, s.Name)
	}
	r.Bounds["wide_scenarios"] = wideNames
	wcfg := []Config{{Gran: "ops", Mode: "deviations", Bound: 0}, {Gran: "ops", Mode: "round-robin-deviations", Bound: 0}, {Gran: "sync", Mode: "round-robin-deviations", Bound: 0}}
	if r.Thorough() {
		wcfg = append(wcfg, Config{Gran: "ops", Mode: "round-robin-deviations", Bound: 1, Only: map[string]bool{"wide-17-lookups": true}})
	}
	RunSchedules(r, scen.Wide(), wcfg, perJob, total)
	// the ordinary scenarios under the round-robin default as well
	RunSchedules(r, scs, []Config{{Gran: "ops", Mode: "round-robin-deviations", Bound: r.Pick(1, 2)}, {Gran: "sync", Mode: "round-robin-deviations", Bound: r.Pick(0, 1)}}, perJob, total)
	RunRace(r, r.Pick(60, 400))
	r.Sample(CaseT{Scenario: "two-keys-growing-log", Granularity: "ops", Schedule: []int{0, 1, 0, 2}})
}

func Replay(r *fw.Run, raw json.RawMessage) {
	if replayTall(r, raw) {
		return
	}
	var c CaseT
	if err := json.Unmarshal(raw, &c); err != nil {
		r.Violation("replay", err.Error(), nil)
		return
	}
	var ss []string
	for _, x := range c.Schedule {
		ss = append(ss, fmt.Sprint(x))
	}
	out, err := exec.Command(schedBin(), "-scenario", c.Scenario, "-gran", c.Granularity, "-replay", strings.Join(ss, ",")).CombinedOutput()
	var o workerOut
	r.States.Add(1)
	r.Transitions.Add(1)
	r.Execs.Add(1)
	r.Sample(c)
	if err != nil || json.Unmarshal(bytes.TrimSpace(out), &o) != nil {
		r.Violation(c.key(), fmt.Sprintf("replay failed: %v %s", err, out), c)
		return
	}
	if cls, msg, ok := strings.Cut(o.Violation, "|"); ok && strings.HasPrefix(cls, "class:") {
		r.Violation(cls, msg, c) // a recorded finding class (KNOWN-FINDING if listed in known_findings.txt)
		return
	}
	if o.Violation != "" {
		r.Violation(c.key(), o.Violation, c)
	}
}
