// Package c19: the module content hash is the documented formula over names and bytes only.
package c19

import (
	"archive/zip"
	"bytes"
	"crypto/sha256"
	"encoding/base64"
	"encoding/hex"
	"encoding/json"
	"fmt"
	"hash/crc32"
	"io"
	"io/fs"
	"os"
	"path/filepath"
	"sort"
	"strconv"
	"strings"
	"sync"
	"time"

	"golang.org/x/mod/module"
	"golang.org/x/mod/sumdb/dirhash"
	modzip "golang.org/x/mod/zip"

	"verif/internal/coop"
	"verif/internal/enum"
	"verif/internal/fw"
	"verif/internal/memfile"
)

type pairT struct {
	Name    string `json:"name_quoted"`
	Content string `json:"content_quoted"`
}
type caseT struct {
	Kind  string   `json:"kind"` // set | zip
	Files []pairT  `json:"files_in_listing_order"`
	Mod   string   `json:"module,omitempty"`
	Ver   string   `json:"version,omitempty"`
	Calls []string `json:"call_history,omitempty"`
	Sched []int    `json:"interleaving,omitempty"`
	Wd    string   `json:"working_directory,omitempty"` // \x00 stands for the scratch directory
	Dir   string   `json:"directory_argument,omitempty"`
}

func refSummary(files map[string]string) string {
	var names []string
	for n := range files {
		names = append(names, n)
	}
	sort.Strings(names)
	var b strings.Builder
	for _, n := range names {
		s := sha256.Sum256([]byte(files[n]))
		b.WriteString(hex.EncodeToString(s[:]) + "  " + n + "\n")
	}
	return b.String()
}

func refHash(files map[string]string) string {
	s := sha256.Sum256([]byte(refSummary(files)))
	return "h1:" + base64.StdEncoding.EncodeToString(s[:])
}

func mkCase(kind string, names, contents []string) caseT {
	c := caseT{Kind: kind}
	for i := range names {
		c.Files = append(c.Files, pairT{strconv.QuoteToASCII(names[i]), strconv.QuoteToASCII(contents[i])})
	}
	return c
}

// setCase hashes one listing; returns msg, hash ("" if refused).
func setCase(names, contents []string) (msg string, class string) {
	m := map[string]string{}
	for i, n := range names {
		m[n] = contents[i]
	}
	list, intact := enum.Spare(names, "sentinel-pad", 2)
	defer func() {
		if !intact() && msg == "" {
			msg, class = "Hash1 wrote into the caller's array behind the end of the file list", "set"
		}
	}()
	opened := map[string]int{}
	got, err := dirhash.Hash1(list, func(n string) (io.ReadCloser, error) {
		opened[n]++
		c, ok := m[n]
		if !ok {
			return nil, fmt.Errorf("open of unlisted name %q", n)
		}
		// how the content is delivered depends on the set and the file (all legal reader behaviours: one byte
		// per Read, half reads, three bytes, last bytes together with io.EOF, empty reads in between, whole)
		shape := (len(names)*7 + len(n)*3 + len(c) + opened[n]) % (memfile.Shapes + 1)
		if shape == memfile.Shapes {
			return io.NopCloser(iotest1(c)), nil
		}
		return memfile.File{P: n, Data: []byte(c), Declared: -1, Shape: shape}.Open()
	})
	for i := range list {
		if list[i] != names[i] {
			return fmt.Sprintf("Hash1 reordered the caller's slice: %q -> %q", names, list), ""
		}
	}
	hasNL := false
	for _, n := range names {
		if strings.Contains(n, "\n") {
			hasNL = true
		}
	}
	if hasNL {
		if err == nil {
			return fmt.Sprintf("Hash1 accepted a file name containing a newline: %q", names), got
		}
		return "", ""
	}
	if err != nil {
		return fmt.Sprintf("Hash1(%q) failed: %v", names, err), ""
	}
	if want := refHash(m); got != want {
		return fmt.Sprintf("Hash1(%q)=%s, documented formula gives %s", names, got, want), got
	}
	return "", got
}

// iotest1 returns a reader that yields one byte per Read call (content must be streamed, not assumed whole).
type oneByte struct{ r *strings.Reader }

func (o oneByte) Read(p []byte) (int, error) {
	if len(p) == 0 {
		return 0, nil
	}
	return o.r.Read(p[:1])
}
func iotest1(s string) io.Reader { return oneByte{strings.NewReader(s)} }

var names = []string{"a", "b", "a b", "a  b", "é", "d/a", "a\nb", "b  a", "A", "a/", "B", "d.a", "\xff", " a"}
var contents = []string{"", "x", "y", "x\n", "x  a\n", strings.Repeat("0123456789abcdef", 4097) + "z"}

// FirstCalls is the menu of the fresh-process call-order check.
func FirstCalls() []fw.Call {
	var out []fw.Call
	for _, m := range []map[string]string{{"a": "x", "b": "y\n", "c/d": ""}, {"z": strings.Repeat("0123456789abcdef", 5000), "a": "other"}, {}, {"a\nb": "x"}} {
		m := m
		out = append(out, fw.Call{Name: fmt.Sprintf("Hash1(%d files)", len(m)), F: func() string {
			var fs []string
			for k := range m {
				fs = append(fs, k)
			}
			h, err := dirhash.Hash1(fs, func(n string) (io.ReadCloser, error) { return io.NopCloser(strings.NewReader(m[n])), nil })
			return fmt.Sprintf("%s err=%v want=%s", h, err, refHash(m))
		}})
	}
	out = append(out, fw.Call{Name: "Hash1(open error)", F: func() string {
		h, err := dirhash.Hash1([]string{"a", "b"}, func(n string) (io.ReadCloser, error) {
			if n == "b" {
				return nil, fmt.Errorf("injected")
			}
			return io.NopCloser(strings.NewReader("x")), nil
		})
		return fmt.Sprintf("%s err=%v", h, err)
	}})
	return out
}

func Run(r *fw.Run) {
	defer fw.FirstCallOrders(r, r.ID, FirstCalls(), nil)
	maxSet := r.Pick(3, 4)
	nn := r.Pick(14, 14)
	nc := r.Pick(6, 6)
	ns, cs := names[:nn], contents[:nc]
	r.Bounds["names"] = ns
	r.Bounds["contents"] = cs
	r.Bounds["max_set_size"] = maxSet
	r.Rule = "every set of <= max_set_size (name, content) pairs with distinct names, in every listing order, hashed by dirhash.Hash1 with a one-byte-at-a-time reader and compared with the documented summary formula; global table hash -> set for injectivity; plus module archives produced by zip.Create: HashZip == HashDir(extracted) == formula. non-trivial = listing accepted (no newline in a name)"
	r.Assume = []string{"SHA-256 of the Go standard library; summary injectivity is checked on hashes assuming no SHA-256 collision inside the enumerated space"}
	// all subsets of names of size <= maxSet
	var subsets [][]int
	var rec func(start int, cur []int)
	rec = func(start int, cur []int) {
		subsets = append(subsets, append([]int(nil), cur...))
		if len(cur) == maxSet {
			return
		}
		for i := start; i < len(ns); i++ {
			rec(i+1, append(cur, i))
		}
	}
	rec(0, nil)
	var mu sync.Mutex
	table := map[string]string{} // hash -> canonical set
	fw.Parallel(len(subsets), func(i int) {
		l := fw.NewLocal()
		sub := subsets[i]
		k := len(sub)
		dims := make([]int, k)
		for j := range dims {
			dims[j] = len(cs)
		}
		if k >= 4 {
			// sets of four (thorough tier): the first ten names and the short contents only
			for _, x := range sub {
				if x >= 10 {
					r.Merge(l)
					return
				}
			}
			for j := range dims {
				dims[j] = len(cs) - 1
			}
		}
		local := map[string]string{}
		enum.Product(dims, func(ci []int) {
			l.States++
			m := map[string]string{}
			for j := range sub {
				m[ns[sub[j]]] = cs[ci[j]]
			}
			canon := refSummary(m)
			var first string
			enum.Permutations(k, func(p []int) {
				nm := make([]string, k)
				ct := make([]string, k)
				for j, x := range p {
					nm[j] = ns[sub[x]]
					ct[j] = cs[ci[x]]
				}
				l.Execs++
				l.Transitions++
				msg, h := setCase(nm, ct)
				if msg != "" {
					r.Violation("set:"+strconv.QuoteToASCII(strings.Join(nm, "|")+"#"+strings.Join(ct, "|")), msg, mkCase("set", nm, ct))
					return
				}
				if h == "" {
					l.Outcomes["refused:newline"]++
					return
				}
				l.Nontrivial++
				l.Outcomes["hashed"]++
				if first == "" {
					first = h
				} else if h != first {
					r.Violation("order:"+strconv.QuoteToASCII(strings.Join(nm, "|")+"#"+strings.Join(ct, "|")), fmt.Sprintf("hash depends on listing order: %s vs %s", first, h), mkCase("set", nm, ct))
				}
			})
			if first != "" {
				local[first] = canon
			}
		})
		mu.Lock()
		for h, c := range local {
			if prev, ok := table[h]; ok && prev != c {
				r.Violation("collision:"+h, fmt.Sprintf("two different file sets hash to %s:\n%s---\n%s", h, prev, c), caseT{Kind: "set"})
			}
			table[h] = c
		}
		mu.Unlock()
		r.Merge(l)
	})
	r.Extra["distinct_sets_in_injectivity_table"] = len(table)
	r.Sample(mkCase("set", []string{"a  b", "é"}, []string{"x\n", ""}))

	// byte sweep over names: every byte value (and a few multi-byte fills) at the start, in the middle and
	// at the end of a name; the name alone and next to two fixed neighbours; newline must be refused
	{
		l := fw.NewLocal()
		var fills []string
		for b := 0; b < 256; b++ {
			fills = append(fills, string([]byte{byte(b)}))
		}
		fills = append(fills, "%s", "%d", "%%", "%!", "%v", "\\n", "é", "\u212a", "\ufffd", "\u2028", "\xe2\x82")
		fills = append(fills, enum.LongFills('n')...)
		fills = append(fills, enum.BoundaryRunes()...)
		r.Bounds["name_byte_sweep"] = fmt.Sprintf("3 positions x (256 byte values + %d other fills) x 2 set shapes", len(fills)-256)
		for _, f := range fills {
			for _, nm := range []string{f + "x", "a" + f + "b", "dir/x" + f} {
				// alone, next to two fixed neighbours, and next to its own proper prefixes (the order of two names
				// of which one is a prefix of the other depends on nothing but the names)
				sets := [][]string{{nm}, {"b", nm, "a/z"}}
				if len(f) < 100 {
					switch {
					case strings.HasPrefix(nm, "a"+f):
						sets = append(sets, []string{nm, "a"}, []string{"a", "a" + f, nm})
					case strings.HasPrefix(nm, "dir/x"):
						sets = append(sets, []string{"dir/x", nm}, []string{nm, "dir/", "dir/x"})
					default:
						sets = append(sets, []string{nm, f}, []string{f + "x", f + "xy", f})
					}
				}
				for _, set := range sets {
					if len(set) == 3 && (set[0] == set[1] || set[1] == set[2] || set[0] == set[2]) || len(set) == 2 && set[0] == set[1] {
						continue
					}
					ct := make([]string, len(set))
					for i := range ct {
						ct[i] = "content " + strconv.Itoa(i) + "\n"
					}
					l.States++
					l.Execs++
					l.Transitions++
					msg, h := setCase(set, ct)
					if msg != "" {
						r.Violation("set:"+strconv.QuoteToASCII(strings.Join(set, "|")+"#"+strings.Join(ct, "|")), msg, mkCase("set", set, ct))
						continue
					}
					if h == "" {
						l.Outcomes["refused:newline"]++
						continue
					}
					l.Nontrivial++
					l.Outcomes["hashed"]++
					mu.Lock()
					m := map[string]string{}
					for i := range set {
						m[set[i]] = ct[i]
					}
					canon := refSummary(m)
					if prev, ok := table[h]; ok && prev != canon {
						r.Violation("collision:"+h, fmt.Sprintf("two different file sets hash to %s:\n%s---\n%s", h, prev, canon), mkCase("set", set, ct))
					}
					table[h] = canon
					mu.Unlock()
				}
			}
		}
		r.Merge(l)
	}

	// dense length sweep: a name, and a content, of every length from 0 to enum.DenseMax bytes
	{
		var mu2 sync.Mutex
		var todo []string
		enum.EachLength('n', enum.DenseMax, func(s string) { todo = append(todo, s) })
		r.Bounds["dense_length_sweep"] = fmt.Sprintf("name and content of every length 0..%d", enum.DenseMax)
		fw.Parallel(16, func(sh int) {
			l := fw.NewLocal()
			defer r.Merge(l)
			for i := sh; i < len(todo); i += 16 {
				for _, cs := range []struct{ set, ct []string }{
					{[]string{"d/" + todo[i]}, []string{"x\n"}},
					{[]string{"b", todo[i] + ".go", "a/z"}, []string{"1", "2", "3"}},
					{[]string{"f", "g"}, []string{todo[i], "y"}},
				} {
					l.States++
					l.Execs++
					l.Transitions++
					msg, h := setCase(cs.set, cs.ct)
					if msg != "" {
						mu2.Lock()
						r.Violation(fmt.Sprintf("set:dense:%d:%d", len(cs.set), len(todo[i])), msg, mkCase("set", cs.set, cs.ct))
						mu2.Unlock()
						continue
					}
					if h != "" {
						l.Nontrivial++
						l.Outcomes["hashed"]++
					}
				}
			}
		})
	}

	// resources: an opener that allows only two handles to be open at once and counts them. Large file sets
	// (40, 300, 3000 files) must hash to the formula, every handle must be closed by the time Hash1 returns,
	// and a set of n files needs no more simultaneously open handles than a set of 3
	{
		l := fw.NewLocal()
		r.Bounds["bounded_opener"] = "at most 2 open handles; sets of 3, 40, 300, 3000 files"
		for _, n := range []int{3, 40, 300, 3000} {
			m := map[string]string{}
			var files []string
			for i := 0; i < n; i++ {
				nm := fmt.Sprintf("dir%d/file%04d.go", i%7, i)
				m[nm] = fmt.Sprintf("content %d\n", i)
				files = append(files, nm)
			}
			open, peak := 0, 0
			refused := false
			opener := func(name string) (io.ReadCloser, error) {
				if open >= 2 {
					refused = true
					return nil, fmt.Errorf("too many open files (the opener allows 2)")
				}
				open++
				if open > peak {
					peak = open
				}
				return &countingCloser{Reader: strings.NewReader(m[name]), closed: func() { open-- }}, nil
			}
			l.States++
			l.Execs++
			l.Transitions++
			got, err := dirhash.Hash1(files, opener)
			c := caseT{Kind: "resources", Mod: fmt.Sprint(n)}
			switch {
			case err != nil || refused:
				r.Violation(fmt.Sprintf("resources:%d", n), fmt.Sprintf("Hash1 over %d files with an opener that allows two open handles failed: %v (peak %d)", n, err, peak), c)
			case got != refHash(m):
				r.Violation(fmt.Sprintf("resources:%d", n), fmt.Sprintf("Hash1 over %d files = %s, the documented formula gives %s", n, got, refHash(m)), c)
			case open != 0:
				r.Violation(fmt.Sprintf("resources:%d", n), fmt.Sprintf("Hash1 over %d files returned with %d handles still open", n, open), c)
			default:
				l.Nontrivial++
				l.Outcomes["resources:ok"]++
			}
		}
		r.Merge(l)
	}

	// call histories: the hash is a function of names and bytes only, not of earlier calls
	historyPart(r)

	// module archives
	zipPart(r)
	rawZipPart(r)

	// overlapping calls: every interleaving of two Hash1 calls at their open/read callbacks
	overlapPart(r)

	// resources: HashDir and HashZip of a module with more files than the process may have descriptors open
	{
		scratch := r.Scratch()
		base := filepath.Join(scratch, "fdlimit")
		os.RemoveAll(base)
		want := map[string]string{}
		var fs []modzip.File
		for i := 0; i < 500; i++ {
			n := fmt.Sprintf("d%d/f%04d.go", i%7, i)
			full := filepath.Join(base, "t", filepath.FromSlash(n))
			os.MkdirAll(filepath.Dir(full), 0o755)
			os.WriteFile(full, []byte("c"+strconv.Itoa(i)), 0o644)
			want["p/"+n] = "c" + strconv.Itoa(i)
			fs = append(fs, memfile.Reg(n, "c"+strconv.Itoa(i)))
		}
		var buf bytes.Buffer
		mv := module.Version{Path: "example.com/m", Version: "v1.0.0"}
		zerr := modzip.Create(&buf, mv, fs)
		zp := filepath.Join(base, "m.zip")
		os.WriteFile(zp, buf.Bytes(), 0o644)
		var hd, hz string
		var e1, e2 error
		ok := fw.WithFDLimit(120, func() {
			hd, e1 = dirhash.HashDir(filepath.Join(base, "t"), "p", dirhash.Hash1)
			hz, e2 = dirhash.HashZip(zp, dirhash.Hash1)
		})
		os.RemoveAll(base)
		r.States.Add(1)
		r.Execs.Add(2)
		r.Bounds["descriptor_limit"] = "500 files with at most 120 open descriptors (HashDir, HashZip)"
		wantZ := map[string]string{}
		for k, v := range want {
			wantZ["example.com/m@v1.0.0/"+strings.TrimPrefix(k, "p/")] = v
		}
		if ok && (e1 != nil || hd != refHash(want) || zerr != nil || e2 != nil || hz != refHash(wantZ)) {
			r.Violation("fd-limit", fmt.Sprintf("500 files with at most 120 open descriptors: HashDir=%s err=%v (formula %s); HashZip=%s err=%v (formula %s)", hd, e1, refHash(want), hz, e2, refHash(wantZ)), caseT{Kind: "fd-limit"})
		}
	}

	// spellings of the directory argument, including the current directory (sequential: chdir is process wide)
	dirPart(r)
}

// dirTrees are small file trees whose top level has dot files and their undotted twins.
func dirTrees() []map[string]string {
	return []map[string]string{
		{"a.go": "package a\n", "sub/b.go": "x"},
		{".gitignore": "*.o\n", "a.go": "x"},
		{".gitignore": "dot", "gitignore": "plain"},
		{".github/ci.yml": "on: push\n", "github/ci.yml": "other", "sub/.keep": ""},
		{"..a": "1", ".a": "2", "a": "3", "sub/..a": "4", "sub/.a": "5"},
		{"sub/sub/x": "1", "sub/x": "2", "x": "3"},
		// a directory next to files and directories named like it plus a byte below the separator (the order of
		// a directory walk is not the byte order of the full names)
		{"doc.go": "1", "doc/doc.go": "2", "doc-a/x": "3", "doc e/x": "4", "doc!": "5", "doc/+": "6", "sub/doc.go": "7", "sub/doc/z": "8"},
	}
}

// dirSpellings lists (working directory relative to the tree's parent, dir argument) pairs that all name the tree root t.
func dirSpellings(parent string) [][2]string {
	t := filepath.Join(parent, "t")
	return [][2]string{
		{parent, t}, {parent, t + "/"}, {parent, t + "/."}, {parent, t + "//"}, {parent, parent + "/./t"}, {parent, t + "/sub/.."},
		{parent, "t"}, {parent, "./t"}, {parent, "t/"}, {parent, "t/."}, {parent, "./t/./"}, {parent, "t/sub/.."},
		{t, "."}, {t, "./"}, {t, "./."}, {t, "sub/.."}, {t, "../t"},
		{filepath.Join(t, "sub"), ".."}, {filepath.Join(t, "sub"), "../"}, {filepath.Join(t, "sub"), "../."}, {filepath.Join(t, "sub"), "./.."},
	}
}

func dirCase(scratch string, tree map[string]string, wd, dir, prefix string) string {
	parent := filepath.Join(scratch, "dirpart")
	os.RemoveAll(parent)
	defer os.RemoveAll(parent)
	t := filepath.Join(parent, "t")
	os.MkdirAll(filepath.Join(t, "sub"), 0o755)
	want := map[string]string{}
	for n, d := range tree {
		full := filepath.Join(t, filepath.FromSlash(n))
		os.MkdirAll(filepath.Dir(full), 0o755)
		if err := os.WriteFile(full, []byte(d), 0o644); err != nil {
			return "scratch write failed: " + err.Error()
		}
		if prefix == "" {
			// the directory name is replaced by nothing: the names are the bare relative names, which is also
			// what an archive holding these bare names hashes to (round 32)
			want[n] = d
		} else {
			want[prefix+"/"+n] = d
		}
	}
	old, err := os.Getwd()
	if err != nil {
		return ""
	}
	wd = strings.Replace(wd, "\x00", parent, 1)
	dir = strings.Replace(dir, "\x00", parent, 1)
	if err := os.Chdir(wd); err != nil {
		return "chdir failed: " + err.Error()
	}
	defer os.Chdir(old)
	got, err := dirhash.HashDir(dir, prefix, dirhash.Hash1)
	if err != nil {
		return fmt.Sprintf("HashDir(%q) with working directory <scratch>%s fails: %v", dir, strings.TrimPrefix(wd, parent), err)
	}
	if w := refHash(want); got != w {
		files, _ := dirhash.DirFiles(dir, prefix)
		return fmt.Sprintf("HashDir(%q) with working directory <scratch>%s = %s, the documented formula over the tree gives %s (DirFiles: %q)", dir, strings.TrimPrefix(wd, parent), got, w, files)
	}
	return ""
}

func dirPart(r *fw.Run) {
	scratch := r.Scratch()
	parent := filepath.Join(scratch, "dirpart")
	trees := dirTrees()
	sp := dirSpellings(parent)
	prefixes := []string{"example.com/m@v1.0.0", "p", ""}
	r.Bounds["directory_spellings"] = len(sp)
	r.Bounds["directory_trees"] = len(trees)
	l := fw.NewLocal()
	for ti, tree := range trees {
		for _, s := range sp {
			for _, prefix := range prefixes {
				l.States++
				l.Execs++
				l.Transitions++
				wd := strings.Replace(s[0], parent, "\x00", 1)
				dir := strings.Replace(s[1], parent, "\x00", 1)
				if msg := dirCase(scratch, tree, wd, dir, prefix); msg != "" {
					c := caseT{Kind: "dir", Mod: prefix, Wd: wd, Dir: dir}
					var ns []string
					for n := range tree {
						ns = append(ns, n)
					}
					sort.Strings(ns)
					for _, n := range ns {
						c.Files = append(c.Files, pairT{strconv.QuoteToASCII(n), strconv.QuoteToASCII(tree[n])})
					}
					r.Violation(fmt.Sprintf("dir:%d:%s:%s", ti, strings.TrimPrefix(s[0], parent), strings.TrimPrefix(s[1], parent)), msg, c)
				} else {
					l.Nontrivial++
					l.Outcomes["dir:ok"]++
				}
			}
		}
	}
	r.Merge(l)
}

type countingCloser struct {
	io.Reader
	closed func()
	done   bool
}

func (c *countingCloser) Close() error {
	if !c.done {
		c.done = true
		c.closed()
	}
	return nil
}

type failReader struct {
	data string
	n    int
}

func (f *failReader) Read(p []byte) (int, error) {
	if f.n >= len(f.data) {
		return 0, fmt.Errorf("injected read error")
	}
	k := copy(p, f.data[f.n:])
	f.n += k
	return k, nil
}

// historyPart runs every sequence of up to 3 (thorough 4) Hash1 calls out of a menu of successful and
// failing calls (open error, read error after 0 / some / all bytes of a file, refused newline name) in
// one goroutine and compares every successful call with the formula: no call may leave state behind.
type hcall struct {
	name  string
	files []string
	open  func(string) (io.ReadCloser, error)
	fails bool
	want  string
}

func historyMenu() []hcall {
	type call = hcall
	good := func(name string, m map[string]string) call {
		var fs []string
		for k := range m {
			fs = append(fs, k)
		}
		return call{name: name, files: fs, open: func(n string) (io.ReadCloser, error) { return io.NopCloser(strings.NewReader(m[n])), nil }, want: refHash(m)}
	}
	big := strings.Repeat("0123456789abcdef", 5000)
	failing := func(name string, m map[string]string, bad string, after int) call {
		c := good(name, m)
		c.fails = true
		c.open = func(n string) (io.ReadCloser, error) {
			if n == bad {
				if after < 0 {
					return nil, fmt.Errorf("injected open error")
				}
				return io.NopCloser(&failReader{data: m[n][:after]}), nil
			}
			return io.NopCloser(strings.NewReader(m[n])), nil
		}
		return c
	}
	m1 := map[string]string{"a": "x", "b": "y\n", "c/d": ""}
	m2 := map[string]string{"z": big, "a": "other"}
	return []call{
		good("G1", m1), good("G2", m2), good("empty", map[string]string{}),
		failing("open-error", m1, "b", -1),
		failing("read-error-at-0", m1, "a", 0),
		failing("read-error-after-1", m1, "b", 1),
		failing("read-error-after-all", m1, "b", 2),
		failing("read-error-mid-big", m2, "z", 40000),
		{name: "newline-name", files: []string{"a", "b\nc"}, open: func(n string) (io.ReadCloser, error) { return io.NopCloser(strings.NewReader("x")), nil }, fails: true},
	}
}

// runHistory executes one call history and returns what is wrong with it, if anything.
func runHistory(menu []hcall, seq []int) (msg string, hist []string) {
	for _, i := range seq {
		c := menu[i]
		hist = append(hist, c.name)
		files := append([]string(nil), c.files...)
		got, err := dirhash.Hash1(files, c.open)
		switch {
		case c.fails && err == nil:
			return fmt.Sprintf("after calls %v: the call with an injected failure returned %s and no error", hist, got), hist
		case !c.fails && (err != nil || got != c.want):
			return fmt.Sprintf("after calls %v: Hash1 = %s, %v; the documented formula gives %s (the result depends on earlier calls)", hist, got, err, c.want), hist
		}
	}
	return "", hist
}

func historyPart(r *fw.Run) {
	menu := historyMenu()
	depth := r.Pick(3, 4)
	r.Bounds["history_menu"] = func() []string {
		var s []string
		for _, c := range menu {
			s = append(s, c.name)
		}
		return s
	}()
	r.Bounds["history_max_calls"] = depth
	l := fw.NewLocal()
	defer r.Merge(l)
	var prev []string
	enum.Sequences(len(menu), depth, func(seq []int) {
		if len(seq) == 0 {
			return
		}
		l.States++
		l.Execs += int64(len(seq))
		l.Transitions += int64(len(seq))
		msg, hist := runHistory(menu, seq)
		if msg != "" {
			// state may have been left behind by the sequence executed just before this one
			full := append(append([]string(nil), prev...), hist...)
			r.Violation("history:"+strings.Join(full, ","), msg+fmt.Sprintf(" [calls made just before in this process: %v]", prev), caseT{Kind: "history", Calls: full})
			prev = hist
			return
		}
		prev = hist
		l.Nontrivial++
		l.Outcomes["history:ok"]++
	})
}

type yieldFirstRead struct {
	io.ReadCloser
	yield func()
	did   bool
}

func (y *yieldFirstRead) Read(p []byte) (int, error) {
	n, err := y.ReadCloser.Read(p)
	if !y.did {
		// the buffer now holds this file's bytes and the caller has not looked at them yet
		y.did = true
		y.yield()
	}
	return n, err
}

// overlapCall runs menu entry i with an opener that lets the other call run before each open and before
// the first read of each file.
func overlapCall(menu []hcall, i int, yield func()) string {
	c := menu[i]
	files := append([]string(nil), c.files...)
	h, err := dirhash.Hash1(files, func(n string) (io.ReadCloser, error) {
		yield()
		rc, err := c.open(n)
		if err != nil {
			return nil, err
		}
		return &yieldFirstRead{ReadCloser: rc, yield: yield}, nil
	})
	return fmt.Sprintf("%s err=%v", h, err)
}

func overlapPart(r *fw.Run) {
	menu := historyMenu()
	l := fw.NewLocal()
	defer r.Merge(l)
	call := func(i int, y func()) string { return overlapCall(menu, i, y) }
	pairs, runs, capped := coop.Pairs(len(menu), call, nil, func(i, j int, sched []int, what string) {
		r.Violation(fmt.Sprintf("overlap:%s:%s", menu[i].name, menu[j].name), fmt.Sprintf("Hash1 %s overlapped with Hash1 %s, interleaving %v: %s", menu[i].name, menu[j].name, sched, what), caseT{Kind: "overlap", Calls: []string{menu[i].name, menu[j].name}, Sched: sched})
	}, 20000)
	r.Bounds["overlapping_calls"] = fmt.Sprintf("%d ordered pairs of Hash1 calls from the history menu, every interleaving at open and first-read callbacks (cap 20000 per pair)", pairs)
	if capped {
		r.Cap("overlapping Hash1 calls: 20000 interleavings per pair reached")
	}
	l.States += int64(pairs)
	l.Execs += int64(runs)
	l.Transitions += int64(runs)
	l.Nontrivial += int64(runs)
	l.Outcomes["overlap:interleavings"] += int64(runs)
}

type zipSpec struct {
	mod, ver string
	files    []memfile.File
}

func zipCase(scratch string, id int, z zipSpec) (msg string, created bool) {
	var buf bytes.Buffer
	var fs []modzip.File
	for _, f := range z.files {
		fs = append(fs, f)
	}
	mv := module.Version{Path: z.mod, Version: z.ver}
	if err := modzip.Create(&buf, mv, fs); err != nil {
		return "", false
	}
	base := filepath.Join(scratch, strconv.Itoa(id))
	os.MkdirAll(base, 0o755)
	defer os.RemoveAll(base)
	zp := filepath.Join(base, "m.zip")
	if err := os.WriteFile(zp, buf.Bytes(), 0o644); err != nil {
		return "scratch write failed: " + err.Error(), true
	}
	dir := filepath.Join(base, "x")
	if err := modzip.Unzip(dir, mv, zp); err != nil {
		return fmt.Sprintf("Unzip of a created archive failed: %v", err), true
	}
	prefix := z.mod + "@" + z.ver
	hz, err1 := dirhash.HashZip(zp, dirhash.Hash1)
	hd, err2 := dirhash.HashDir(dir, prefix, dirhash.Hash1)
	if hd2, err3 := dirhash.HashDir(dir+string(os.PathSeparator), prefix, dirhash.Hash1); err3 != nil || hd2 != hd {
		return fmt.Sprintf("HashDir with a trailing separator on the directory gives %s, %v instead of %s", hd2, err3, hd), true
	}
	if err1 != nil || err2 != nil {
		return fmt.Sprintf("HashZip err=%v HashDir err=%v", err1, err2), true
	}
	// reference over what the file check calls valid
	cf, _ := modzip.CheckFiles(fs)
	m := map[string]string{}
	for _, v := range cf.Valid {
		for _, f := range z.files {
			if f.P == v {
				m[prefix+"/"+v] = string(f.Data)
			}
		}
	}
	want := refHash(m)
	if hz != hd || hz != want {
		return fmt.Sprintf("HashZip=%s HashDir=%s formula=%s", hz, hd, want), true
	}
	return "", true
}

func zipSpecs(thorough bool) []zipSpec {
	mods := [][2]string{{"example.com/m", "v1.0.0"}, {"example.com/m/v2", "v2.0.0"}, {"gopkg.in/y.v1", "v1.2.3"}, {"example.com/M", "v2.0.0+incompatible"}}
	paths := []string{"a.tmp", "a", "b/c.tmp/d", "b/c", "b.go", "b-x/y", "go.mod", "LICENSE", "x y", "é", "sub/go.mod", "sub/x.go", "vendor/p/q.go", "vendor/modules.txt", "A/b", "d/e/f"}
	datas := []string{"", "x", "module example.com/m\n\ngo 1.24\n"}
	if !thorough {
		paths = paths[:14]
	}
	var out []zipSpec
	for _, mv := range mods {
		for i := range paths {
			for j := i; j < len(paths); j++ {
				for k := j; k < len(paths); k++ {
					if !thorough && (i+j+k)%3 != 0 && !(i == j && j == k) {
						continue
					}
					set := map[string]bool{paths[i]: true, paths[j]: true, paths[k]: true}
					var fs []memfile.File
					for _, p := range paths {
						if set[p] {
							d := datas[(len(p)+i+k)%len(datas)]
							fs = append(fs, memfile.Reg(p, d))
						}
					}
					out = append(out, zipSpec{mv[0], mv[1], fs})
				}
			}
		}
	}
	// two different contents of equal length and equal CRC-32 (the zip format's per-entry checksum is not a
	// content identity), in one archive, in both orders, next to a true duplicate
	c1, c2 := "const N = 29685295", "const N = 32060020"
	if crc32.ChecksumIEEE([]byte(c1)) == crc32.ChecksumIEEE([]byte(c2)) {
		out = append(out,
			zipSpec{"example.com/m", "v1.0.0", []memfile.File{memfile.Reg("x.go", c1), memfile.Reg("y.go", c2), memfile.Reg("z.go", c1)}},
			zipSpec{"example.com/m", "v1.0.0", []memfile.File{memfile.Reg("a/x.go", c2), memfile.Reg("b/x.go", c1)}},
			zipSpec{"example.com/m", "v1.0.0", []memfile.File{memfile.Reg("go.mod", "module example.com/m\n"), memfile.Reg("p.go", c1+"\n"+c1), memfile.Reg("q.go", c1+"\n"+c2), memfile.Reg("r.go", c2+"\n"+c1)}})
	}
	return out
}

// rawZipPart: archives written with archive/zip directly (not by zip.Create): repeated entry names, directory
// entries, unsorted entries, stored and deflated. HashZip is Hash1 over the entry names as listed, each
// opened by name; with equal contents for equal names that is one summary line per entry.
func rawZipPart(r *fw.Run) {
	l := fw.NewLocal()
	defer r.Merge(l)
	scratch := r.Scratch()
	type ent struct{ name, data string }
	lists := [][]ent{
		{{"a", "x"}, {"go.mod", "module m\n"}, {"a", "x"}},
		{{"x", "1"}, {"x", "1"}},
		{{"x", "1"}, {"x", "1"}, {"x", "1"}, {"y", "2"}},
		{{"z/b", "2"}, {"a", "1"}, {"m", ""}},
		{{"d/", ""}, {"d/f", "c"}},
		{{"p@v1/a", "1"}, {"p@v1/A", "2"}, {"p@v1/a ", "3"}},
		{{"only", strings.Repeat("0123456789", 7000)}},
		{},
	}
	// what an entry's header says besides its name: the hash is over names and bytes only, so none of
	// this may change it (an entry flagged as a directory, a link or a device still has its bytes)
	attrs := []struct {
		name string
		set  func(h *zip.FileHeader)
	}{
		{"plain", func(h *zip.FileHeader) {}},
		{"mode-dir", func(h *zip.FileHeader) { h.SetMode(fs.ModeDir | 0o755) }},
		{"msdos-dir", func(h *zip.FileHeader) { h.CreatorVersion = 0; h.ExternalAttrs = 0x10 }},
		{"mode-symlink", func(h *zip.FileHeader) { h.SetMode(fs.ModeSymlink | 0o777) }},
		{"mode-device", func(h *zip.FileHeader) { h.SetMode(fs.ModeDevice | 0o600) }},
		{"mode-0", func(h *zip.FileHeader) { h.SetMode(0) }},
		{"mode-setuid-x", func(h *zip.FileHeader) { h.SetMode(fs.ModeSetuid | 0o755) }},
		{"modified-1980", func(h *zip.FileHeader) { h.Modified = time.Date(1980, 1, 1, 0, 0, 0, 0, time.UTC) }},
		{"modified-2100", func(h *zip.FileHeader) { h.Modified = time.Date(2100, 6, 1, 0, 0, 0, 0, time.FixedZone("x", 3600)) }},
		{"comment", func(h *zip.FileHeader) { h.Comment = "go.mod" }},
		{"extra", func(h *zip.FileHeader) { h.Extra = []byte{0xfe, 0xca, 2, 0, 1, 2} }},
		{"non-utf8-flag", func(h *zip.FileHeader) { h.NonUTF8 = true }},
	}
	r.Bounds["raw_archives"] = len(lists) * 2 * len(attrs) * 2
	for li, es := range lists {
		for _, method := range []uint16{zip.Store, zip.Deflate} {
			for ai, at := range attrs {
				for which := 0; which < 2; which++ { // 0: every entry carries the attribute, 1: only the last one
					if ai == 0 && which == 1 {
						continue
					}
					var buf bytes.Buffer
					zw := zip.NewWriter(&buf)
					for ei, e := range es {
						h := &zip.FileHeader{Name: e.name, Method: method}
						if which == 0 || ei == len(es)-1 {
							at.set(h)
						}
						w, err := zw.CreateHeader(h)
						if err == nil {
							w.Write([]byte(e.data))
						}
					}
					zw.Close()
					zp := filepath.Join(scratch, fmt.Sprintf("raw-%d-%d-%d-%d.zip", li, method, ai, which))
					os.WriteFile(zp, buf.Bytes(), 0o644)
					got, err := dirhash.HashZip(zp, dirhash.Hash1)
					os.Remove(zp)
					l.States++
					l.Execs++
					l.Transitions++
					// the documented summary, one line per listed entry
					var lines []string
					for _, e := range es {
						sum := sha256.Sum256([]byte(e.data))
						lines = append(lines, fmt.Sprintf("%x  %s\n", sum, e.name))
					}
					sort.Slice(lines, func(i, j int) bool { return lines[i][66:] < lines[j][66:] })
					h := sha256.Sum256([]byte(strings.Join(lines, "")))
					want := "h1:" + base64.StdEncoding.EncodeToString(h[:])
					if err != nil || got != want {
						var names []string
						for _, e := range es {
							names = append(names, e.name)
						}
						r.Violation(fmt.Sprintf("rawzip:%d:%d:%s:%d", li, method, at.name, which), fmt.Sprintf("HashZip of a raw archive with entries %q (header attribute %s on %s) = %s, %v; one summary line per listed entry gives %s", names, at.name, []string{"every entry", "the last entry"}[which], got, err, want), caseT{Kind: "rawzip", Calls: names})
					} else {
						l.Nontrivial++
					}
				}
			}
		}
	}
}

func zipPart(r *fw.Run) {
	scratch := r.Scratch()
	specs := zipSpecs(r.Thorough())
	r.Bounds["zip_file_lists"] = len(specs)
	fw.Parallel(len(specs), func(i int) {
		l := fw.NewLocal()
		l.States++
		l.Execs++
		l.Transitions++
		msg, created := zipCase(scratch, i, specs[i])
		if created {
			l.Nontrivial++
			l.Outcomes["zip:created-and-hashed"]++
		} else {
			l.Outcomes["zip:create-refused"]++
		}
		if msg != "" {
			c := caseT{Kind: "zip", Mod: specs[i].mod, Ver: specs[i].ver}
			for _, f := range specs[i].files {
				c.Files = append(c.Files, pairT{strconv.QuoteToASCII(f.P), strconv.QuoteToASCII(string(f.Data))})
			}
			r.Violation(fmt.Sprintf("zip:%d", i), msg, c)
		}
		r.Merge(l)
	})
	r.Sample(map[string]any{"kind": "zip", "module": specs[1].mod + "@" + specs[1].ver, "paths": func() []string {
		var ps []string
		for _, f := range specs[1].files {
			ps = append(ps, f.P)
		}
		return ps
	}()})
}

func Replay(r *fw.Run, raw json.RawMessage) {
	var c caseT
	json.Unmarshal(raw, &c)
	var nm, ct []string
	for _, p := range c.Files {
		n, _ := strconv.Unquote(p.Name)
		d, _ := strconv.Unquote(p.Content)
		nm = append(nm, n)
		ct = append(ct, d)
	}
	r.States.Add(1)
	r.Transitions.Add(1)
	r.Execs.Add(1)
	r.Sample(c)
	if c.Kind == "history" {
		menu := historyMenu()
		var seq []int
		for _, n := range c.Calls {
			for i, m := range menu {
				if m.name == n {
					seq = append(seq, i)
				}
			}
		}
		// the state, if any, may live in per-P pools: repeat
		for k := 0; k < 50; k++ {
			if msg, _ := runHistory(menu, seq); msg != "" {
				r.Violation("history", msg, c)
				return
			}
		}
		return
	}
	if c.Kind == "overlap" && len(c.Calls) == 2 {
		menu := historyMenu()
		idx := func(n string) int {
			for i, m := range menu {
				if m.name == n {
					return i
				}
			}
			return 0
		}
		a, b := idx(c.Calls[0]), idx(c.Calls[1])
		var ra, rb string
		_, _, pan := coop.Run([]func(func()){
			func(y func()) { ra = overlapCall(menu, a, y) },
			func(y func()) { rb = overlapCall(menu, b, y) },
		}, func(pt int, en []int) int {
			if pt < len(c.Sched) && c.Sched[pt] < len(en) {
				return c.Sched[pt]
			}
			return 0
		})
		sa, sb := overlapCall(menu, a, func() {}), overlapCall(menu, b, func() {})
		if pan != nil || ra != sa || rb != sb {
			r.Violation("overlap", fmt.Sprintf("overlapped: %q, %q (panic %v); alone: %q, %q", ra, rb, pan, sa, sb), c)
		}
		return
	}
	if c.Kind == "rawzip" {
		rawZipPart(r)
		return
	}
	if c.Kind == "dir" {
		tree := map[string]string{}
		for i := range nm {
			tree[nm[i]] = ct[i]
		}
		if msg := dirCase(r.Scratch(), tree, c.Wd, c.Dir, c.Mod); msg != "" {
			r.Violation("dir", msg, c)
		}
		return
	}
	if c.Kind == "zip" {
		var fs []memfile.File
		for i := range nm {
			fs = append(fs, memfile.Reg(nm[i], ct[i]))
		}
		if msg, _ := zipCase(r.Scratch(), 0, zipSpec{c.Mod, c.Ver, fs}); msg != "" {
			r.Violation("zip", msg, c)
		}
		return
	}
	if msg, _ := setCase(nm, ct); msg != "" {
		r.Violation("set", msg, c)
	}
}
