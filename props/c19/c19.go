// Package c19: the module content hash is the documented formula over names and bytes only.
package c19

import (
	"bytes"
	"crypto/sha256"
	"encoding/base64"
	"encoding/hex"
	"encoding/json"
	"fmt"
	"io"
	"os"
	"path/filepath"
	"sort"
	"strconv"
	"strings"
	"sync"

	"golang.org/x/mod/module"
	"golang.org/x/mod/sumdb/dirhash"
	modzip "golang.org/x/mod/zip"

	"verif/internal/enum"
	"verif/internal/fw"
	"verif/internal/memfile"
)

type pairT struct {
	Name    string `json:"name_quoted"`
	Content string `json:"content_quoted"`
}
type caseT struct {
	Kind  string  `json:"kind"` // set | zip
	Files []pairT `json:"files_in_listing_order"`
	Mod   string  `json:"module,omitempty"`
	Ver   string  `json:"version,omitempty"`
}

func refSummary(files map[string]string) string {
	var names []string
	for n := range files {
		names = append(names, n)
	}
	sort.Strings(names)
	var b strings.Builder
	for _, n := range names {
		s := sha256.Sum256([]byte(files[n]))
		b.WriteString(hex.EncodeToString(s[:]) + "  " + n + "\n")
	}
	return b.String()
}

func refHash(files map[string]string) string {
	s := sha256.Sum256([]byte(refSummary(files)))
	return "h1:" + base64.StdEncoding.EncodeToString(s[:])
}

func mkCase(kind string, names, contents []string) caseT {
	c := caseT{Kind: kind}
	for i := range names {
		c.Files = append(c.Files, pairT{strconv.QuoteToASCII(names[i]), strconv.QuoteToASCII(contents[i])})
	}
	return c
}

// setCase hashes one listing; returns msg, hash ("" if refused).
func setCase(names, contents []string) (string, string) {
	m := map[string]string{}
	for i, n := range names {
		m[n] = contents[i]
	}
	list := append([]string(nil), names...)
	opened := map[string]int{}
	got, err := dirhash.Hash1(list, func(n string) (io.ReadCloser, error) {
		opened[n]++
		c, ok := m[n]
		if !ok {
			return nil, fmt.Errorf("open of unlisted name %q", n)
		}
		return io.NopCloser(iotest1(c)), nil
	})
	for i := range list {
		if list[i] != names[i] {
			return fmt.Sprintf("Hash1 reordered the caller's slice: %q -> %q", names, list), ""
		}
	}
	hasNL := false
	for _, n := range names {
		if strings.Contains(n, "\n") {
			hasNL = true
		}
	}
	if hasNL {
		if err == nil {
			return fmt.Sprintf("Hash1 accepted a file name containing a newline: %q", names), got
		}
		return "", ""
	}
	if err != nil {
		return fmt.Sprintf("Hash1(%q) failed: %v", names, err), ""
	}
	if want := refHash(m); got != want {
		return fmt.Sprintf("Hash1(%q)=%s, documented formula gives %s", names, got, want), got
	}
	return "", got
}

// iotest1 returns a reader that yields one byte per Read call (content must be streamed, not assumed whole).
type oneByte struct{ r *strings.Reader }

func (o oneByte) Read(p []byte) (int, error) {
	if len(p) == 0 {
		return 0, nil
	}
	return o.r.Read(p[:1])
}
func iotest1(s string) io.Reader { return oneByte{strings.NewReader(s)} }

var names = []string{"a", "b", "a b", "a  b", "é", "d/a", "a\nb", "b  a", "A", "a/", "B", "d.a", "\xff", " a"}
var contents = []string{"", "x", "y", "x\n", "x  a\n", strings.Repeat("0123456789abcdef", 4097) + "z"}

func Run(r *fw.Run) {
	maxSet := r.Pick(3, 4)
	nn := r.Pick(14, 14)
	nc := r.Pick(6, 6)
	ns, cs := names[:nn], contents[:nc]
	r.Bounds["names"] = ns
	r.Bounds["contents"] = cs
	r.Bounds["max_set_size"] = maxSet
	r.Rule = "every set of <= max_set_size (name, content) pairs with distinct names, in every listing order, hashed by dirhash.Hash1 with a one-byte-at-a-time reader and compared with the documented summary formula; global table hash -> set for injectivity; plus module archives produced by zip.Create: HashZip == HashDir(extracted) == formula. non-trivial = listing accepted (no newline in a name)"
	r.Assume = []string{"SHA-256 of the Go standard library; summary injectivity is checked on hashes assuming no SHA-256 collision inside the enumerated space"}
	// all subsets of names of size <= maxSet
	var subsets [][]int
	var rec func(start int, cur []int)
	rec = func(start int, cur []int) {
		subsets = append(subsets, append([]int(nil), cur...))
		if len(cur) == maxSet {
			return
		}
		for i := start; i < len(ns); i++ {
			rec(i+1, append(cur, i))
		}
	}
	rec(0, nil)
	var mu sync.Mutex
	table := map[string]string{} // hash -> canonical set
	fw.Parallel(len(subsets), func(i int) {
		l := fw.NewLocal()
		sub := subsets[i]
		k := len(sub)
		dims := make([]int, k)
		for j := range dims {
			dims[j] = len(cs)
		}
		local := map[string]string{}
		enum.Product(dims, func(ci []int) {
			l.States++
			m := map[string]string{}
			for j := range sub {
				m[ns[sub[j]]] = cs[ci[j]]
			}
			canon := refSummary(m)
			var first string
			enum.Permutations(k, func(p []int) {
				nm := make([]string, k)
				ct := make([]string, k)
				for j, x := range p {
					nm[j] = ns[sub[x]]
					ct[j] = cs[ci[x]]
				}
				l.Execs++
				l.Transitions++
				msg, h := setCase(nm, ct)
				if msg != "" {
					r.Violation("set:"+strconv.QuoteToASCII(strings.Join(nm, "|")+"#"+strings.Join(ct, "|")), msg, mkCase("set", nm, ct))
					return
				}
				if h == "" {
					l.Outcomes["refused:newline"]++
					return
				}
				l.Nontrivial++
				l.Outcomes["hashed"]++
				if first == "" {
					first = h
				} else if h != first {
					r.Violation("order:"+strconv.QuoteToASCII(strings.Join(nm, "|")+"#"+strings.Join(ct, "|")), fmt.Sprintf("hash depends on listing order: %s vs %s", first, h), mkCase("set", nm, ct))
				}
			})
			if first != "" {
				local[first] = canon
			}
		})
		mu.Lock()
		for h, c := range local {
			if prev, ok := table[h]; ok && prev != c {
				r.Violation("collision:"+h, fmt.Sprintf("two different file sets hash to %s:\n%s---\n%s", h, prev, c), caseT{Kind: "set"})
			}
			table[h] = c
		}
		mu.Unlock()
		r.Merge(l)
	})
	r.Extra["distinct_sets_in_injectivity_table"] = len(table)
	r.Sample(mkCase("set", []string{"a  b", "é"}, []string{"x\n", ""}))

	// module archives
	zipPart(r)
}

type zipSpec struct {
	mod, ver string
	files    []memfile.File
}

func zipCase(scratch string, id int, z zipSpec) (msg string, created bool) {
	var buf bytes.Buffer
	var fs []modzip.File
	for _, f := range z.files {
		fs = append(fs, f)
	}
	mv := module.Version{Path: z.mod, Version: z.ver}
	if err := modzip.Create(&buf, mv, fs); err != nil {
		return "", false
	}
	base := filepath.Join(scratch, strconv.Itoa(id))
	os.MkdirAll(base, 0o755)
	defer os.RemoveAll(base)
	zp := filepath.Join(base, "m.zip")
	if err := os.WriteFile(zp, buf.Bytes(), 0o644); err != nil {
		return "scratch write failed: " + err.Error(), true
	}
	dir := filepath.Join(base, "x")
	if err := modzip.Unzip(dir, mv, zp); err != nil {
		return fmt.Sprintf("Unzip of a created archive failed: %v", err), true
	}
	prefix := z.mod + "@" + z.ver
	hz, err1 := dirhash.HashZip(zp, dirhash.Hash1)
	hd, err2 := dirhash.HashDir(dir, prefix, dirhash.Hash1)
	if hd2, err3 := dirhash.HashDir(dir+string(os.PathSeparator), prefix, dirhash.Hash1); err3 != nil || hd2 != hd {
		return fmt.Sprintf("HashDir with a trailing separator on the directory gives %s, %v instead of %s", hd2, err3, hd), true
	}
	if err1 != nil || err2 != nil {
		return fmt.Sprintf("HashZip err=%v HashDir err=%v", err1, err2), true
	}
	// reference over what the file check calls valid
	cf, _ := modzip.CheckFiles(fs)
	m := map[string]string{}
	for _, v := range cf.Valid {
		for _, f := range z.files {
			if f.P == v {
				m[prefix+"/"+v] = string(f.Data)
			}
		}
	}
	want := refHash(m)
	if hz != hd || hz != want {
		return fmt.Sprintf("HashZip=%s HashDir=%s formula=%s", hz, hd, want), true
	}
	return "", true
}

func zipSpecs(thorough bool) []zipSpec {
	mods := [][2]string{{"example.com/m", "v1.0.0"}, {"example.com/m/v2", "v2.0.0"}, {"gopkg.in/y.v1", "v1.2.3"}, {"example.com/M", "v2.0.0+incompatible"}}
	paths := []string{"a", "b/c", "go.mod", "LICENSE", "x y", "é", "sub/go.mod", "sub/x.go", "vendor/p/q.go", "vendor/modules.txt", "A/b", "d/e/f"}
	datas := []string{"", "x", "module example.com/m\n\ngo 1.24\n"}
	if !thorough {
		paths = paths[:10]
	}
	var out []zipSpec
	for _, mv := range mods {
		for i := range paths {
			for j := i; j < len(paths); j++ {
				for k := j; k < len(paths); k++ {
					if !thorough && (i+j+k)%3 != 0 && !(i == j && j == k) {
						continue
					}
					set := map[string]bool{paths[i]: true, paths[j]: true, paths[k]: true}
					var fs []memfile.File
					for _, p := range paths {
						if set[p] {
							d := datas[(len(p)+i+k)%len(datas)]
							fs = append(fs, memfile.Reg(p, d))
						}
					}
					out = append(out, zipSpec{mv[0], mv[1], fs})
				}
			}
		}
	}
	return out
}

func zipPart(r *fw.Run) {
	scratch := r.Scratch()
	specs := zipSpecs(r.Thorough())
	r.Bounds["zip_file_lists"] = len(specs)
	fw.Parallel(len(specs), func(i int) {
		l := fw.NewLocal()
		l.States++
		l.Execs++
		l.Transitions++
		msg, created := zipCase(scratch, i, specs[i])
		if created {
			l.Nontrivial++
			l.Outcomes["zip:created-and-hashed"]++
		} else {
			l.Outcomes["zip:create-refused"]++
		}
		if msg != "" {
			c := caseT{Kind: "zip", Mod: specs[i].mod, Ver: specs[i].ver}
			for _, f := range specs[i].files {
				c.Files = append(c.Files, pairT{strconv.QuoteToASCII(f.P), strconv.QuoteToASCII(string(f.Data))})
			}
			r.Violation(fmt.Sprintf("zip:%d", i), msg, c)
		}
		r.Merge(l)
	})
	r.Sample(map[string]any{"kind": "zip", "module": specs[1].mod + "@" + specs[1].ver, "paths": func() []string {
		var ps []string
		for _, f := range specs[1].files {
			ps = append(ps, f.P)
		}
		return ps
	}()})
}

func Replay(r *fw.Run, raw json.RawMessage) {
	var c caseT
	json.Unmarshal(raw, &c)
	var nm, ct []string
	for _, p := range c.Files {
		n, _ := strconv.Unquote(p.Name)
		d, _ := strconv.Unquote(p.Content)
		nm = append(nm, n)
		ct = append(ct, d)
	}
	r.States.Add(1)
	r.Transitions.Add(1)
	r.Execs.Add(1)
	r.Sample(c)
	if c.Kind == "zip" {
		var fs []memfile.File
		for i := range nm {
			fs = append(fs, memfile.Reg(nm[i], ct[i]))
		}
		if msg, _ := zipCase(r.Scratch(), 0, zipSpec{c.Mod, c.Ver, fs}); msg != "" {
			r.Violation("zip", msg, c)
		}
		return
	}
	if msg, _ := setCase(nm, ct); msg != "" {
		r.Violation("set", msg, c)
	}
}
