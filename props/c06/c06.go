// Package c06: path validity rules and path/version matching follow the documented rules.
package c06

import (
	"encoding/json"
	"fmt"
	"strconv"
	"strings"
	"unicode"

	"golang.org/x/mod/module"

	"verif/internal/enum"
	"verif/internal/fw"
	"verif/internal/ref/pathref"
	"verif/internal/ref/semverref"
)

type caseT struct {
	Kind string   `json:"kind"` // valid:<module|import|file>, split, check, match, law
	In   []string `json:"inputs_quoted"`
}

func q(ss ...string) []string {
	out := make([]string, len(ss))
	for i, s := range ss {
		out[i] = strconv.QuoteToASCII(s)
	}
	return out
}

func impl(p string, k pathref.Kind) bool {
	switch k {
	case pathref.Module:
		return module.CheckPath(p) == nil
	case pathref.Import:
		return module.CheckImportPath(p) == nil
	}
	return module.CheckFilePath(p) == nil
}

// attribute decides whether got (the implementation's answer) is what the documentation
// says; if not, whether the disagreement is explained by exactly the known doc/code clauses.
func attribute(valid func(o pathref.Opt) bool, got bool) (ok bool, class string) {
	if valid(pathref.Doc) == got {
		return true, ""
	}
	n := len(pathref.Classes)
	best := ""
	bestBits := 99
	for mask := 1; mask < 1<<n; mask++ {
		o := pathref.Doc
		var names []string
		bits := 0
		for i, c := range pathref.Classes {
			if mask&(1<<i) != 0 {
				c.Set(&o, true)
				names = append(names, c.Name)
				bits++
			}
		}
		if valid(o) == got && bits < bestBits {
			best, bestBits = strings.Join(names, "+"), bits
		}
	}
	if best != "" {
		return false, best
	}
	return false, ""
}

// checkPath runs the three validity functions, the implication law and Split on one string.
func checkPath(r *fw.Run, l *fw.Local, p string) {
	var got [3]bool
	for k := pathref.Module; k <= pathref.File; k++ {
		g := impl(p, k)
		got[k] = g
		l.Execs++
		ok, class := attribute(func(o pathref.Opt) bool { return pathref.Valid(p, k, o) }, g)
		if !ok {
			if class != "" {
				for _, c := range strings.Split(class, "+") {
					r.Violation("docmismatch:"+c, fmt.Sprintf("Check path kind=%s %q: accepted=%v, exported documentation says %v (clause %s)", k, p, g, !g, class), caseT{"valid:" + k.String(), q(p)})
				}
			} else {
				r.Violation("valid:"+k.String()+":"+strconv.QuoteToASCII(p), fmt.Sprintf("%s path %q: implementation accepted=%v, documented rules say %v", k, p, g, !g), caseT{"valid:" + k.String(), q(p)})
			}
		}
		if g {
			l.Outcomes[k.String()+":valid"]++
		}
	}
	if got[0] {
		l.Nontrivial++
	}
	if got[0] && !got[1] || got[1] && !got[2] {
		r.Violation("law:"+strconv.QuoteToASCII(p), fmt.Sprintf("implication module=>import=>file broken for %q: %v", p, got), caseT{"law", q(p)})
	}
	// SplitPathVersion
	pre, maj, ok := module.SplitPathVersion(p)
	if got[0] {
		rp, rm, rok := pathref.Split(p)
		if !ok || !rok || pre != rp || maj != rm || pre+maj != p {
			r.Violation("split:"+strconv.QuoteToASCII(p), fmt.Sprintf("SplitPathVersion(%q)=(%q,%q,%v), reference (%q,%q,%v)", p, pre, maj, ok, rp, rm, rok), caseT{"split", q(p)})
		}
		if maj != "" {
			l.Outcomes["split:suffix"]++
		}
	} else if pathref.Valid(p, pathref.Import, pathref.Impl) && strings.Contains(p, "/") && p[0] != '/' {
		// ok flag on every generically valid multi-element path
		_, _, rok := pathref.Split(p)
		if ok != rok {
			r.Violation("splitok:"+strconv.QuoteToASCII(p), fmt.Sprintf("SplitPathVersion(%q) ok=%v, reference %v", p, ok, rok), caseT{"split", q(p)})
		}
	}
}

func checkPair(r *fw.Run, l *fw.Local, p, v string) {
	got := module.Check(p, v) == nil
	l.Execs++
	ok, class := attribute(func(o pathref.Opt) bool { return pathref.Check(p, v, o) }, got)
	if got {
		l.Outcomes["check:ok"]++
		l.Nontrivial++
	}
	if !ok {
		if class != "" {
			for _, c := range strings.Split(class, "+") {
				r.Violation("docmismatch:"+c, fmt.Sprintf("Check(%q,%q) accepted=%v (clause %s)", p, v, got, class), caseT{"check", q(p, v)})
			}
		} else {
			r.Violation("check:"+strconv.QuoteToASCII(p)+"@"+strconv.QuoteToASCII(v), fmt.Sprintf("Check(%q,%q) accepted=%v, reference %v", p, v, got, !got), caseT{"check", q(p, v)})
		}
	}
	// CheckPathMajor / MatchPathMajor on the split suffix of valid paths
	if module.CheckPath(p) == nil {
		_, maj, _ := module.SplitPathVersion(p)
		m1 := module.CheckPathMajor(v, maj) == nil
		m2 := module.MatchPathMajor(v, maj)
		_, rmaj, _ := pathref.Split(p)
		want := pathref.MajorMatches(v, rmaj)
		// CheckPathMajor is documented for semantic versions only
		if m1 != m2 || (semverValid(v) && m1 != want) {
			r.Violation("major:"+strconv.QuoteToASCII(p)+"@"+strconv.QuoteToASCII(v), fmt.Sprintf("CheckPathMajor(%q,%q)==nil is %v, MatchPathMajor %v, reference %v", v, maj, m1, m2, want), caseT{"check", q(p, v)})
		}
	}
}

func semverValid(v string) bool { return semverref.Parse(v).Valid }

func checkMatch(r *fw.Run, l *fw.Local, globs, target string) {
	got := module.MatchPrefixPatterns(globs, target)
	want := pathref.MatchPrefix(globs, target)
	l.Execs++
	if got {
		l.Outcomes["match:true"]++
		l.Nontrivial++
	}
	if got != want {
		class := ""
		// the one documented-definition gap: a '/' inside a character class is counted as a path separator of the pattern
		for _, g := range strings.Split(globs, ",") {
			if i := strings.IndexByte(g, '['); i >= 0 && strings.Contains(g[i:], "/") {
				class = "slash-inside-character-class"
			}
		}
		if class != "" {
			r.Violation("docmismatch:"+class, fmt.Sprintf("MatchPrefixPatterns(%q,%q)=%v, prefix-glob definition says %v", globs, target, got, want), caseT{"match", q(globs, target)})
		} else {
			r.Violation("match:"+strconv.QuoteToASCII(globs)+":"+strconv.QuoteToASCII(target), fmt.Sprintf("MatchPrefixPatterns(%q,%q)=%v, prefix-glob definition says %v", globs, target, got, want), caseT{"match", q(globs, target)})
		}
	}
}

var sigma1 = []string{"a", "Z", ".", "/", "-", "~", "_", "+", "1", "0", "v"}

var elems = []string{"a.b", "con", "CON", "cOn.txt", "nul.a.b", "com1", "com0", "lpt9", "LPT1.x", "a~1", "a~1.b", "a.b~1", "a~b", "~1", "a~", ".a", "a.", "..", "a..b", "v2", "v1", "v0", "v02", "v2.0", "x.v1", "v", "v10", "-a", "a+", "x y", "é", "gopkg.in",
	// gopkg.in's conventions on other hosts (they have no meaning there), and near misses of /vN
	"v2-unstable", "v0-unstable", "v1.2-unstable", "x.v2-unstable", "v2-", "v2+x", "V2",
	// major versions at numeric boundaries
	"v2147483648", "v4294967296", "v18446744073709551616"}

var gopkgSuffix = []string{".v0", ".v1", ".v2", ".v01", ".v", ".v1-unstable", ".v0-unstable", ".v1.2", "-unstable", "/v2", ".v10", ".v1-unstable/x", ".v1/x", "v1", ".V1", ".v1-Unstable"}

var versions = []string{"v0.0.0", "v0.1.0", "v1.0.0", "v1.2.3", "v1", "v1.2", "v2.0.0", "v2", "v2.0.0+incompatible", "v1.0.0+incompatible", "v0.0.0+incompatible", "v3.1.4+incompatible", "v2.0.0+meta", "v2.0.0-pre", "v2.0.0-pre+incompatible",
	"v0.0.0-20190101000000-abcdefabcdef", "v0.0.0-", "v0.0.0-0", "v1.0.1-0.20190101000000-abcdefabcdef", "v2.0.1-0.20190101000000-abcdefabcdef", "v3.0.0", "v9.0.0", "v10.0.0", "v10.1.1", "v11.0.0", "v02.0.0", "v1.0", "", "1.0.0", "v", "vx", "latest", "v1.0.0.0", "v2.0.0.1", "v18446744073709551616.0.0", "v2147483648.0.0", "v4294967296.1.0", "V1.0.0", "v1.0.0 ", "none",
	// near misses of the one build tag that has a meaning
	"v2.0.0+incompatible.1", "v2.0.0+incompatiblex", "v2.0.0+incompatible-fork", "v2.0.0+incompatibl", "v2.0.0+Incompatible", "v2.0.0+x.incompatible", "v2.0.0+incompatible+incompatible", "v2.0.0-incompatible", "v3.0.0+incompatible.x"}

// FirstCalls is the menu of the fresh-process call-order check.
func FirstCalls() []fw.Call {
	var out []fw.Call
	e := func(err error) string { return fmt.Sprint(err == nil) }
	for _, p := range []string{"github.com/a/b", "gopkg.in/yaml.v2", "a.b/CON", "example.com/m/v2", "a.b/x~1"} {
		p := p
		out = append(out, fw.Call{Name: "CheckPath(" + p + ")", F: func() string { return e(module.CheckPath(p)) }})
		out = append(out, fw.Call{Name: "CheckImportPath+FilePath(" + p + ")", F: func() string {
			return e(module.CheckImportPath(p)) + e(module.CheckFilePath(p))
		}})
	}
	out = append(out, fw.Call{Name: "SplitPathVersion+Check", F: func() string {
		a, b, ok := module.SplitPathVersion("gopkg.in/yaml.v2")
		return fmt.Sprint(a, b, ok, e(module.Check("example.com/m/v2", "v2.0.0")), e(module.Check("example.com/m", "v2.0.0+incompatible")), e(module.CheckPathMajor("gopkg.in/x.v1", ".v1")))
	}})
	out = append(out, fw.Call{Name: "MatchPrefixPatterns", F: func() string {
		return fmt.Sprint(module.MatchPrefixPatterns("*.corp.example,a.b/[c-d]*", "x.corp.example/y"), module.MatchPrefixPatterns("a.b/c", "a.b/cd"))
	}})
	return out
}

func Run(r *fw.Run) {
	defer fw.FirstCallOrders(r, r.ID, FirstCalls(), nil)
	L := r.Pick(7, 8)
	r.Bounds["alphabet"] = sigma1
	r.Bounds["max_len"] = L
	r.Rule = "every string over the alphabet up to max_len is checked as module, import and file path (+ implication law + SplitPathVersion); rune sweep; element products; (path x version) products; (glob list x target) products. non-trivial = accepted as a module path / accepted pair / matching pattern. outcome = accept class per kind"
	r.Assume = []string{"internal/ref/pathref transcribes the doc comments of module.go correctly", "unicode tables of the Go standard library", "path.Match of the standard library (named by the documentation as the glob definition)"}
	enum.Strings(sigma1, L, fw.Workers(), func(w int) (func([]byte, int), func()) {
		l := fw.NewLocal()
		return func(b []byte, d int) {
			l.States++
			l.Transitions++
			checkPath(r, l, string(b))
		}, func() { r.Merge(l) }
	})
	r.Sample(map[string]any{"kind": "path", "input": "a.Z/v1", "module": impl("a.Z/v1", pathref.Module), "import": impl("a.Z/v1", pathref.Import)})

	// (b) rune sweep
	var runes []rune
	for c := rune(0); c <= 0x24F; c++ {
		runes = append(runes, c)
	}
	seenCat := map[*unicode.RangeTable]bool{}
	for name, tab := range unicode.Categories {
		if len(name) != 2 || seenCat[tab] {
			continue
		}
		seenCat[tab] = true
		n := 0
		for _, r16 := range tab.R16 {
			if rune(r16.Lo) > 0x24F && n < 2 {
				runes = append(runes, rune(r16.Lo))
				n++
			}
		}
		for _, r32 := range tab.R32 {
			if n < 3 {
				runes = append(runes, rune(r32.Lo))
				n++
			}
		}
	}
	runes = append(runes, 0x212A, 0x0301, 0xFFFD, 0x10FFFF, 0x2028, 0xFEFF)
	r.Bounds["rune_sweep"] = len(runes)
	l := fw.NewLocal()
	for _, c := range runes {
		s := string(c)
		for _, p := range []string{"x" + s + "y", s + "x.y/z", "a.b/" + s, "a.b/" + s + "c", "a.b/c" + s, s} {
			l.States++
			l.Transitions++
			checkPath(r, l, p)
		}
	}
	for _, raw := range []string{"\x80", "\xff", "a\xffb", "a.b/\xc3", "\xc3\x28"} {
		l.States++
		checkPath(r, l, raw)
	}
	r.Merge(l)

	// dense length sweep: a path element, a domain label and a major-version number of every length 0..DenseMax
	{
		dslots := []struct {
			pre, post string
			c         byte
		}{{"a.b/", "", 'a'}, {"", ".com/x", 'd'}, {"a.b/x/", "/y", 'e'}, {"a.b/c/v", "", '7'}, {"gopkg.in/x.v", "", '3'}, {"a.b/c", ".", 'f'}, {"a.b/CON", "", 'g'}, {"a.b/x~", "", '1'}}
		r.Bounds["dense_length_sweep"] = fmt.Sprintf("%d slots x every fill length 0..%d", len(dslots), enum.DenseMax)
		fw.Parallel(len(dslots), func(i int) {
			l := fw.NewLocal()
			defer r.Merge(l)
			enum.EachLength(dslots[i].c, enum.DenseMax, func(f string) {
				l.States++
				l.Transitions++
				checkPath(r, l, dslots[i].pre+f+dslots[i].post)
			})
		})
	}

	// (c) element-level: 1..3 elements
	depth := 3
	var paths []string
	enum.Sequences(len(elems), depth, func(seq []int) {
		if len(seq) == 0 {
			return
		}
		parts := make([]string, len(seq))
		for i, x := range seq {
			parts[i] = elems[x]
		}
		paths = append(paths, strings.Join(parts, "/"))
	})
	for _, s := range gopkgSuffix {
		paths = append(paths, "gopkg.in/x"+s, "gopkg.in/u/x"+s, "gopkg.in/"+s, "gopkg.in"+s, "gopkg.in/x.y"+s)
	}
	for _, e := range elems {
		paths = append(paths, "gopkg.in/"+e, "gopkg.in/"+e+".v1", "gopkg.in/"+e+"/x.v2")
	}
	// (c2) the reserved Windows names: every name (three spellings) alone, with an extension, and joined to
	// every other name or a letter by each character an element may contain next to it
	{
		names := []string{"con", "prn", "aux", "nul"}
		for i := 0; i <= 9; i++ {
			names = append(names, fmt.Sprintf("com%d", i), fmt.Sprintf("lpt%d", i))
		}
		names = append(names, "com", "lpt", "com10", "conin$", "clock$")
		n0 := len(paths)
		for _, a := range names {
			for _, sp := range []string{a, strings.ToUpper(a), strings.ToUpper(a[:1]) + a[1:]} {
				paths = append(paths, sp, sp+".txt", sp+".a.b", "d/"+sp, sp+"/x", "x."+sp, sp+" ", " "+sp, sp+"~1")
			}
			for _, sep := range []string{" ", "-", "_", "+", "~", ",", "", ". ", " ."} {
				for _, b := range append(append([]string{}, names...), "x") {
					paths = append(paths, a+sep+b, a+sep+b+".txt", "d/"+strings.ToUpper(a)+sep+b)
					if b == "x" {
						paths = append(paths, b+sep+a)
					}
				}
			}
		}
		r.Bounds["reserved_name_elements"] = len(paths) - n0
	}
	r.Bounds["element_paths"] = len(paths)
	fw.Parallel(16, func(sh int) {
		l := fw.NewLocal()
		for i := sh; i < len(paths); i += 16 {
			l.States++
			l.Transitions++
			checkPath(r, l, paths[i])
		}
		r.Merge(l)
	})

	// (d) path x version
	var vp []string
	for _, p := range paths {
		if !strings.Contains(p, "/") || strings.Count(p, "/") == 1 || strings.HasPrefix(p, "gopkg.in/") {
			vp = append(vp, p)
		}
	}
	vp = append(vp, "a.b/v3", "a.b/v9", "a.b/v10", "a.b/c/v2", "a.b/v18446744073709551616", "example.com/m", "example.com/m/v2", "gopkg.in/yaml.v2", "gopkg.in/check.v1", "gopkg.in/check.v1-unstable", "gopkg.in/x.v0")
	r.Bounds["check_paths"] = len(vp)
	r.Bounds["check_versions"] = len(versions)
	fw.Parallel(16, func(sh int) {
		l := fw.NewLocal()
		for i := sh; i < len(vp); i += 16 {
			for _, v := range versions {
				l.States++
				l.Transitions++
				checkPair(r, l, vp[i], v)
			}
		}
		r.Merge(l)
	})
	r.Sample(map[string]any{"kind": "check", "path": "gopkg.in/check.v1", "version": "v0.0.0-20190101000000-abcdefabcdef", "accepted": module.Check("gopkg.in/check.v1", "v0.0.0-20190101000000-abcdefabcdef") == nil})

	// (e) MatchPrefixPatterns
	gl := r.Pick(5, 6)
	tl := r.Pick(4, 5)
	globAlpha := []string{"a", "b", "*", "?", "/", ",", "[", "]", "\\"}
	r.Bounds["glob_alphabet"] = globAlpha
	r.Bounds["target_alphabet"] = []string{"a", "b", "/", "\\"}
	r.Bounds["glob_max_len"] = gl
	r.Bounds["target_max_len"] = tl
	targets := enum.AllStrings([]string{"a", "b", "/", "\\"}, tl)
	enum.Strings(globAlpha, gl, fw.Workers(), func(w int) (func([]byte, int), func()) {
		l := fw.NewLocal()
		return func(b []byte, d int) {
			g := string(b)
			l.States++
			for _, t := range targets {
				l.Transitions++
				checkMatch(r, l, g, t)
			}
		}, func() { r.Merge(l) }
	})
	r.Sample(map[string]any{"kind": "match", "globs": "a/*,b", "target": "a/b/a", "result": module.MatchPrefixPatterns("a/*,b", "a/b/a")})
	// call histories: every ordered pair of related paths / pairs / patterns, back to back in one goroutine
	{
		l := fw.NewLocal()
		relP := []string{"a.com/x", "A.com/x", "a.com/X", "a.com/x/v2", "a.com/x/v1", "gopkg.in/x.v1", "gopkg.in/x.v1-unstable", "gopkg.in/x.v2", "a.com/con", "a.com/con.txt", "a.com/x~1", "a.com/x.~1", "a.com/.x", "a.com/x.", "a.com", "a", "", "a.com//x", "a.com/x/", "-a.com/x", "a.com/é"}
		relV := []string{"v1.0.0", "v2.0.0", "v2.0.0+incompatible", "v2.0.0+incompatible.1", "v0.0.0-20190101000000-abcdefabcdef", "v1", ""}
		r.Bounds["call_histories"] = fmt.Sprintf("all ordered pairs of %d related paths, of %d path/version pairs, of 12 glob/target pairs", len(relP), len(relP)*len(relV))
		for _, a := range relP {
			for _, b := range relP {
				l.States++
				l.Transitions++
				checkPath(r, l, a)
				checkPath(r, l, b)
			}
		}
		type pv struct{ p, v string }
		var pvs []pv
		for _, p := range relP[:8] {
			for _, v := range relV {
				pvs = append(pvs, pv{p, v})
			}
		}
		for _, a := range pvs {
			for _, b := range pvs {
				l.States++
				l.Transitions++
				checkPair(r, l, a.p, a.v)
				checkPair(r, l, b.p, b.v)
			}
		}
		gts := [][2]string{{"a/b", "a/b/c"}, {"a/b", "a/bc"}, {"a/*", "a/b/c"}, {"*", "a"}, {"a/b,c", "c/d"}, {"", "a"}, {"a/b/c", "a/b"}, {"A/b", "a/b"}, {"a/[b]", "a/b"}, {"a/\\b", "a/b"}, {"a/b/", "a/b/c"}, {"a/b", "a/b"}}
		for _, a := range gts {
			for _, b := range gts {
				l.States++
				l.Transitions++
				checkMatch(r, l, a[0], a[1])
				checkMatch(r, l, b[0], b[1])
			}
		}
		r.Merge(l)
	}
	// depth: globs and targets of up to 14 path elements (element counts on both sides of every small
	// fixed-size buffer one might use), plain and with a wildcard element, exact, shorter and longer
	{
		l := fw.NewLocal()
		mk := func(n int, last string) string {
			parts := make([]string, n)
			for i := range parts {
				parts[i] = "e" + strconv.Itoa(i%10)
			}
			if n > 0 && last != "" {
				parts[n-1] = last
			}
			return strings.Join(parts, "/")
		}
		for gn := 1; gn <= 14; gn++ {
			for tn := 1; tn <= 14; tn++ {
				for _, gl := range []string{"", "*", "e?", "x"} {
					for _, tl := range []string{"", "x"} {
						for _, pre := range []string{"", "zz,", "zz/*,"} {
							l.States++
							l.Transitions++
							checkMatch(r, l, pre+mk(gn, gl), mk(tn, tl))
						}
					}
				}
			}
		}
		// very long elements and very long lists
		long := strings.Repeat("a", 70000)
		for _, c := range [][2]string{{long, long}, {long, long + "/x"}, {long + "/*", long + "/x/y"}, {strings.Repeat("zz,", 5000) + "a/b", "a/b/c"}, {"a/b", long}} {
			l.States++
			l.Transitions++
			checkMatch(r, l, c[0], c[1])
		}
		r.Merge(l)
	}
	// byte sweep over globs and targets: every byte value in a glob slot against matching-looking targets
	{
		l := fw.NewLocal()
		for c := 0; c < 256; c++ {
			f := string([]byte{byte(c)})
			for _, g := range []string{f, "a" + f + "c", "a" + f, f + "c", "a/" + f + "c", "x," + f + "c", "a" + f + "c/d", "[" + f + "]", "[a-" + f + "]", "\\" + f} {
				for _, t := range []string{f, "a" + f + "c", "abc", "ac", "a/c", "a" + f, f + "c", "a" + f + "c/d", "a" + f + "c/d/e", "a/" + f + "c/x"} {
					l.States++
					l.Transitions++
					checkMatch(r, l, g, t)
				}
			}
		}
		// rune sweep over targets: every boundary rune (1- to 4-byte encodings) where a pattern has ?, *, a class or
		// the rune itself; a pattern byte is not a target byte
		for _, f := range append(enum.BoundaryRunes(), "é", "日", "\U0001F600", "\u212a") {
			for _, g := range []string{"?", "?.io", "a?c", "a?", "??", "*", "a*c", "[" + f + "]", "[^a]", f, "a" + f + "c", "?/x", "a?c/d", "x,?.io", "\\" + f} {
				for _, t := range []string{f, f + ".io", f + ".io/quote", "a" + f + "c", "a" + f, f + f, "a" + f + "c/d", f + "/x/y", "abc", "a/c"} {
					l.States++
					l.Transitions++
					checkMatch(r, l, g, t)
				}
			}
		}
		r.Merge(l)
	}
}

func Replay(r *fw.Run, raw json.RawMessage) {
	var c caseT
	if err := json.Unmarshal(raw, &c); err != nil {
		r.Violation("replay", "bad replay file", nil)
		return
	}
	in := make([]string, len(c.In))
	for i, s := range c.In {
		in[i], _ = strconv.Unquote(s)
	}
	l := fw.NewLocal()
	l.States, l.Transitions = 1, 1
	switch {
	case c.Kind == "check":
		checkPair(r, l, in[0], in[1])
	case c.Kind == "match":
		checkMatch(r, l, in[0], in[1])
	default:
		checkPath(r, l, in[0])
	}
	r.Merge(l)
	r.Sample(c)
}
