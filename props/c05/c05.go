// Package c05: a created module zip always extracts to exactly the files that belong in it.
package c05

import (
	"archive/zip"
	"bytes"
	"crypto/sha256"
	"encoding/json"
	"fmt"
	"io"
	"os"
	"path/filepath"
	"sort"
	"strconv"
	"strings"
	"sync/atomic"
	"verif/internal/coop"

	"golang.org/x/mod/module"
	modzip "golang.org/x/mod/zip"

	"verif/internal/fw"
	"verif/internal/memfile"
	"verif/internal/ref/zipref"
	"verif/props/zipx"
)

type caseT struct {
	Paths   []string `json:"paths_quoted"`
	Modes   []int    `json:"modes"`
	GoMod   string   `json:"root_go_mod_quoted"`
	ModPath string   `json:"module_path"`
	Version string   `json:"version"`
	Size    string   `json:"declared_sizes"`         // honest | smaller | larger
	Shape   int      `json:"reader_shape,omitempty"` // memfile.File.Shape
}

func (c caseT) key() string {
	return fmt.Sprintf("%v:%v:%s:%s@%s:%s:shape%d", c.Paths, c.Modes, c.GoMod, c.ModPath, c.Version, c.Size, c.Shape)
}

type mvT struct {
	path, vers string
	valid      bool
}

var mvs = []mvT{
	{"example.com/m", "v1.0.0", true},
	{"example.com/m/v2", "v2.0.0", true},
	{"gopkg.in/y.v1", "v1.0.0", true},
	{"example.com/M", "v2.0.0+incompatible", true},
	{"example.com/m", "v2.0.0", false},      // major mismatch
	{"example.com/m", "v1", false},          // not canonical
	{"example.com/m", "v1.0.0+meta", false}, // not canonical (build metadata)
	{"bad path", "v1.0.0", false},
	{"example.com/m/v1", "v1.0.0", false},
}

var counter atomic.Int64

// allSpellings (replay): every case extracts into every spelling, not only the one its number selects.
var allSpellings atomic.Bool

// unzipDirSpellings are spellings of <base>/out (absolute: cases run in parallel and the working directory
// is process wide; C12 covers the relative ones).
func unzipDirSpellings(base string) []string {
	return []string{base + "/out", base + "/out/", base + "/./out", base + "//out", base + "/out/.", base + "/x/../out", base + "/out//", "/" + base + "/out"}
}

func walk(dir string) (map[string]string, error) {
	out := map[string]string{}
	err := filepath.Walk(dir, func(p string, info os.FileInfo, err error) error {
		if err != nil {
			return err
		}
		if info.IsDir() {
			return nil
		}
		rel, _ := filepath.Rel(dir, p)
		if !info.Mode().IsRegular() {
			out[filepath.ToSlash(rel)] = "<irregular>"
			return nil
		}
		b, err := os.ReadFile(p)
		if err != nil {
			return err
		}
		out[filepath.ToSlash(rel)] = string(b)
		return nil
	})
	return out, err
}

func one(scratch string, paths []string, modes []zipref.Mode, goMod string, mv mvT, size string, shape int) (msg string, created bool) {
	_, zf := zipx.MakeList(paths, modes, goMod)
	if shape != 0 {
		for i, f := range zf {
			mf := f.(memfile.File)
			mf.Shape = shape
			zf[i] = mf
		}
	}
	if size != "honest" {
		for i, f := range zf {
			mf := f.(memfile.File)
			if mf.M == 0 && len(mf.Data) > 0 {
				if size == "smaller" {
					mf.Declared = int64(len(mf.Data)) - 1
				} else {
					mf.Declared = int64(len(mf.Data)) + 3
				}
				zf[i] = mf
			}
		}
	}
	m := module.Version{Path: mv.path, Version: mv.vers}
	// the list is a window of a longer array: what lies behind its end belongs to the caller
	var padFile modzip.File = memfile.Reg("sentinel-pad.go", "package pad\n")
	zfw := make([]modzip.File, len(zf), len(zf)+2)
	copy(zfw, zf)
	zfw[:len(zf)+2][len(zf)], zfw[:len(zf)+2][len(zf)+1] = padFile, padFile
	intact := func() bool {
		full := zfw[:len(zf)+2]
		for i := range zf {
			if full[i] == nil || full[i].Path() != zf[i].Path() {
				return false
			}
		}
		return full[len(zf)] != nil && full[len(zf)+1] != nil && full[len(zf)].Path() == "sentinel-pad.go" && full[len(zf)+1].Path() == "sentinel-pad.go"
	}
	cf, cfErr := modzip.CheckFiles(zfw)
	var buf bytes.Buffer
	var err error
	func() {
		defer func() {
			if e := recover(); e != nil {
				msg = fmt.Sprintf("Create panicked: %v", e)
			}
		}()
		err = modzip.Create(&buf, m, zfw)
	}()
	if msg == "" && !intact() {
		msg = "CheckFiles or Create changed the caller's file list (its elements, or the array behind its end)"
	}
	if msg != "" {
		return msg, false
	}
	if !mv.valid {
		if err == nil {
			return fmt.Sprintf("Create accepted the invalid module version %s@%s", mv.path, mv.vers), true
		}
		return "", false
	}
	if size == "honest" && (err == nil) != (cfErr == nil) {
		return fmt.Sprintf("Create err=%v but CheckFiles err=%v for %q", err, cfErr, paths), err == nil
	}
	if size == "smaller" && err == nil && len(cf.Valid) > 0 {
		// at least one valid file reports fewer bytes than it has
		for _, f := range zf {
			mf := f.(memfile.File)
			for _, v := range cf.Valid {
				if v == mf.P && mf.Declared >= 0 && mf.Declared < int64(len(mf.Data)) {
					return fmt.Sprintf("Create succeeded although %q has more content than its declared size", v), true
				}
			}
		}
	}
	if err != nil {
		return "", false
	}
	// the archive
	id := counter.Add(1)
	base := filepath.Join(scratch, strconv.FormatInt(id, 10))
	os.MkdirAll(base, 0o755)
	defer func() {
		filepath.Walk(base, func(p string, info os.FileInfo, err error) error {
			if err == nil && info.IsDir() {
				os.Chmod(p, 0o755)
			}
			return nil
		})
		os.RemoveAll(base)
	}()
	zp := filepath.Join(base, "m.zip")
	if err := os.WriteFile(zp, buf.Bytes(), 0o644); err != nil {
		return "scratch: " + err.Error(), true
	}
	cz, err := modzip.CheckZip(m, zp)
	if err != nil || len(cz.Invalid) > 0 || cz.SizeError != nil {
		return fmt.Sprintf("created archive for %q fails the zip check: err=%v invalid=%q", paths, err, zipx.PathsOf(cz.Invalid)), true
	}
	// independent validation of the entry names
	zr, err := zip.NewReader(bytes.NewReader(buf.Bytes()), int64(buf.Len()))
	if err != nil {
		return "produced archive unreadable: " + err.Error(), true
	}
	var ents []zipref.ZipEntry
	for _, f := range zr.File {
		ents = append(ents, zipref.ZipEntry{Name: f.Name, Declared: f.UncompressedSize64})
	}
	if inv, se := zipref.CheckZipEntries(mv.path, mv.vers, ents); len(inv) > 0 || se {
		return fmt.Sprintf("created archive violates a documented restriction: invalid entries %q sizeErr=%v", inv, se), true
	}
	dir := filepath.Join(base, "out")
	// the same directory spelled the way callers spell directories; which spelling rotates with the case
	// (every spelling meets every shape of listing many times over)
	os.MkdirAll(filepath.Join(base, "x"), 0o755)
	sps := unzipDirSpellings(base)
	if !allSpellings.Load() {
		sps = sps[int(id)%len(sps):][:1]
	}
	for _, spelled := range sps {
		os.RemoveAll(dir)
		if err := modzip.Unzip(spelled, m, zp); err != nil {
			return fmt.Sprintf("created archive for %q does not extract into %q: %v", paths, strings.Replace(spelled, base, "<base>", 1), err), true
		}
	}
	got, err := walk(dir)
	if err != nil {
		return "walk: " + err.Error(), true
	}
	want := map[string]string{}
	for _, v := range cf.Valid {
		for _, f := range zf {
			mf := f.(memfile.File)
			if mf.P == v && mf.M == 0 {
				want[v] = string(mf.Data)
			}
		}
	}
	if len(got) != len(want) {
		return fmt.Sprintf("extracted tree has files %q, the file check reported valid %q", keys(got), cf.Valid), true
	}
	for k, v := range want {
		if g, ok := got[k]; !ok || g != v {
			return fmt.Sprintf("extracted file %q: present=%v content %q, want %q", k, ok, g, v), true
		}
	}
	return "", true
}

func keys(m map[string]string) []string {
	var out []string
	for k := range m {
		out = append(out, k)
	}
	sort.Strings(out)
	return out
}

func q(ss []string) []string {
	out := make([]string, len(ss))
	for i, s := range ss {
		out[i] = strconv.QuoteToASCII(s)
	}
	return out
}

// FirstCalls is the menu of the fresh-process call-order check: Create (and what follows it) on a few lists.
func FirstCalls() []fw.Call {
	var out []fw.Call
	for i, c := range []struct {
		paths []string
		mv    mvT
	}{{[]string{"go.mod", "a.go"}, mvs[0]}, {[]string{"a.go", "A.go"}, mvs[0]}, {[]string{"go.mod", "vendor/x/y.go", "sub/go.mod", "sub/z.go"}, mvs[0]}, {[]string{"CON.go"}, mvs[0]}, {[]string{"a.go"}, mvs[len(mvs)-1]}} {
		i, c := i, c
		out = append(out, fw.Call{Name: fmt.Sprintf("create(%v,%s@%s)", c.paths, c.mv.path, c.mv.vers), F: func() string {
			scratch, err := os.MkdirTemp("/dev/shm", "verif-first-")
			if err != nil {
				return "no scratch"
			}
			defer os.RemoveAll(scratch)
			msg, created := one(scratch, c.paths, make([]zipref.Mode, len(c.paths)), zipx.GoMods[0], c.mv, "honest", i%memfile.Shapes)
			return fmt.Sprint(msg, created)
		}})
	}
	return out
}

func Run(r *fw.Run) {
	defer fw.FirstCallOrders(r, r.ID, FirstCalls(), nil)
	scratch := r.Scratch()
	pool2 := zipx.Pool
	pool3 := zipx.Pool
	pool4 := zipx.SmallPool
	r.Bounds["pool_pairs"] = len(pool2)
	r.Bounds["pool_triples"] = len(pool3)
	r.Bounds["module_versions"] = len(mvs)
	r.Bounds["modes"] = "regular; one element at a time as symlink / directory / named pipe"
	r.Bounds["declared_sizes"] = []string{"honest", "smaller than content", "larger than content"}
	r.Rule = "every list of 1..2 paths over the full pool and 3 paths over the full pool (thorough: also reversed order and 4 paths over the 22-path pool) x mode variants x root go.mod variants x 4 valid and 5 invalid module/version pairs x declared-size variants: zip.Create, then (when it succeeds) CheckZip, an independent validation of the entry names, Unzip into a fresh tmpfs directory and an independent walk compared with CheckFiles.Valid; Create succeeds iff CheckFiles reports no error (honest sizes, valid module version). non-trivial = Create succeeded and the archive was extracted"
	r.Assume = []string{"Linux tmpfs; 500 MiB limits exercised through declared sizes in C17, not through content"}
	var lists [][]string
	// byte sweep over names: alone and next to a fixed neighbour
	for _, n := range zipx.SweepNames() {
		lists = append(lists, []string{n}, []string{"N", n})
	}
	for _, n := range []int{9, 17, 63, 64, 65, 129, 600} {
		var ps []string
		for i := 0; i < n; i++ {
			ps = append(ps, fmt.Sprintf("d%d/f%04d.go", i%5, i))
		}
		lists = append(lists, ps, append(append([]string{"go.mod"}, ps...), "vendor/p/x.go", "sub/go.mod", "sub/x.go"))
	}
	// siblings whose names are what an implementation might use for its own temporary or backup files, as
	// files and as directories, in every order
	{
		mini := []string{"a", "a.tmp", "a.tmp/x", "a~", "a.bak", "a.new", "a.part", ".a.tmp", "a.tmp.tmp", "a.lock", "a.orig", "d/b.go", "d/b.go.tmp", "d/b.go.tmp/c", "d.tmp/e", "d.tmp"}
		for i := range mini {
			for j := range mini {
				if i != j {
					lists = append(lists, []string{mini[i], mini[j]})
				}
			}
		}
	}
	// a letter whose case fold is shorter in UTF-8, spelled the same in two paths, with an ordinary case
	// difference later in the directory path (and the same without a difference)
	{
		mini := []string{"\u017fa/x.go", "\u017fA/y.go", "\u212ab/x", "\u212aB/y", "\u212a/b/z", "\u212a/B/w", "\u2126x/q/r", "\u2126X/q/s", "\u212a/b/z2", "\u017fa/y.go"}
		for i := range mini {
			for j := range mini {
				if i != j {
					lists = append(lists, []string{mini[i], mini[j]})
				}
			}
		}
	}
	for i, a := range pool2 {
		lists = append(lists, []string{a})
		for j := i; j < len(pool2); j++ {
			lists = append(lists, []string{a, pool2[j]})
			lists = append(lists, []string{pool2[j], a})
		}
	}
	for i := range pool3 {
		for j := i; j < len(pool3); j++ {
			for k := j; k < len(pool3); k++ {
				lists = append(lists, []string{pool3[i], pool3[j], pool3[k]})
				if r.Thorough() {
					lists = append(lists, []string{pool3[k], pool3[j], pool3[i]})
				}
			}
		}
	}
	if r.Thorough() {
		for i := range pool4 {
			for j := i; j < len(pool4); j++ {
				for k := j; k < len(pool4); k++ {
					for m := k; m < len(pool4); m++ {
						lists = append(lists, []string{pool4[i], pool4[j], pool4[k], pool4[m]})
					}
				}
			}
		}
	}
	r.Bounds["lists"] = len(lists)
	allModes := []zipref.Mode{zipref.Symlink, zipref.Dir, zipref.Irregular}
	fw.Parallel(len(lists), func(i int) {
		if r.Failed() {
			return
		}
		l := fw.NewLocal()
		defer r.Merge(l)
		paths := lists[i]
		gms := zipx.GoMods[:1]
		for _, p := range paths {
			if p == "go.mod" {
				gms = []string{zipx.GoMods[1], zipx.GoMods[2], zipx.GoMods[5]}
				if r.Thorough() {
					gms = zipx.GoMods
				}
			}
		}
		variants := [][]zipref.Mode{make([]zipref.Mode, len(paths))}
		for pos := range paths {
			if len(paths) > 4 && pos != 1 && pos != len(paths)-2 {
				continue // long lists: a non-regular element near the start and near the end only
			}
			for _, m := range allModes {
				v := make([]zipref.Mode, len(paths))
				v[pos] = m
				variants = append(variants, v)
			}
		}
		for _, gm := range gms {
			for vi, modes := range variants {
				for mi, mv := range mvs {
					if mi > 0 && (vi > 0 || len(paths) > 2) && !r.Thorough() {
						continue // quick: other module versions only with the all-regular variant of short lists
					}
					for _, size := range []string{"honest", "smaller", "larger"} {
						if size != "honest" && (mi > 0 || vi > 0) {
							continue
						}
						// how the files' readers deliver their content: every shape for the plain variant of a
						// list, one (rotating) shape elsewhere
						shapes := []int{(len(paths) + vi + mi) % memfile.Shapes}
						if size == "honest" && vi == 0 && mi == 0 && len(paths) <= 4 {
							shapes = []int{0, 1, 2, 3, 4, 5}
						}
						for _, shape := range shapes {
							l.States++
							l.Transitions++
							l.Execs++
							msg, created := one(scratch, paths, modes, gm, mv, size, shape)
							if created {
								l.Nontrivial++
								l.Outcomes["created:"+size]++
							} else {
								l.Outcomes["refused:"+size]++
							}
							if msg != "" {
								ms := make([]int, len(modes))
								for k, x := range modes {
									ms[k] = int(x)
								}
								c := caseT{Paths: q(paths), Modes: ms, GoMod: strconv.QuoteToASCII(gm), ModPath: mv.path, Version: mv.vers, Size: size, Shape: shape}
								r.Violation(c.key(), msg, c)
							}
						}
					}
				}
			}
		}
	})
	// handles: everything Create opened has been closed again, and it never held more than a few files
	// open per call (16 workers run at the same time)
	r.Extra["file_handles_open_at_end_and_peak"] = []int64{memfile.Open.Load(), memfile.Peak.Load()}
	if n := memfile.Open.Load(); n != 0 {
		r.Violation("resource:handles-left-open", fmt.Sprintf("%d file handles obtained through File.Open were never closed", n), nil)
	}
	if p := memfile.Peak.Load(); p > 16*4 {
		r.Violation("resource:handles-peak", fmt.Sprintf("up to %d file handles were open at once with 16 workers: Create keeps files open", p), nil)
	}
	overlapPart(r, "")
	destinationPart(r, "")
	r.Sample(caseT{Paths: q([]string{"go.mod", "sub/x.go", "vendor/p/x.go"}), Modes: []int{0, 0, 0}, GoMod: strconv.QuoteToASCII(zipx.GoMods[2]), ModPath: "example.com/m/v2", Version: "v2.0.0", Size: "honest"})
	_ = strings.Join
}

// ---------------------------------------------------------------- overlapping calls

type yieldFile struct {
	memfile.File
	yield     func()
	readYield bool // also yield once the first Read has filled the caller's buffer
}

type yieldHandle struct {
	io.ReadCloser
	yield func()
	did   bool
}

func (h *yieldHandle) Read(p []byte) (int, error) {
	n, err := h.ReadCloser.Read(p)
	if !h.did {
		// the buffer now holds this file's bytes and the caller has not looked at them yet
		h.did = true
		h.yield()
	}
	return n, err
}

func (f yieldFile) Open() (io.ReadCloser, error) {
	f.yield()
	rc, err := f.File.Open()
	if err != nil {
		return nil, err
	}
	if !f.readYield {
		return rc, nil
	}
	return &yieldHandle{ReadCloser: rc, yield: f.yield}, nil
}

// overlapMenu: named Create calls; each hands its files' Open and first Read to yield.
func overlapMenu() (names []string, calls []func(yield func()) string) {
	add := func(name, mod, ver string, files ...memfile.File) {
		names = append(names, name)
		calls = append(calls, func(y func()) string {
			var zf []modzip.File
			for i, f := range files {
				zf = append(zf, yieldFile{f, y, i == len(files)-1 || len(f.Data) > 1000})
			}
			var buf bytes.Buffer
			err := modzip.Create(&buf, module.Version{Path: mod, Version: ver}, zf)
			sum := sha256.Sum256(buf.Bytes())
			if err != nil {
				return "err=" + err.Error()
			}
			return fmt.Sprintf("%d bytes sha256=%x", buf.Len(), sum[:8])
		})
	}
	big := strings.Repeat("0123456789abcdef", 2500)
	gm := "module example.com/m\n"
	add("two-files", "example.com/m", "v1.0.0", memfile.Reg("go.mod", gm), memfile.Reg("a.go", "package a\n"))
	add("three-files-v2", "example.com/m/v2", "v2.1.0", memfile.Reg("go.mod", "module example.com/m/v2\n"), memfile.Reg("sub/b.go", "package b\n"), memfile.Reg("LICENSE", "text"))
	add("vendored-omitted", "example.com/m", "v1.0.0", memfile.Reg("a.go", "package a\n"), memfile.Reg("vendor/x/y.go", "package y\n"), memfile.Reg("vendor/modules.txt", "#\n"))
	add("case-collision", "example.com/m", "v1.0.0", memfile.Reg("a.go", "x"), memfile.Reg("A.go", "y"))
	add("big-file", "example.com/m", "v1.0.0", memfile.Reg("go.mod", gm), memfile.Reg("data.bin", big))
	add("open-error", "example.com/m", "v1.0.0", memfile.Reg("a.go", "x"), memfile.File{P: "b.go", Data: []byte("y"), Declared: -1, OpenErr: fmt.Errorf("injected open error")}, memfile.Reg("c.go", "z"))
	add("size-lie", "example.com/m", "v1.0.0", memfile.Reg("a.go", "x"), memfile.File{P: "b.go", Data: []byte("longer than declared"), Declared: 3})
	return
}

// cutWriter accepts room bytes and then fails: in "whole" mode a write that does not fit is refused as a
// whole, in "short" mode it takes what fits and reports the rest as failed.
type cutWriter struct {
	room  int
	short bool
	got   []byte
}

func (w *cutWriter) Write(p []byte) (int, error) {
	if len(p) <= w.room {
		w.room -= len(p)
		w.got = append(w.got, p...)
		return len(p), nil
	}
	n := 0
	if w.short {
		n = w.room
		w.got = append(w.got, p[:n]...)
	}
	w.room = 0
	return n, fmt.Errorf("injected: no space left on device")
}

// destinationPart: Create writing to a destination that runs out of room after every number of bytes below
// the size of the archive (both ways of failing). A nil result means the archive is complete: it must then be
// byte for byte what a healthy destination receives. only (replay) = "<list>:<room>:<short>".
func destinationPart(r *fw.Run, only string) {
	type lst struct {
		name, mod, ver string
		files          []memfile.File
	}
	gm := "module example.com/m\n"
	lists := []lst{
		{"two-files", "example.com/m", "v1.0.0", []memfile.File{memfile.Reg("go.mod", gm), memfile.Reg("a.go", "package a\n")}},
		{"empty-last-file", "example.com/m", "v1.0.0", []memfile.File{memfile.Reg("go.mod", gm), memfile.Reg("z/empty", "")}},
		{"compressible", "example.com/m/v2", "v2.1.0", []memfile.File{memfile.Reg("go.mod", "module example.com/m/v2\n"), memfile.Reg("data.txt", strings.Repeat("0123456789abcdef", 400)), memfile.Reg("LICENSE", "text")}},
		{"no-files", "example.com/m", "v1.0.0", nil},
	}
	if only == "" {
		r.Bounds["failing_destination"] = fmt.Sprintf("%d file lists x every number of bytes accepted below the archive size x {write refused whole, short write}", len(lists))
	}
	l := fw.NewLocal()
	defer r.Merge(l)
	for _, li := range lists {
		var zf []modzip.File
		for _, f := range li.files {
			zf = append(zf, f)
		}
		m := module.Version{Path: li.mod, Version: li.ver}
		var full bytes.Buffer
		if err := modzip.Create(&full, m, zf); err != nil {
			r.Violation("destination:"+li.name, "Create on a healthy destination failed: "+err.Error(), caseT{Size: "destination", ModPath: li.name})
			continue
		}
		for room := 0; room < full.Len(); room++ {
			for _, short := range []bool{false, true} {
				key := fmt.Sprintf("%s:%d:%v", li.name, room, short)
				if only != "" && only != key {
					continue
				}
				l.States++
				l.Execs++
				l.Transitions++
				l.Nontrivial++
				w := &cutWriter{room: room, short: short}
				err := modzip.Create(w, m, zf)
				if err == nil && !bytes.Equal(w.got, full.Bytes()) {
					r.Violation("destination:"+key, fmt.Sprintf("Create returned nil although the destination accepted only %d of the archive's %d bytes (list %s, %s): what was written is not the archive", len(w.got), full.Len(), li.name, map[bool]string{false: "writes refused whole", true: "short writes"}[short]), caseT{Size: "destination", ModPath: key})
					l.Outcomes["destination:VIOLATION"]++
				} else {
					l.Outcomes["destination:error-reported"]++
				}
			}
		}
	}
}

// overlapPart explores every interleaving (at File.Open and each file's first Read) of every ordered pair of
// Create calls and compares each archive with the one the call produces alone. only (replay) = "a|b".
func overlapPart(r *fw.Run, only string) {
	names, calls := overlapMenu()
	if only != "" {
		a, b, _ := strings.Cut(only, "|")
		idx := func(n string) int {
			for i, m := range names {
				if m == n {
					return i
				}
			}
			return 0
		}
		names, calls = []string{names[idx(a)], names[idx(b)]}, []func(func()) string{calls[idx(a)], calls[idx(b)]}
	}
	l := fw.NewLocal()
	defer r.Merge(l)
	pairs, runs, capped := coop.Pairs(len(calls), func(i int, y func()) string { return calls[i](y) }, nil, func(i, j int, sched []int, what string) {
		r.Violation(fmt.Sprintf("overlap:%s:%s", names[i], names[j]), fmt.Sprintf("Create %s overlapped with Create %s, interleaving %v: %s", names[i], names[j], sched, what), caseT{Size: "overlap", ModPath: names[i] + "|" + names[j]})
	}, 20000)
	if only == "" {
		r.Bounds["overlapping_calls"] = fmt.Sprintf("%d ordered pairs of Create calls (%v), every interleaving at File.Open and first Read (cap 20000 per pair)", pairs, names)
	}
	if capped {
		r.Cap("overlapping Create calls: 20000 interleavings per pair reached")
	}
	l.States += int64(pairs)
	l.Execs += int64(runs)
	l.Transitions += int64(runs)
	l.Nontrivial += int64(runs)
	l.Outcomes["overlap:interleavings"] += int64(runs)
}

func Replay(r *fw.Run, raw json.RawMessage) {
	var c caseT
	if err := json.Unmarshal(raw, &c); err != nil {
		r.Violation("replay", err.Error(), nil)
		return
	}
	allSpellings.Store(true)
	if c.Size == "destination" {
		r.States.Add(1)
		r.Sample(c)
		destinationPart(r, c.ModPath)
		return
	}
	if c.Size == "overlap" {
		r.States.Add(1)
		r.Sample(c)
		overlapPart(r, c.ModPath)
		return
	}
	var paths []string
	for _, p := range c.Paths {
		s, _ := strconv.Unquote(p)
		paths = append(paths, s)
	}
	var ms []zipref.Mode
	for _, m := range c.Modes {
		ms = append(ms, zipref.Mode(m))
	}
	gm, _ := strconv.Unquote(c.GoMod)
	mv := mvT{c.ModPath, c.Version, false}
	for _, x := range mvs {
		if x.path == c.ModPath && x.vers == c.Version {
			mv = x
		}
	}
	r.States.Add(1)
	r.Transitions.Add(1)
	r.Execs.Add(1)
	r.Sample(c)
	if msg, _ := one(r.Scratch(), paths, ms, gm, mv, c.Size, c.Shape); msg != "" {
		r.Violation(c.key(), msg, c)
	}
}
