// Package c20: parsing is total, positioned, and lax mode accepts everything strict mode does.
package c20

import (
	"encoding/json"
	"errors"
	"fmt"
	"os"
	"regexp"
	"strconv"
	"strings"
	"sync"
	"sync/atomic"
	"time"
	"unicode/utf8"
	c02 "verif/props/c02"

	"golang.org/x/mod/modfile"
	"golang.org/x/mod/module"

	"verif/internal/enum"
	"verif/internal/fw"
	"verif/props/modedit"
	"verif/props/modgen"
)

type caseT struct {
	Kind  string `json:"kind"` // bytes | atoms | file | insert
	Input string `json:"input_quoted"`
}

func (c caseT) key() string { return c.Kind + ":" + c.Input }

// ---------------------------------------------------------------- positions

func posOK(data []byte, p modfile.Position) string {
	if p.Byte < 0 || p.Byte > len(data) {
		return fmt.Sprintf("byte offset %d outside [0,%d]", p.Byte, len(data))
	}
	pre := data[:p.Byte]
	line := 1 + strings.Count(string(pre), "\n")
	ls := strings.LastIndexByte(string(pre), '\n') + 1
	col := 1 + utf8.RuneCount(pre[ls:])
	if p.Line != line || p.LineRune != col {
		return fmt.Sprintf("position %d:%d #%d, but byte %d is at line %d column %d", p.Line, p.LineRune, p.Byte, p.Byte, line, col)
	}
	return ""
}

func checkErr(name string, data []byte, err error) string {
	var el modfile.ErrorList
	if !errors.As(err, &el) {
		return fmt.Sprintf("%s returned an error that is not an ErrorList: %T %v", name, err, err)
	}
	if len(el) == 0 {
		return name + " returned an empty ErrorList"
	}
	if strings.Contains(err.Error(), "internal error") {
		return fmt.Sprintf("%s reports an internal error: %v", name, err)
	}
	for _, e := range el {
		if e.Pos.Line > 0 {
			if m := posOK(data, e.Pos); m != "" {
				return fmt.Sprintf("%s error %q: %s", name, e.Error(), m)
			}
		} else {
			// every error of a parse names the place in the input it is about
			return fmt.Sprintf("%s error %q carries no position (%+v, file name %q)", name, e.Error(), e.Pos, e.Filename)
		}
	}
	return ""
}

func hasPrefixAt(data []byte, off int, tok string) bool {
	return off >= 0 && off <= len(data) && strings.HasPrefix(string(data[off:]), tok)
}

func checkComments(data []byte, c *modfile.Comments) string {
	for _, g := range [][]modfile.Comment{c.Before, c.Suffix, c.After} {
		for _, x := range g {
			if x.Token == "" {
				continue // blank-line marker carries no position
			}
			if m := posOK(data, x.Start); m != "" {
				return fmt.Sprintf("comment %q: %s", x.Token, m)
			}
			t := strings.TrimRight(x.Token, "\r\n")
			if !strings.HasPrefix(t, "//") || !hasPrefixAt(data, x.Start.Byte, t) {
				return fmt.Sprintf("comment %q is not the text at its position %d", x.Token, x.Start.Byte)
			}
		}
	}
	return ""
}

func checkLine(data []byte, l *modfile.Line) string {
	if len(l.Token) == 0 {
		return "line without tokens"
	}
	if m := posOK(data, l.Start); m != "" {
		return fmt.Sprintf("line %q start: %s", l.Token, m)
	}
	if m := posOK(data, l.End); m != "" {
		return fmt.Sprintf("line %q end: %s", l.Token, m)
	}
	if l.End.Byte < l.Start.Byte {
		return fmt.Sprintf("line %q ends before it starts", l.Token)
	}
	if !hasPrefixAt(data, l.Start.Byte, l.Token[0]) {
		return fmt.Sprintf("line %q: input at start offset %d does not begin with its first token", l.Token, l.Start.Byte)
	}
	last := l.Token[len(l.Token)-1]
	if !strings.HasSuffix(string(data[:l.End.Byte]), last) {
		return fmt.Sprintf("line %q: input before end offset %d does not end with its last token", l.Token, l.End.Byte)
	}
	return checkComments(data, &l.Comments)
}

func checkTree(data []byte, fs *modfile.FileSyntax) string {
	if m := checkComments(data, &fs.Comments); m != "" {
		return m
	}
	for _, st := range fs.Stmt {
		switch x := st.(type) {
		case *modfile.CommentBlock:
			if m := posOK(data, x.Start); m != "" {
				return "comment block: " + m
			}
			if m := checkComments(data, &x.Comments); m != "" {
				return m
			}
		case *modfile.Line:
			if m := checkLine(data, x); m != "" {
				return m
			}
		case *modfile.LineBlock:
			if m := posOK(data, x.Start); m != "" {
				return fmt.Sprintf("block %q: %s", x.Token, m)
			}
			if len(x.Token) == 0 || !hasPrefixAt(data, x.Start.Byte, x.Token[0]) {
				return fmt.Sprintf("block %q: input at start does not begin with its first token", x.Token)
			}
			if m := posOK(data, x.LParen.Pos); m != "" || !hasPrefixAt(data, x.LParen.Pos.Byte, "(") {
				return fmt.Sprintf("block %q: left paren position wrong %s", x.Token, m)
			}
			if m := posOK(data, x.RParen.Pos); m != "" || !hasPrefixAt(data, x.RParen.Pos.Byte, ")") {
				return fmt.Sprintf("block %q: right paren position wrong %s", x.Token, m)
			}
			for _, c := range []*modfile.Comments{&x.Comments, &x.LParen.Comments, &x.RParen.Comments} {
				if m := checkComments(data, c); m != "" {
					return m
				}
			}
			for _, l := range x.Line {
				if m := checkLine(data, l); m != "" {
					return m
				}
			}
		}
		s, e := st.Span()
		if e.Byte < s.Byte {
			return "statement span ends before it starts"
		}
	}
	return ""
}

// ---------------------------------------------------------------- one input through every parser

func coreDump(f *modfile.File) []string {
	var out []string
	if f.Module != nil {
		out = append(out, "module "+f.Module.Mod.Path)
	}
	if f.Go != nil {
		out = append(out, "go "+f.Go.Version)
	}
	for _, r := range f.Require {
		out = append(out, fmt.Sprintf("require %s@%s indirect=%v", r.Mod.Path, r.Mod.Version, r.Indirect))
	}
	for _, r := range f.Retract {
		out = append(out, fmt.Sprintf("retract [%s,%s] %q", r.Low, r.High, r.Rationale))
	}
	return out
}

type result struct {
	msg           string
	class         string // known-finding class, if msg belongs to one
	strictOK      bool
	laxOK, workOK bool
	synOK         bool
}

func safely(name string, f func()) (msg string) {
	defer func() {
		if e := recover(); e != nil {
			msg = fmt.Sprintf("%s panicked: %v", name, e)
		}
	}()
	f()
	return ""
}

func oneInput(data []byte) (res result) {
	var fs *modfile.FileSyntax
	var f, fl *modfile.File
	var w *modfile.WorkFile
	var e1, e2, e3, e4 error
	var mp string
	for _, p := range []struct {
		name string
		run  func()
	}{
		{"syntax parser", func() { fs, e4 = modfile.VerifParseSyntax("go.mod", data) }},
		{"Parse", func() { f, e1 = modfile.Parse("go.mod", data, nil) }},
		{"ParseLax", func() { fl, e2 = modfile.ParseLax("go.mod", data, nil) }},
		{"ParseWork", func() { w, e3 = modfile.ParseWork("go.work", data, nil) }},
		{"ModulePath", func() { mp = modfile.ModulePath(data) }},
	} {
		if m := safely(p.name, p.run); m != "" {
			res.msg = m
			return
		}
	}
	check := func(name string, ok bool, err error) bool {
		if ok == (err != nil) {
			res.msg = fmt.Sprintf("%s returned result=%v and error=%v (exactly one expected)", name, ok, err)
			return false
		}
		if err != nil {
			if m := checkErr(name, data, err); m != "" {
				res.msg = m
				return false
			}
		}
		return true
	}
	if !check("syntax parser", fs != nil, e4) || !check("Parse", f != nil, e1) || !check("ParseLax", fl != nil, e2) || !check("ParseWork", w != nil, e3) {
		return
	}
	res.synOK, res.strictOK, res.laxOK, res.workOK = fs != nil, f != nil, fl != nil, w != nil
	if fs != nil {
		if m := checkTree(data, fs); m != "" {
			res.msg = "syntax tree position: " + m
			return
		}
	}
	if (f != nil || fl != nil || w != nil) && fs == nil {
		res.msg = "a directive-level parser accepted an input the syntax parser rejects"
		return
	}
	if f != nil {
		if fl == nil {
			res.msg = fmt.Sprintf("strict parser accepts, lax parser rejects: %v", e2)
			return
		}
		a, b := coreDump(f), coreDump(fl)
		if !modedit.Equal(a, b) {
			res.msg = fmt.Sprintf("strict and lax parsers disagree on module/go/require/retract: %q vs %q", a, b)
			return
		}
		// quick module-path extractor
		if f.Module != nil && f.Module.Syntax != nil && !f.Module.Syntax.InBlock && module.CheckImportPath(f.Module.Mod.Path) == nil {
			if mp != f.Module.Mod.Path {
				res.msg = fmt.Sprintf("ModulePath says %q, the strict parser says %q", mp, f.Module.Mod.Path)
				// the one known way to get here: a line that starts with the word "module" inside a block of another directive
				if fs != nil {
					for _, st := range fs.Stmt {
						if b, ok := st.(*modfile.LineBlock); ok && len(b.Token) > 0 && b.Token[0] != "module" {
							for _, l := range b.Line {
								if len(l.Token) > 0 && strings.HasPrefix(l.Token[0], "module") {
									res.class = "modulepath-scans-lines-inside-blocks"
								}
							}
						}
					}
				}
				return
			}
		}
	}
	return
}

var byteAlpha = []string{"a", "(", ")", "\"", "`", "'", "/", "*", "\n", "\r", " ", "\\", "\xff", "é", ",", "\ufffd"}
var atomAlpha = []string{"a", "b", "(", ")", "[", "]", ",", "\"s t\"", "`r`", "//c", "// d ", "\n", "\r\n", " ", "\t", "a//", "{", "}", "\x01", "\u00a0",
	"module", "go", "require", "retract", "1.21", "a.com/m", "v1.0.0", "=>", "/*", "\"unterminated", "use", "./x"}

// ---------------------------------------------------------------- watchdog

// fixerPositions: a version fixer that rejects one marked version; the marker is put in the place of each
// version token of a set of files in turn. The error that carries the fixer's message must be reported on
// the line of the token the fixer was called for.
func fixerPositions(r *fw.Run) {
	l := fw.NewLocal()
	defer r.Merge(l)
	files := []string{
		"module example.com/m\n\nretract v1.0.0\n\nretract v1.1.0 // why\n\nretract [v1.2.0, v1.3.0]\n",
		"module example.com/m\n\nretract (\n\tv1.0.0\n\t[v1.1.0, v1.2.0] // r\n\tv1.3.0\n)\n",
		"retract v1.0.0\n\nretract v1.1.0\n\nmodule example.com/m\n",
		"module example.com/m\n\nrequire a.com/x v1.0.0\n\nrequire (\n\tb.com/y v1.1.0\n\tc.com/z v1.2.0 // indirect\n)\n",
		"module example.com/m\n\nexclude a.com/x v1.0.0\n\nexclude (\n\ta.com/x v1.1.0\n\tb.com/y v1.2.0\n)\n",
		"module example.com/m\n\nreplace a.com/x v1.0.0 => b.com/y v1.1.0\n\nreplace (\n\tb.com/y v1.2.0 => c.com/z v1.3.0\n\tc.com/z => d.com/w v1.4.0\n)\n",
		"module example.com/m\n\nrequire a.com/x v1.0.0\n\nretract v1.1.0\n\nexclude b.com/y v1.2.0\n\nretract v1.3.0\n",
	}
	verRE := regexp.MustCompile(`v1\.[0-9]\.0`)
	const marker = "v9.9.9"
	fix := func(path, vers string) (string, error) {
		if vers == marker {
			return "", fmt.Errorf("REJECTED-BY-FIXER")
		}
		return vers, nil
	}
	r.Bounds["fixer_position_files"] = len(files)
	for fi, src := range files {
		locs := verRE.FindAllStringIndex(src, -1)
		for k, loc := range locs {
			in := src[:loc[0]] + marker + src[loc[1]:]
			line := 1 + strings.Count(in[:loc[0]], "\n")
			for _, p := range []struct {
				name string
				f    func() error
			}{
				{"Parse", func() error { _, err := modfile.Parse("go.mod", []byte(in), fix); return err }},
				{"ParseLax", func() error { _, err := modfile.ParseLax("go.mod", []byte(in), fix); return err }},
			} {
				l.States++
				l.Execs++
				l.Transitions++
				err := p.f()
				el, _ := err.(modfile.ErrorList)
				msg := ""
				found := false
				for _, e := range el {
					if strings.Contains(e.Error(), "REJECTED-BY-FIXER") {
						found = true
						if e.Pos.Line != line {
							msg = fmt.Sprintf("%s: the fixer rejected the version on line %d, the error is reported at line %d: %v", p.name, line, e.Pos.Line, e)
						}
					}
				}
				if err == nil || !found {
					// a lax parser may ignore the directive altogether; the strict one must report it
					if p.name == "Parse" {
						msg = fmt.Sprintf("Parse: the fixer rejected the version on line %d but no error carries its message (err=%v)", line, err)
					}
				}
				if msg != "" {
					c := caseT{Kind: "fixer-position", Input: strconv.QuoteToASCII(in)}
					r.Violation(fmt.Sprintf("fixer-position:%d:%d:%s", fi, k, p.name), msg, c)
				} else {
					l.Nontrivial++
					l.Outcomes["fixer-position:ok"]++
				}
			}
		}
	}
}

// retention: what a parser call returned (error list, syntax tree) must not change when the parser is
// called again. Every ordered pair of a small input set through every parser: the first result is
// rendered, the second input is parsed twice, the first result is rendered again.
func retention(r *fw.Run) {
	l := fw.NewLocal()
	defer r.Merge(l)
	inputs := []string{
		"module example.com/m\n", "module example.com/m\n\ngo 1.21\n\nrequire a.com/x v1.0.0 // c\n", "a b\n", "a (\n\tb c // d\n)\n", "// only a comment\n", "",
		"a /* b\n", "\"unterminated", "a (\nb\n", ")\n", "module a b c\n", "require x\n", "module example.com/m\nrequire a.com/x v1\n", "go 1.21\nuse ./a\n", "use (\n\t./a\n\t./b // s\n)\n",
		"a \x01 b\n", "x\n/* y\n/* z\n", "module m\n\nretract [v1.0.0, v1.1.0] // why\n", "replace a => \"../b c\"\n", "`raw\n", "a\n\n\n(\n",
	}
	type parser struct {
		name string
		f    func(data []byte) (*modfile.FileSyntax, error)
	}
	parsers := []parser{
		{"Parse", func(d []byte) (*modfile.FileSyntax, error) {
			f, err := modfile.Parse("a.mod", d, nil)
			return syn(f), err
		}},
		{"ParseLax", func(d []byte) (*modfile.FileSyntax, error) {
			f, err := modfile.ParseLax("a.mod", d, nil)
			return syn(f), err
		}},
		{"ParseWork", func(d []byte) (*modfile.FileSyntax, error) {
			f, err := modfile.ParseWork("a.work", d, nil)
			if f == nil {
				return nil, err
			}
			return f.Syntax, err
		}},
		{"syntax", func(d []byte) (*modfile.FileSyntax, error) { return modfile.VerifParseSyntax("a.mod", d) }},
	}
	render := func(fs *modfile.FileSyntax, err error) string {
		out := ""
		if err != nil {
			out = "error: " + err.Error() + "\n"
			if el, ok := err.(modfile.ErrorList); ok {
				for _, e := range el {
					out += fmt.Sprintf("%s|%v|%s|%v\n", e.Filename, e.Pos, e.Verb, e.Err)
				}
			}
		}
		if fs != nil {
			out += string(modfile.Format(fs)) + "|" + strings.Join(flattenPos(fs), ",")
		}
		return out
	}
	r.Bounds["retention_pairs"] = fmt.Sprintf("%d inputs x %d inputs x %d parsers", len(inputs), len(inputs), len(parsers))
	for _, p := range parsers {
		for _, x := range inputs {
			for _, y := range inputs {
				l.States++
				l.Execs += 3
				l.Transitions++
				var msg string
				func() {
					defer func() {
						if e := recover(); e != nil {
							msg = fmt.Sprintf("panic: %v", e)
						}
					}()
					fs, err := p.f([]byte(x))
					before := render(fs, err)
					p.f([]byte(y))
					p.f([]byte(y))
					if after := render(fs, err); after != before {
						msg = fmt.Sprintf("the result of %s(%q) changed after %s(%q) was called:\nbefore: %s\nafter:  %s", p.name, x, p.name, y, before, after)
					}
				}()
				if msg != "" {
					c := caseT{Kind: "retention", Input: strconv.QuoteToASCII(p.name + "\x00" + x + "\x00" + y)}
					r.Violation(c.key(), msg, c)
				}
			}
		}
	}
}

func syn(f *modfile.File) *modfile.FileSyntax {
	if f == nil {
		return nil
	}
	return f.Syntax
}

// flattenPos lists the start positions of all statements and lines.
func flattenPos(fs *modfile.FileSyntax) []string {
	var out []string
	for _, st := range fs.Stmt {
		s, e := st.Span()
		out = append(out, fmt.Sprintf("%d:%d-%d:%d", s.Line, s.LineRune, e.Line, e.LineRune))
		if b, ok := st.(*modfile.LineBlock); ok {
			for _, ln := range b.Line {
				s, e := ln.Span()
				out = append(out, fmt.Sprintf("%d:%d-%d:%d %q", s.Line, s.LineRune, e.Line, e.LineRune, ln.Token))
			}
		}
	}
	return out
}

type watch struct {
	cur   atomic.Pointer[string]
	count atomic.Int64
}

// FirstCalls is the menu of the fresh-process call-order check.
func FirstCalls() []fw.Call {
	var out []fw.Call
	for _, in := range []string{"module example.com/m\n\ngo 1.21\n\nrequire a.com/x v1.0.0 // indirect\n", "module a.b/c\nfrobnicate x\n", "go 1.21\n\nuse ./a\n", "module \"unterminated\n", "require (\n\tmodule v1.0.0\n)\nmodule example.com/m\n", "\xef\xbb\xbfmodule a.b/c\n", ""} {
		in := in
		out = append(out, fw.Call{Name: fmt.Sprintf("parsers(%q)", in), F: func() string {
			res := oneInput([]byte(in))
			return fmt.Sprint(res.msg, res.class, res.strictOK, res.laxOK, res.workOK, res.synOK)
		}})
	}
	return out
}

func Run(r *fw.Run) {
	defer fw.FirstCallOrders(r, r.ID, FirstCalls(), nil)
	L := r.Pick(6, 7)
	D := r.Pick(4, 5)
	K := r.Pick(2, 3)
	r.Bounds["byte_alphabet"] = []string{"a", "(", ")", "\"", "`", "'", "/", "*", "\\n", "\\r", "space", "\\\\", "0xFF", "é", ","}
	r.Bounds["byte_max_len"] = L
	r.Bounds["atom_alphabet_size"] = len(atomAlpha)
	r.Bounds["atom_max_depth"] = D
	r.Bounds["max_statements"] = K
	r.Rule = "every byte string over the byte alphabet up to byte_max_len, every concatenation of up to atom_max_depth atoms, every generated well-formed file of <= max_statements statements and each of those with an unknown directive / unknown block / stray module-only line inserted at every statement boundary, is run through Parse, ParseLax, ParseWork, ModulePath and the syntax-only parser. Oracle: returns (watchdog 60s), exactly one of result / non-empty ErrorList, no internal error, all positions consistent with the input, strict => lax with equal core values, insertion of unknown statements leaves the lax result unchanged, ModulePath agrees on accepted files. non-trivial = accepted by at least one parser"
	r.Assume = []string{"positions are checked on the syntax-only tree (the directive layer re-quotes tokens in place)"}

	ws := make([]*watch, fw.Workers())
	for i := range ws {
		ws[i] = &watch{}
	}
	done := make(chan struct{})
	go func() {
		last := make([]int64, len(ws))
		stuck := make([]int, len(ws))
		for {
			select {
			case <-done:
				return
			case <-time.After(5 * time.Second):
			}
			for i, w := range ws {
				c := w.count.Load()
				if p := w.cur.Load(); p != nil && c == last[i] {
					stuck[i]++
					if stuck[i] >= 12 {
						cs := caseT{Kind: "hang", Input: strconv.QuoteToASCII(*p)}
						r.Violation(cs.key(), "a parser made no progress for 60 s on this input (hang)", cs)
						fmt.Println("hang detected; aborting")
						os.Exit(r.Finish())
					}
				} else {
					stuck[i] = 0
				}
				last[i] = c
			}
		}
	}()
	defer close(done)

	report := func(kind string, data []byte, res result) {
		c := caseT{Kind: kind, Input: strconv.QuoteToASCII(string(data))}
		if res.class != "" {
			r.Violation("class:"+res.class, res.msg+"\ninput: "+c.Input, c)
			return
		}
		r.Violation(c.key(), res.msg+"\ninput: "+c.Input, c)
	}
	for _, sp := range []struct {
		name  string
		alpha []string
		depth int
	}{{"bytes", byteAlpha, L}, {"atoms", atomAlpha, D}} {
		sp := sp
		enum.Strings(sp.alpha, sp.depth, len(ws), func(w int) (func([]byte, int), func()) {
			l := fw.NewLocal()
			return func(b []byte, d int) {
				s := string(b)
				ws[w].cur.Store(&s)
				l.States++
				l.Transitions++
				l.Execs += 5
				res := oneInput(b)
				ws[w].count.Add(1)
				if res.synOK {
					l.Nontrivial++
				}
				l.Outcomes[fmt.Sprintf("%s:syntax=%v strict=%v lax=%v work=%v", sp.name, res.synOK, res.strictOK, res.laxOK, res.workOK)]++
				if res.msg != "" {
					report(sp.name, b, res)
				}
			}, func() { ws[w].cur.Store(nil); r.Merge(l) }
		})
	}
	r.Sample(caseT{Kind: "atoms", Input: strconv.QuoteToASCII("module a.com/m\nrequire ( // d \n\"unterminated")})

	// byte sweep: every byte value and a few other fills in every kind of position (slots shared with C02,
	// plus directive-shaped files so that the typed parsers and ModulePath get past the first token)
	{
		l := fw.NewLocal()
		slots := append([][2]string{}, c02.SweepSlots...)
		slots = append(slots, [][2]string{
			{"module example.com/m", "\n"}, {"module ", "example.com/m\n"}, {"module", "example.com/m\n"}, {"module", "\"example.com/m\"\n"}, {"// c\nmodule", " example.com/m\n"}, {"module example.com/m //c", "\n\ngo 1.21\n"}, {"", "module example.com/m\n"},
			{"module example.com/m\n\nrequire a.com/x v1.0.0 //", "\n"}, {"module example.com/m\n\nrequire a.com/x", " v1.0.0\n"}, {"module example.com/m\n\nrequire (\n\ta.com/x v1.0.0", "\n)\n"},
			{"module example.com/m\n\nreplace a.com/x => \"../d", "\"\n"}, {"module example.com/m\n\nretract [v1.0.0, v1.1.0] // ", "\n"}, {"go 1.21\n\nuse ./a", "\n"}, {"go 1.21\n\nuse \"./a", "b\"\n"},
		}...)
		r.Bounds["byte_sweep_slots"] = len(slots)
		for _, sl := range slots {
			for _, f := range c02.SweepFills() {
				b := []byte(sl[0] + f + sl[1])
				s := string(b)
				ws[0].cur.Store(&s)
				l.States++
				l.Transitions++
				l.Execs += 5
				res := oneInput(b)
				ws[0].count.Add(1)
				if res.synOK {
					l.Nontrivial++
				}
				l.Outcomes[fmt.Sprintf("sweep:syntax=%v strict=%v lax=%v work=%v", res.synOK, res.strictOK, res.laxOK, res.workOK)]++
				if res.msg != "" {
					report("sweep", b, res)
				}
			}
		}
		ws[0].cur.Store(nil)
		r.Merge(l)
	}

	// dense length sweep: a path, a comment, a quoted directory and a version of every length 0..enum.DenseMax
	{
		var mu sync.Mutex
		dslots := [][2]string{{"module example.com/", "\n"}, {"module example.com/m\n\nrequire a.com/x v1.0.0 //", "\n"}, {"module example.com/m\n\nreplace a.com/x => \"../", "\"\n"}, {"module example.com/m\n\nrequire a.com/x v1.0.0-", "\n"}, {"go 1.21\n\nuse ./", "\n"}}
		r.Bounds["dense_length_sweep"] = fmt.Sprintf("%d slots x every fill length 0..%d", len(dslots), enum.DenseMax)
		fw.Parallel(16, func(sh int) {
			l := fw.NewLocal()
			defer r.Merge(l)
			enum.EachLength('k', enum.DenseMax, func(f string) {
				if len(f)%16 != sh {
					return
				}
				for _, sl := range dslots {
					b := []byte(sl[0] + f + sl[1])
					l.States++
					l.Transitions++
					l.Execs += 5
					res := oneInput(b)
					if res.synOK {
						l.Nontrivial++
					}
					if res.msg != "" {
						mu.Lock()
						report("dense", b, res)
						mu.Unlock()
					}
				}
			})
		})
	}

	// quoted values: every value of up to 3 pieces (c02.ValuePieces: letters of 1-3 bytes, an invalid byte,
	// white space, every character or pair the lexer gives a meaning to, backslash) as an interpreted and as
	// a raw string in the places where a directive carries a value
	{
		var vals []string
		var rec func(cur string, n int)
		rec = func(cur string, n int) {
			if n > 0 {
				vals = append(vals, cur)
			}
			if n == 3 {
				return
			}
			for _, p := range c02.ValuePieces {
				rec(cur+p, n+1)
			}
		}
		rec("", 0)
		vslots := [][3]string{
			{"module example.com/m\n\nreplace a.com/x => ", "../", " // c\n"},
			{"module ", "example.com/", "\n"},
			{"module example.com/m\n\nrequire (\n\t", "a.com/", " v1.0.0\n)\n"},
			{"module example.com/m\n\nrequire a.com/x ", "v1.0.0-", "\n"},
			{"go 1.21\n\nuse (\n\t", "./", "\n)\n"},
			{"module example.com/m\n\ngodebug ", "k=", "\n"},
		}
		r.Bounds["quoted_value_sweep"] = fmt.Sprintf("%d values (<= 3 pieces of %d) x %d places x {interpreted, raw} string", len(vals), len(c02.ValuePieces), len(vslots))
		var mu sync.Mutex
		fw.Parallel(16, func(sh int) {
			l := fw.NewLocal()
			defer r.Merge(l)
			for i := sh; i < len(vals); i += 16 {
				for _, sl := range vslots {
					v := sl[1] + vals[i]
					forms := []string{strconv.Quote(v)}
					if !strings.ContainsAny(v, "`\n") {
						forms = append(forms, "`"+v+"`")
					}
					for _, q := range forms {
						b := []byte(sl[0] + q + sl[2])
						l.States++
						l.Transitions++
						l.Execs += 5
						res := oneInput(b)
						if res.synOK {
							l.Nontrivial++
						}
						if res.msg != "" {
							mu.Lock()
							report("values", b, res)
							mu.Unlock()
						}
					}
				}
			}
		})
	}

	// directives that are syntactically fine and refused for what they say (every verb, as a single line and
	// inside a block, after some other statements so that the right position is not 1:1): every error must
	// carry a position that agrees with the input
	{
		l := fw.NewLocal()
		bad := []string{
			"replace /v1 => ../x", "replace gopkg.in/x => ../x", "replace a.com/x/v2 v1.0.0 => ../x", "replace a.com/x v2.0.0 => ../x", "replace a.com/x => b.com/y",
			"replace a.com/x => ../x v1.0.0", "replace a.com/x v1 => ../x", "replace a.com/x => b.com/y/v2 v1.0.0", "replace a.com/x v1.0.0 v1.1.0 => ../x", "replace => ../x", "replace a.com/x =>",
			"require a.com/x/v2 v1.0.0", "require a.com/x v2.0.0", "require a.com/x vbad", "require a.com/x", "require a.com/x v1.0.0 v1.1.0", "require /v1 v1.0.0",
			"exclude a.com/x/v2 v1.0.0", "exclude a.com/x v1", "exclude a.com/x", "exclude gopkg.in/x v1.0.0",
			"retract v1", "retract [v1.0.0]", "retract [v1.0.0, ]", "retract [v1.0.0, v1.1.0", "retract", "retract v1.0.0 v1.1.0",
			"go 1", "go 1.x", "go", "go 1.21 1.22", "toolchain go", "toolchain", "toolchain a b", "godebug x", "godebug =", "godebug", "godebug a=b c=d", "tool", "tool a b", "tool /v1",
			"module a.com/x b", "module", "module /v1", "use ../x y", "use", "use x",
		}
		// the empty string (interpreted and raw) in every argument position of every directive
		for _, e := range []string{`""`, "``"} {
			bad = append(bad, "replace a.com/x => "+e, "replace a.com/x v1.0.0 => "+e+" v1.0.0", "replace a.com/x => "+e+" v1.0.0", "replace "+e+" => ../x", "replace a.com/x "+e+" => ../x", "replace a.com/x => ../x "+e,
				"require "+e+" v1.0.0", "require a.com/x "+e, "exclude "+e+" v1.0.0", "exclude a.com/x "+e, "retract "+e, "retract ["+e+", v1.0.0]", "retract [v1.0.0, "+e+"]",
				"module "+e, "go "+e, "toolchain "+e, "godebug "+e, "tool "+e, "use "+e, "ignore "+e, e+" a.com/x v1.0.0", "require a.com/x v1.0.0 "+e)
		}
		r.Bounds["semantic_error_directives"] = len(bad)
		for _, b := range bad {
			verb, rest, _ := strings.Cut(b, " ")
			forms := []string{b + "\n", verb + " (\n\t" + rest + "\n)\n", verb + " (\n\t// c\n\n\t" + rest + " // s\n)\n"}
			for _, f := range forms {
				for _, pre := range []string{"", "module example.com/m\n\n// c\ngo 1.21\n\n", "go 1.21\n\n"} {
					data := []byte(pre + f)
					l.States++
					l.Transitions++
					l.Execs += 5
					res := oneInput(data)
					if res.msg != "" {
						report("file", data, res)
					}
				}
			}
		}
		r.Merge(l)
	}

	retention(r)
	fixerPositions(r)

	// generated files and insertions
	stmts := modgen.ModStmts()
	var files []modgen.File
	modgen.Files(stmts, K, func(f modgen.File) {
		if !f.Fix {
			files = append(files, f)
		}
	})
	wstmts := modgen.WorkStmts()
	modgen.Files(wstmts, K, func(f modgen.File) {
		if !f.Fix {
			files = append(files, f)
		}
	})
	r.Bounds["generated_files"] = len(files)
	inserts := []string{"frobnicate a b\n", "frobnicate (\n\tx y\n)\n", "// stray\n", "godebug (\n)\n"}
	fw.Parallel(16, func(sh int) {
		l := fw.NewLocal()
		for i := sh; i < len(files); i += 16 {
			f := files[i]
			data := []byte(f.Text)
			l.States++
			l.Execs += 5
			res := oneInput(data)
			if res.synOK {
				l.Nontrivial++
			}
			l.Outcomes[fmt.Sprintf("file:strict=%v lax=%v work=%v", res.strictOK, res.laxOK, res.workOK)]++
			if res.msg != "" {
				report("file", data, res)
				continue
			}
			if !res.laxOK || !f.Blank {
				// insertions only between statements separated by a blank line: otherwise the insertion
				// would split a leading comment from the directive it documents
				continue
			}
			base, err := modfile.ParseLax("go.mod", data, nil)
			if err != nil {
				continue
			}
			want := (&modedit.Doc{F: base}).TypedDump()
			// insert an unknown statement at every statement boundary
			nl := "\n"
			if f.CRLF {
				nl = "\r\n"
			}
			bounds := []int{0}
			off := 0
			for _, si := range f.Stmts {
				var t string
				if si < len(stmts) && strings.Contains(f.Text, strings.ReplaceAll(stmts[si].Text, "\n", nl)) {
					t = strings.ReplaceAll(stmts[si].Text, "\n", nl)
				} else {
					break
				}
				j := strings.Index(f.Text[off:], t)
				if j < 0 {
					break
				}
				off += j + len(t)
				bounds = append(bounds, off)
			}
			for _, b := range bounds {
				for _, ins := range inserts {
					l.Transitions++
					l.Execs++
					mod := f.Text[:b] + nl + strings.ReplaceAll(ins, "\n", nl) + nl + f.Text[b:]
					g, err := modfile.ParseLax("go.mod", []byte(mod), nil)
					if err != nil {
						c := caseT{Kind: "insert", Input: strconv.QuoteToASCII(mod)}
						r.Violation(c.key(), fmt.Sprintf("lax parser accepts a file but rejects it after inserting an unknown statement: %v\n%s", err, mod), c)
						continue
					}
					got := (&modedit.Doc{F: g}).TypedDump()
					if !modedit.Equal(got, want) {
						// a comment-only insertion in front of a directive may legitimately become its leading comment
						if strings.HasPrefix(ins, "//") {
							l.Outcomes["insert:comment-attached"]++
							continue
						}
						c := caseT{Kind: "insert", Input: strconv.QuoteToASCII(mod)}
						r.Violation(c.key(), fmt.Sprintf("inserting an unknown statement changed what the lax parser reads: %s\n%s", modedit.Diff(got, want), mod), c)
					}
				}
			}
		}
		r.Merge(l)
	})
	r.Sample(caseT{Kind: "file", Input: strconv.QuoteToASCII(files[len(files)/2].Text)})
	// structured extras
	long := strings.Repeat("a", 1<<16)
	for _, s := range []string{"module " + long + "\n", "require " + long + " v1.0.0 // " + long + "\n", "\"" + long, "(" + strings.Repeat("(", 2000), strings.Repeat("require (\n", 300), "module \"a\\\nb\"\n", "\xef\xbb\xbfmodule a.com/m\n", "module a.com/m\r", "module\ta.com/m\n", "module a.com/m // c\n\n\n", "go 1.21\nmodule \"a.com/m\" // x\n"} {
		r.States.Add(1)
		r.Execs.Add(5)
		if res := oneInput([]byte(s)); res.msg != "" {
			report("bytes", []byte(s), res)
		}
	}
}

func Replay(r *fw.Run, raw json.RawMessage) {
	var c caseT
	if err := json.Unmarshal(raw, &c); err != nil {
		r.Violation("replay", err.Error(), nil)
		return
	}
	in, _ := strconv.Unquote(c.Input)
	r.States.Add(1)
	r.Transitions.Add(1)
	r.Execs.Add(5)
	r.Sample(c)
	if c.Kind == "fixer-position" {
		fixerPositions(r)
		return
	}
	if c.Kind == "retention" {
		retention(r)
		return
	}
	if c.Kind == "insert" {
		if _, err := modfile.ParseLax("go.mod", []byte(in), nil); err != nil {
			r.Violation(c.key(), err.Error(), c)
		}
		return
	}
	if res := oneInput([]byte(in)); res.msg != "" {
		if res.class != "" {
			r.Violation("class:"+res.class, res.msg, c)
		} else {
			r.Violation(c.key(), res.msg, c)
		}
	}
}
