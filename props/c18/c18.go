// Package c18: pseudo-versions round-trip and sort between their base and the next release.
package c18

import (
	"encoding/json"
	"fmt"
	"math/big"
	"strconv"
	"strings"
	"sync"
	"time"
	_ "time/tzdata" // named zones must not depend on the host
	"verif/internal/enum"

	"golang.org/x/mod/module"
	"golang.org/x/mod/semver"

	"verif/internal/fw"
	"verif/internal/ref/semverref"
)

type caseT struct {
	Major string `json:"major"`
	Base  string `json:"base"`
	Time  string `json:"time_rfc3339nano"`
	Rev   string `json:"rev"`
	Time2 string `json:"time2,omitempty"`
	Rev2  string `json:"rev2,omitempty"`
	// Zone: the time is carried in this named zone of the time zone database (daylight saving rules)
	Zone string `json:"zone_name,omitempty"`
}

func refCmp(a, b string) int { return semverref.Compare(semverref.Parse(a), semverref.Parse(b)) }

func inc(dec string) string {
	n, _ := new(big.Int).SetString(dec, 10)
	return n.Add(n, big.NewInt(1)).String()
}

// one checks a single (major, base, time, rev); returns the pseudo-version and a message.
func one(major, base string, t time.Time, rev string) (pv string, msg string) {
	defer func() {
		if e := recover(); e != nil {
			msg = fmt.Sprintf("panic for base %q time %v rev %q (pseudo-version %q): %v", base, t, rev, pv, e)
		}
	}()
	pv = module.PseudoVersion(major, base, t, rev)
	rb := semverref.Parse(base)
	if !semverref.Parse(pv).Valid || !semver.IsValid(pv) {
		return pv, fmt.Sprintf("PseudoVersion(%q,%q,%v,%q)=%q is not a valid version", major, base, t, rev, pv)
	}
	if !module.IsPseudoVersion(pv) {
		return pv, fmt.Sprintf("%q is not recognised as a pseudo-version", pv)
	}
	wantBase := ""
	if rb.Valid {
		wantBase = rb.Canonical() + rb.Build
	}
	gotBase, err := module.PseudoVersionBase(pv)
	if err != nil || gotBase != wantBase {
		return pv, fmt.Sprintf("PseudoVersionBase(%q)=%q,%v want %q", pv, gotBase, err, wantBase)
	}
	gt, err := module.PseudoVersionTime(pv)
	want := t.UTC().Truncate(time.Second)
	if err != nil || !gt.Equal(want) {
		return pv, fmt.Sprintf("PseudoVersionTime(%q)=%v,%v want %v", pv, gt, err, want)
	}
	gr, err := module.PseudoVersionRev(pv)
	if err != nil || gr != rev {
		return pv, fmt.Sprintf("PseudoVersionRev(%q)=%q,%v want %q", pv, gr, err, rev)
	}
	// ordering
	var lo, hi string
	if rb.Valid {
		lo = rb.Canonical()
		if rb.Pre != "" {
			hi = "v" + rb.Major + "." + orZero(rb.Minor) + "." + orZero(rb.Patch)
		} else {
			hi = "v" + rb.Major + "." + orZero(rb.Minor) + "." + inc(orZero(rb.Patch))
		}
		if refCmp(lo, pv) >= 0 || semver.Compare(lo, pv) >= 0 {
			return pv, fmt.Sprintf("%q does not sort strictly after its base %q", pv, lo)
		}
	} else {
		m := major
		if m == "" {
			m = "v0"
		}
		hi = m + ".0.0"
		if semver.Major(pv) != m {
			return pv, fmt.Sprintf("%q does not have major %q", pv, m)
		}
	}
	if refCmp(pv, hi) >= 0 || semver.Compare(pv, hi) >= 0 {
		return pv, fmt.Sprintf("%q does not sort strictly before %q", pv, hi)
	}
	return pv, ""
}

func orZero(s string) string {
	if s == "" {
		return "0"
	}
	return s
}

func bases(thorough bool) []string {
	majors := []string{"0", "1", "2", "9", "10", "99", "100", "1000"}
	minors := []string{"0", "1", "9", "10"}
	patches := []string{"0", "1", "8", "9", "10", "99", "199", "999", "18446744073709551615", "99999999999999999999", "100000000000000000000"}
	pres := []string{"", "-0", "-1", "-a", "-B", "-a.0", "-0.a", "-a-b", "-9", "-10", "-pre", "-pre.1", "--", "-0-0", "-0.0", "-rc.0.1", "-0.20190101000000-abcdefabcdef", "-pre.0.20190101000000-abcdefabcdef"}
	builds := []string{"", "+incompatible", "+a", "+meta.1", "+0", "+incompatible.x", "+meta-data", "+x-", "+a-b.5-c",
		// counts of identifiers in the build metadata: 3, 4, 9
		"+a.b.c", "+exp.sha.5114", "+build.2021.03.04", "+1.2.3.4.5.6.7.8.9", "+incompatible.a.b"}
	if !thorough {
		majors = []string{"0", "1", "2", "10"}
		minors = []string{"0", "9"}
	}
	out := []string{"", "v1", "v0", "v2", "v10", "v1.2", "v0.0", "v9.9", "v2.10", "bad", "1.2.3", "v1.2.3.4", "v01.2.3"}
	for _, a := range majors {
		for _, b := range minors {
			for _, c := range patches {
				for _, p := range pres {
					for _, d := range builds {
						out = append(out, "v"+a+"."+b+"."+c+p+d)
					}
				}
			}
		}
	}
	// patch numbers around which incrementing and decrementing a decimal string carries or borrows: d99..9 and
	// d00..0 for every leading digit and 1..30 digits, and 2^k-1, 2^k, 2^k+1 up to 2^70
	{
		var ps []string
		for d := 1; d <= 9; d++ {
			for n := 1; n <= 30; n++ {
				ps = append(ps, strconv.Itoa(d)+strings.Repeat("9", n), strconv.Itoa(d)+strings.Repeat("0", n))
			}
		}
		for k := 1; k <= 70; k++ {
			x := new(big.Int).Lsh(big.NewInt(1), uint(k))
			ps = append(ps, x.String(), new(big.Int).Sub(x, big.NewInt(1)).String(), new(big.Int).Add(x, big.NewInt(1)).String())
		}
		for _, c := range ps {
			out = append(out, "v1.2."+c, "v0.0."+c+"+incompatible", "v1.2."+c+"-pre", "v2."+c+".0")
		}
	}
	// character sweep: every alphanumeric character and the hyphen in the positions of prerelease and
	// build identifiers that parsing and trimming code looks at (first, last, alone, before ".0")
	for _, c := range alnum + "-" {
		ch := string(c)
		for _, p := range []string{"-" + ch, "-a" + ch, "-" + ch + "a", "-a." + ch, "-" + ch + ".0", "-" + ch + "0", "-a." + ch + "0"} {
			if semverref.Parse("v1.2.3" + p).Valid {
				out = append(out, "v1.2.3"+p, "v2.0.0"+p+"+incompatible")
			}
		}
		out = append(out, "v1.2.3+"+ch, "v1.2.3+a"+ch, "v1.2.3-pre+"+ch+".0")
	}
	return out
}

const alnum = "0123456789ABCDEFGHIJKLMNOPQRSTUVWXYZabcdefghijklmnopqrstuvwxyz"

func times() []time.Time {
	z := func(h int) *time.Location { return time.FixedZone("", h*3600) }
	ts := []time.Time{
		time.Date(1, 1, 1, 0, 0, 0, 0, time.UTC),
		time.Date(1, 1, 1, 0, 0, 1, 0, time.UTC),
		time.Date(1, 1, 1, 14, 0, 0, 0, z(14)), // 0001-01-01T00:00:00Z
		time.Date(999, 12, 31, 23, 59, 59, 0, time.UTC),
		time.Date(1000, 1, 1, 0, 0, 0, 0, time.UTC),
		time.Date(1969, 12, 31, 23, 59, 59, 999999999, time.UTC),
		time.Date(1970, 1, 1, 0, 0, 0, 0, time.UTC),
		time.Date(2016, 2, 29, 12, 0, 0, 0, time.UTC),
		time.Date(2018, 12, 31, 23, 59, 59, 0, time.UTC),
		time.Date(2018, 12, 31, 23, 59, 59, 999999999, time.UTC),
		time.Date(2019, 1, 1, 0, 0, 0, 0, time.UTC),
		time.Date(2019, 1, 1, 0, 0, 0, 1, time.UTC),
		time.Date(2019, 1, 1, 9, 0, 0, 0, z(14)),
		time.Date(2019, 1, 1, 0, 0, 0, 500000000, z(-12)),
		time.Date(2019, 10, 9, 8, 7, 6, 0, time.UTC),
		time.Date(2019, 10, 10, 0, 0, 0, 0, time.UTC),
		time.Date(2100, 2, 28, 23, 59, 59, 0, z(-14)),
		time.Date(9999, 12, 31, 9, 59, 59, 0, z(-14)), // 9999-12-31T23:59:59Z
		time.Date(9999, 12, 31, 23, 59, 59, 999999999, time.UTC),
		time.Date(9999, 12, 31, 23, 59, 58, 0, time.UTC),
		// zones whose offset is not a whole number of hours
		time.Date(2019, 1, 1, 5, 29, 59, 0, time.FixedZone("", 5*3600+1800)),
		time.Date(2019, 6, 30, 20, 15, 30, 999999999, time.FixedZone("", -(9*3600+1800+7))),
		// zone names: a zone's name says nothing about its offset
		time.Date(2019, 3, 4, 5, 6, 7, 0, time.FixedZone("UTC", 2*3600)),
		time.Date(2019, 3, 4, 23, 6, 7, 0, time.FixedZone("UTC", -7*3600)),
		time.Date(2019, 3, 4, 5, 6, 7, 0, time.FixedZone("UTC", 0)),
		time.Date(2019, 3, 4, 5, 6, 7, 0, time.FixedZone("GMT", 3600)),
		time.Date(2019, 3, 4, 5, 6, 7, 0, time.FixedZone("Z", -3600)),
		time.Date(2019, 3, 4, 1, 6, 7, 0, time.FixedZone("Local", 5*3600)),
		time.Date(2019, 3, 4, 5, 6, 7, 0, time.FixedZone("CET", 0)),
		time.Date(2019, 3, 4, 5, 6, 7, 0, time.Local),
	}
	return ts
}

var revs = []string{"0", "A", "z9", "abcdef123456", "0123456789abcdef0123456789abcdef01234567", "000000000000", "Z", "999999999999"}

// FirstCalls is the menu of the fresh-process call-order check.
func FirstCalls() []fw.Call {
	t0 := time.Date(2019, 3, 4, 5, 6, 7, 0, time.FixedZone("", 2*3600))
	var out []fw.Call
	for _, base := range []string{"", "v1.2.3", "v1.2.3-pre", "v2.0.0+incompatible"} {
		base := base
		out = append(out, fw.Call{Name: "PseudoVersion(" + base + ")", F: func() string {
			return module.PseudoVersion("v1", base, t0, "abcdef123456")
		}})
	}
	// inputs whose internal representation is all zeros (what an unset cache slot or counter looks like): the
	// first second of the Unix epoch, in UTC and elsewhere, and the zero time
	for i, tz := range []time.Time{time.Unix(0, 0).UTC(), time.Unix(0, 500000000).In(time.FixedZone("", -5*3600)), {}} {
		tz := tz
		out = append(out, fw.Call{Name: fmt.Sprintf("PseudoVersion(zero-like time %d)", i), F: func() string {
			a := module.PseudoVersion("v1", "v1.2.3", tz, "abcdef123456")
			b := module.PseudoVersion("", "", tz, "0")
			ta, ea := module.PseudoVersionTime(a)
			return fmt.Sprint(a, b, module.IsPseudoVersion(a), module.IsPseudoVersion(b), ta.UTC(), ea)
		}})
	}
	for _, v := range []string{"v0.0.0-20190304030607-abcdef123456", "v1.2.4-0.20190304030607-abcdef123456", "v1.2.3-pre.0.20190304030607-abcdef123456", "v1.2.3"} {
		v := v
		out = append(out, fw.Call{Name: "accessors(" + v + ")", F: func() string {
			tm, e1 := module.PseudoVersionTime(v)
			rv, e2 := module.PseudoVersionRev(v)
			b, e3 := module.PseudoVersionBase(v)
			return fmt.Sprint(module.IsPseudoVersion(v), tm.UTC(), e1, rv, e2, b, e3, module.IsZeroPseudoVersion(v))
		}})
	}
	return out
}

func Run(r *fw.Run) {
	defer fw.FirstCallOrders(r, r.ID, FirstCalls(), nil)
	// the process's local time zone is part of the environment: nothing here may depend on it. The whole
	// check runs with a local zone that is far from UTC and not a whole number of hours.
	oldLocal := time.Local
	time.Local = time.FixedZone("VerifLocal", -(7*3600 + 1800))
	defer func() { time.Local = oldLocal }()
	r.Bounds["process_local_zone"] = "UTC-07:30 (time.Local is set for the run)"
	bs := bases(r.Thorough())
	ts := times()
	r.Bounds["bases"] = len(bs)
	r.Bounds["times"] = len(ts)
	r.Bounds["revisions"] = revs
	r.Rule = "product of a grammar-generated base pool (majors x minors x patches incl. >64-bit x 18 prereleases x 6 build suffixes, shortened and invalid bases) x majors {'',v0,v1,v2} for base-less x 20 boundary times x 8 revisions; per base all ordered pairs of (time,rev) for monotonicity. non-trivial = base is a valid version; outcome = pseudo-version form"
	r.Assume = []string{"reference SemVer order (semverref)", "times whose UTC instant lies in years 0001-9999 (DESIGN 7)"}
	fw.Parallel(len(bs), func(i int) {
		l := fw.NewLocal()
		base := bs[i]
		majors := []string{""}
		valid := semverref.Parse(base).Valid
		if !valid {
			majors = []string{"", "v0", "v1", "v2", "v10"}
		} else {
			majors = []string{semver.Major(base)}
		}
		for _, major := range majors {
			pvs := make([]string, 0, len(ts)*len(revs))
			type tr struct {
				t   time.Time
				rev string
			}
			var trs []tr
			for _, t := range ts {
				for _, rev := range revs {
					l.States++
					l.Transitions++
					l.Execs++
					pv, msg := one(major, base, t, rev)
					if valid {
						l.Nontrivial++
					}
					switch {
					case !valid:
						l.Outcomes["form1:no-base"]++
					case semver.Prerelease(base) != "":
						l.Outcomes["form4/5:prerelease-base"]++
					default:
						l.Outcomes["form2/3:release-base"]++
					}
					if msg != "" {
						c := caseT{Major: major, Base: base, Time: t.Format(time.RFC3339Nano), Rev: rev}
						r.Violation(fmt.Sprintf("one:%s|%s|%s|%s", major, base, c.Time, rev), msg, c)
					}
					pvs = append(pvs, pv)
					trs = append(trs, tr{t, rev})
				}
			}
			// monotone in time regardless of revision
			if !r.Thorough() && i%5 != 0 {
				continue
			}
			parsed := make([]semverref.V, len(pvs))
			for a := range pvs {
				parsed[a] = semverref.Parse(pvs[a])
			}
			for a := range pvs {
				for b := range pvs {
					ta, tb := trs[a].t.UTC().Truncate(time.Second), trs[b].t.UTC().Truncate(time.Second)
					if tb.Sub(ta) < time.Second && !(ta.Year() < 1700 && tb.After(ta)) { // Sub saturates for far-apart times
						continue
					}
					l.Transitions++
					l.Execs++
					if semver.Compare(pvs[a], pvs[b]) >= 0 || semverref.Compare(parsed[a], parsed[b]) >= 0 {
						c := caseT{Major: major, Base: base, Time: trs[a].t.Format(time.RFC3339Nano), Rev: trs[a].rev, Time2: trs[b].t.Format(time.RFC3339Nano), Rev2: trs[b].rev}
						r.Violation(fmt.Sprintf("mono:%s|%s|%s|%s|%s|%s", major, base, c.Time, c.Rev, c.Time2, c.Rev2), fmt.Sprintf("later time does not give a higher version: %q (t=%v) vs %q (t=%v)", pvs[a], ta, pvs[b], tb), c)
					}
				}
			}
		}
		r.Merge(l)
	})
	for _, s := range [][2]string{{"v1.2.3", "abcdef123456"}, {"v1.2.3-pre+incompatible", "A"}, {"", "0"}, {"v1.0.99999999999999999999", "z9"}} {
		// calendar sweep: every day of years around the Gregorian rules (divisible by 4, 100, 400, neither),
		// at noon and one second before midnight UTC and in zones that move the date
		{
			l := fw.NewLocal()
			years := []int{1, 4, 100, 400, 1600, 1900, 1999, 2000, 2001, 2023, 2024, 2100, 2400, 9600, 9996, 9999}
			r.Bounds["calendar_sweep_years"] = years
			for _, y := range years {
				for d := 0; d < 366; d++ {
					day := time.Date(y, 1, 1, 12, 0, 0, 0, time.UTC).AddDate(0, 0, d)
					if day.Year() != y {
						break
					}
					for _, t := range []time.Time{day, day.Add(12*time.Hour - time.Second), day.In(time.FixedZone("", -7*3600)), day.Add(10 * time.Hour).In(time.FixedZone("", 5*3600+1800))} {
						if u := t.UTC(); u.Year() < 1 || u.Year() > 9999 {
							continue
						}
						l.States++
						l.Transitions++
						l.Execs++
						if _, msg := one("v1", "v1.2.3", t, "abcdef123456"); msg != "" {
							c := caseT{Major: "v1", Base: "v1.2.3", Time: t.Format(time.RFC3339Nano), Rev: "abcdef123456"}
							r.Violation(fmt.Sprintf("one:v1|v1.2.3|%s|abcdef123456", c.Time), msg, c)
						}
					}
				}
			}
			r.Merge(l)
		}
		// sibling histories: pseudo-versions that differ only in the build suffix (or only in the revision, or
		// only in the time) queried one right after the other, in both orders, in one goroutine: a result must
		// not depend on what was parsed just before
		{
			l := fw.NewLocal()
			type q struct {
				major, base string
				t           time.Time
				rev         string
			}
			var qs []q
			for _, base := range []string{"", "v1.2.3", "v1.2.3-pre", "v2.0.0", "v1.2.3-rc.0"} {
				major := "v2"
				if semverref.Parse(base).Valid {
					major = semver.Major(base)
				}
				for _, build := range []string{"", "+incompatible", "+a", "+meta-data"} {
					if base == "" && build != "" {
						continue
					}
					for _, t := range []time.Time{ts[7], ts[8]} {
						for _, rev := range []string{"abcdef123456", "abcdef123457"} {
							qs = append(qs, q{major, base + build, t, rev})
						}
					}
				}
			}
			r.Bounds["sibling_histories"] = fmt.Sprintf("all ordered pairs of %d closely related pseudo-version queries", len(qs))
			for _, a := range qs {
				for _, b := range qs {
					l.States++
					l.Transitions += 2
					l.Execs += 2
					one(a.major, a.base, a.t, a.rev)
					if _, msg := one(b.major, b.base, b.t, b.rev); msg != "" {
						c := caseT{Major: b.major, Base: b.base, Time: b.t.Format(time.RFC3339Nano), Rev: b.rev}
						r.Violation(fmt.Sprintf("after:%s|%s|%s|%s", a.base, b.base, c.Time, b.rev), fmt.Sprintf("right after the same queries for base %q (time %s, revision %s): %s", a.base, a.t.Format(time.RFC3339), a.rev, msg), c)
					}
				}
			}
			r.Merge(l)
		}
		// revision sweep: every alphanumeric character alone, first and last in a revision
		{
			l := fw.NewLocal()
			for _, c := range alnum {
				ch := string(c)
				rvs := []string{ch, "x" + ch, ch + "x", "abcdef12345" + ch, ch + "bcdef123456"}
				if ch == "a" || ch == "Z" || ch == "9" {
					rvs = append(rvs, strings.Repeat("abcdef0123", 700)+ch) // a 7 KB revision
				}
				for _, rev := range rvs {
					for _, base := range []string{"", "v1.2.3", "v1.2.3-pre", "v2.0.0+incompatible", "v1.2.3-rc.0"} {
						major := "v1"
						if semverref.Parse(base).Valid {
							major = semver.Major(base)
						}
						for _, t := range ts[:3] {
							l.States++
							l.Transitions++
							l.Execs++
							if _, msg := one(major, base, t, rev); msg != "" {
								c := caseT{Major: major, Base: base, Time: t.Format(time.RFC3339Nano), Rev: rev}
								r.Violation(fmt.Sprintf("one:%s|%s|%s|%s", major, base, c.Time, rev), msg, c)
							}
						}
					}
				}
			}
			r.Merge(l)
		}
		// dense length sweep: a revision of every length 1..4400 (hex digits, other letters, digits; 4400 covers every boundary around a 4 KiB buffer)
		if s[0] == "v1.2.3" {
			var mu sync.Mutex
			fillsD := []byte{'a', 'g', '7', 'F'}
			r.Bounds["dense_length_sweep"] = fmt.Sprintf("revisions of every length 1..%d x %d fills x 2 bases", 4400, len(fillsD))
			fw.Parallel(16*len(fillsD), func(job int) {
				l := fw.NewLocal()
				defer r.Merge(l)
				i, sh := job/16, job%16
				enum.EachLength(fillsD[i], 4400, func(rev string) {
					if rev == "" || len(rev)%16 != sh {
						return
					}
					for _, base := range []string{"", "v1.2.3-pre"} {
						major := "v1"
						if base == "" {
							major = "v0"
						}
						l.States++
						l.Transitions++
						l.Execs++
						if _, msg := one(major, base, ts[1], rev); msg != "" {
							c := caseT{Major: major, Base: base, Time: ts[1].Format(time.RFC3339Nano), Rev: rev}
							mu.Lock()
							r.Violation(fmt.Sprintf("dense:%s|%s|%c|%d", major, base, fillsD[i], len(rev)), msg, c)
							mu.Unlock()
						}
					}
				})
			})
		}
		r.Sample(map[string]any{"base": s[0], "rev": s[1], "time": ts[13].Format(time.RFC3339Nano), "pseudo": module.PseudoVersion("", s[0], ts[13], s[1])})
	}
	dstPart(r)
	// negative space: strings that must not be taken for pseudo-versions / must fail to parse
	for _, v := range []string{"v1.2.3", "v1.2.3-pre", "v1.2.3-0.20190101000000", "v0.0.0-2019010100000-abc", "v0.0.0-201901010000000-abc", "v0.0.0-20190101000000-", "v0.0.0-20190101000000-ab_c", "0.0.0-20190101000000-abc", "v0.1.0-20190101000000-abc"} {
		r.States.Add(1)
		r.Execs.Add(1)
		is := module.IsPseudoVersion(v)
		_, e1 := module.PseudoVersionRev(v)
		_, e2 := module.PseudoVersionTime(v)
		_, e3 := module.PseudoVersionBase(v)
		if !is && (e1 == nil || e2 == nil || e3 == nil) {
			r.Violation("neg:"+v, fmt.Sprintf("%q is not a pseudo-version but an accessor succeeded", v), caseT{Base: v})
		}
		if is {
			r.Violation("neg:"+v, fmt.Sprintf("%q recognised as pseudo-version", v), caseT{Base: v})
		}
	}
	_ = strings.Join
}

// dstPart: commit times carried in named zones with daylight saving rules (embedded time zone database), every
// second within two hours of every change of offset in three years (repeated and skipped wall-clock hours,
// half-hour shifts, a skipped day): the version is that of the instant, and consecutive seconds give
// increasing versions.
func dstPart(r *fw.Run) {
	zones := []string{"America/New_York", "Europe/London", "Australia/Lord_Howe", "Pacific/Apia", "America/St_Johns", "Africa/Casablanca", "Asia/Tehran", "Europe/Dublin", "America/Sao_Paulo"}
	years := []int{1996, 2011, 2021}
	span := r.Pick(2*3600, 3*3600)
	r.Bounds["named_zone_times"] = fmt.Sprintf("zones %v, years %v: every second within %d s of every change of offset, bases {none, v1.2.3}", zones, years, span)
	fw.Parallel(len(zones), func(zi int) {
		l := fw.NewLocal()
		defer r.Merge(l)
		loc, err := time.LoadLocation(zones[zi])
		if err != nil {
			r.Note("zone %s not available: %v", zones[zi], err)
			return
		}
		for _, y := range years {
			for t := time.Date(y, 1, 1, 0, 0, 0, 0, time.UTC); t.Year() == y; t = t.Add(time.Hour) {
				_, o1 := t.In(loc).Zone()
				_, o2 := t.Add(time.Hour).In(loc).Zone()
				if o1 == o2 {
					continue
				}
				for _, base := range []string{"", "v1.2.3"} {
					prev := ""
					for d := -span; d <= span+3600; d++ {
						tt := t.Add(time.Duration(d)*time.Second + 500*time.Millisecond).In(loc)
						l.States++
						l.Execs++
						l.Transitions++
						l.Nontrivial++
						c := caseT{Major: "v1", Base: base, Time: tt.Format(time.RFC3339Nano), Rev: "abcdef123456", Zone: zones[zi]}
						if base == "" {
							c.Major = ""
						}
						pv, msg := one(c.Major, base, tt, c.Rev)
						if msg == "" && prev != "" && semver.Compare(prev, pv) >= 0 {
							msg = fmt.Sprintf("one second later gives %q, not above %q", pv, prev)
						}
						if msg == "" && pv != module.PseudoVersion(c.Major, base, tt.UTC(), c.Rev) {
							msg = fmt.Sprintf("the same instant gives %q in zone %s and %q in UTC", pv, zones[zi], module.PseudoVersion(c.Major, base, tt.UTC(), c.Rev))
						}
						if msg != "" {
							r.Violation(fmt.Sprintf("zone:%s:%s:%s", zones[zi], base, c.Time), msg, c)
							break
						}
						prev = pv
					}
				}
			}
		}
	})
}

func Replay(r *fw.Run, raw json.RawMessage) {
	oldLocal := time.Local
	time.Local = time.FixedZone("VerifLocal", -(7*3600 + 1800)) // as in Run
	defer func() { time.Local = oldLocal }()
	var c caseT
	json.Unmarshal(raw, &c)
	t, err := time.Parse(time.RFC3339Nano, c.Time)
	if err != nil {
		r.Violation("replay", "bad time "+strconv.Quote(c.Time), c)
		return
	}
	if c.Zone != "" {
		loc, err := time.LoadLocation(c.Zone)
		if err != nil {
			r.Violation("replay", "zone "+c.Zone+": "+err.Error(), c)
			return
		}
		t = t.In(loc)
		if pz, pu := module.PseudoVersion(c.Major, c.Base, t, c.Rev), module.PseudoVersion(c.Major, c.Base, t.UTC(), c.Rev); pz != pu {
			r.Violation("zone", fmt.Sprintf("the same instant gives %q in zone %s and %q in UTC", pz, c.Zone, pu), c)
		}
	}
	r.States.Add(1)
	r.Transitions.Add(1)
	r.Execs.Add(1)
	r.Sample(c)
	pv, msg := one(c.Major, c.Base, t, c.Rev)
	if msg != "" {
		r.Violation("one", msg, c)
	}
	if c.Time2 != "" {
		t2, _ := time.Parse(time.RFC3339Nano, c.Time2)
		pv2, _ := one(c.Major, c.Base, t2, c.Rev2)
		if semver.Compare(pv, pv2) >= 0 {
			r.Violation("mono", fmt.Sprintf("%q !< %q", pv, pv2), c)
		}
	}
}
