package modedit

import (
	"crypto/sha256"
	"fmt"
	"strings"
	"sync"

	"verif/internal/fw"
)

// Case identifies one explored history (replayable).
type Case struct {
	Work    bool   `json:"go_work"`
	Seed    string `json:"seed_text"`
	SeedIdx int    `json:"seed_index"`
	Hist    []Op   `json:"history"`
	Next    *Op    `json:"next_op,omitempty"`
	Check   string `json:"check"`
}

func (c Case) Key() string {
	k := fmt.Sprintf("%s:work=%v:seed%d:%s", c.Check, c.Work, c.SeedIdx, HistString(c.Hist))
	if c.Next != nil {
		k += "+" + c.Next.String()
	}
	return k
}

// Checker evaluates invariants in every state and (optionally) on every transition.
type Checker interface {
	// State is called once per distinct canonical state; hist reaches it from the seed.
	State(c Case) (msg string, nontrivial bool)
	// Transition is called for every (state, op) pair before the successor is built.
	Transition(c Case) (msg string)
	// KeyExtra is hashed into the canonical state key: everything the oracle depends on beyond the
	// implementation state (e.g. the reference model's state). Two histories are merged only when the
	// implementation state AND this value coincide.
	KeyExtra(c Case) string
}

func stateKey(d *Doc, extra string) [16]byte {
	h := sha256.New()
	h.Write([]byte(extra))
	h.Write([]byte{0})
	h.Write([]byte(d.Format()))
	h.Write([]byte{0})
	h.Write([]byte(strings.Join(d.TypedDump(), "\n")))
	h.Write([]byte{0})
	h.Write([]byte(strings.Join(d.Liveness(), "\n")))
	var k [16]byte
	copy(k[:], h.Sum(nil))
	return k
}

// Explore runs a breadth-first search over operation histories from every seed up to depth.
func Explore(r *fw.Run, work bool, seeds []string, ops []Op, depth int, chk Checker) {
	type job struct {
		seed int
		op   int // first operation (work is split per (seed, first op) for balance); -1 = the seed state itself
	}
	var jobs []job
	for s := range seeds {
		jobs = append(jobs, job{s, -1})
		for o := range ops {
			jobs = append(jobs, job{s, o})
		}
	}
	// states are deduplicated per seed across jobs
	seen := make([]map[[16]byte]bool, len(seeds))
	var mus = make([]sync.Mutex, len(seeds))
	for i := range seen {
		seen[i] = map[[16]byte]bool{}
	}
	visit := func(s int, k [16]byte) bool {
		mus[s].Lock()
		defer mus[s].Unlock()
		if seen[s][k] {
			return false
		}
		seen[s][k] = true
		return true
	}
	fw.Parallel(len(jobs), func(i int) {
		j := jobs[i]
		l := fw.NewLocal()
		defer r.Merge(l)
		seed := seeds[j.seed]
		var frontier [][]Op
		if j.op < 0 {
			frontier = [][]Op{nil}
		} else {
			frontier = [][]Op{{ops[j.op]}}
		}
		first := true
		for d := len(frontier[0]); d <= depth && len(frontier) > 0; d++ {
			var next [][]Op
			for _, hist := range frontier {
				if r.Failed() {
					return
				}
				doc, err := Replay(work, seed, hist)
				c := Case{Work: work, Seed: seed, SeedIdx: j.seed, Hist: hist}
				if err != nil {
					c.Check = "panic"
					r.Violation(c.Key(), fmt.Sprintf("operation panicked or seed invalid: %v (history %s)", err, HistString(hist)), c)
					continue
				}
				l.Execs++
				if !visit(j.seed, stateKey(doc, chk.KeyExtra(c))) {
					l.Outcomes["duplicate-state"]++
					continue
				}
				l.States++
				msg, nt := chk.State(c)
				l.Execs++
				if nt {
					l.Nontrivial++
				}
				if msg != "" {
					c.Check = "state"
					l.Outcomes["state:VIOLATION"]++
					report(r, c, msg)
				} else {
					l.Outcomes["state:ok"]++
				}
				if j.op < 0 && first {
					// the seed job only checks the seed state and its outgoing transitions' differential
					first = false
				}
				if d == depth {
					continue
				}
				for k := range ops {
					o := ops[k]
					l.Transitions++
					tc := c
					tc.Next = &o
					if m := chk.Transition(tc); m != "" {
						tc.Check = "transition"
						l.Outcomes["transition:VIOLATION"]++
						r.Violation(tc.Key(), m, tc)
					}
					if j.op < 0 {
						continue // successors of the seed state are explored by the per-op jobs
					}
					next = append(next, append(append([]Op(nil), hist...), o))
				}
			}
			frontier = next
		}
	})
}

// ArgAlphabet are the pieces directory arguments are built from in ArgSweep: letters of one, two and three
// bytes, every character the go.mod lexer treats specially, white space (ASCII and not), control and
// invalid bytes. (No backslash: the parser refuses a replacement directory that contains one as a Windows
// path on other systems, so such an argument is not a valid one.)
var ArgAlphabet = []string{"a", "é", "日", " ", " ", "\"", "'", "`", "(", ")", "[", "]", "{", "}", ",", "/", "*", "\t", "\n", "\x01", "\x7f", "\xff", "=", ">", ";"}

// ArgSweep checks the state invariant after ONE operation whose directory argument is every string over
// ArgAlphabet up to maxLen pieces (behind "../" and "./"): AddReplace in a go.mod file, AddUse in a go.work
// file. The history space is one operation deep; the dimension explored is the spelling of the argument
// (what must be quoted when written, and comes back when read).
func ArgSweep(r *fw.Run, chk Checker, maxLen int) {
	var args []string
	var rec func(cur string, n int)
	rec = func(cur string, n int) {
		if n > 0 {
			args = append(args, cur)
		}
		if n == maxLen {
			return
		}
		for _, a := range ArgAlphabet {
			rec(cur+a, n+1)
		}
	}
	rec("", 0)
	// a use directory may contain backslashes (go.work files travel between systems): the same sweep with
	// the backslash as one more piece, for AddUse only
	nMod := len(args)
	{
		var rec2 func(cur string, n int, has bool)
		rec2 = func(cur string, n int, has bool) {
			if n > 0 && has {
				args = append(args, cur)
			}
			if n == maxLen {
				return
			}
			for _, a := range ArgAlphabet {
				rec2(cur+a, n+1, has)
			}
			rec2(cur+"\\", n+1, true)
		}
		rec2("", 0, false)
	}
	r.Bounds["argument_sweep_backslash"] = fmt.Sprintf("%d further AddUse arguments that contain a backslash", len(args)-nMod)
	r.Bounds["argument_sweep"] = fmt.Sprintf("%d directory arguments (<= %d pieces of %d) x {AddReplace on 2 go.mod seeds, AddUse on a go.work seed}", nMod, maxLen, len(ArgAlphabet))
	modSeeds := []string{"module example.com/m\n", "module example.com/m\n\ngo 1.21\n\nreplace (\n\tb.com/y => ../y\n\tc.com/z v1.0.0 => ../z\n)\n"}
	workSeed := "go 1.21\n\nuse ./a\n"
	fw.Parallel(16, func(sh int) {
		l := fw.NewLocal()
		defer r.Merge(l)
		for i := sh; i < len(args); i += 16 {
			var cases []Case
			for si, seed := range modSeeds {
				if i >= nMod {
					break
				}
				cases = append(cases, Case{Work: false, Seed: seed, SeedIdx: 100 + si, Hist: []Op{{Kind: "AddReplace", A: []string{"a.com/x", "", "../" + args[i], ""}}}, Check: "state"})
			}
			cases = append(cases, Case{Work: true, Seed: workSeed, SeedIdx: 100, Hist: []Op{{Kind: "AddUse", A: []string{"./" + args[i], ""}}}, Check: "state"})
			for _, c := range cases {
				if _, err := Replay(c.Work, c.Seed, c.Hist); err != nil {
					c.Check = "panic"
					r.Violation(c.Key(), fmt.Sprintf("operation panicked: %v (history %s)", err, HistString(c.Hist)), c)
					continue
				}
				l.States++
				l.Execs += 2
				l.Transitions++
				msg, nt := chk.State(c)
				if nt {
					l.Nontrivial++
				}
				if msg != "" {
					l.Outcomes["argument-sweep:VIOLATION"]++
					report(r, c, msg)
				} else {
					l.Outcomes["argument-sweep:ok"]++
				}
			}
		}
	})
}

// report files a violation; a message that starts with "class:<name>|" belongs to a recorded finding class
// and is filed under the class key (KNOWN-FINDING if listed in known_findings.txt, a violation otherwise).
func report(r *fw.Run, c Case, msg string) {
	if cls, rest, ok := strings.Cut(msg, "|"); ok && strings.HasPrefix(cls, "class:") {
		r.Violation(cls, rest, c)
		return
	}
	r.Violation(c.Key(), msg, c)
}

// Report is report for the property packages (replay).
func Report(r *fw.Run, c Case, msg string) { report(r, c, msg) }
