package modedit

import (
	"fmt"
	"sort"
	"strings"
)

// Model is the boring reference: keyed collections updated as each operation documents.
// It shares no code with /repo; its initial value is read from a strict parse of the seed.
type Model struct {
	Module     string
	Deprecated string
	HasModule  bool
	Go, TC     string // "" = absent
	Godebug    [][2]string
	Require    []MReq
	Exclude    [][2]string // path, version
	Replace    []MRep
	Retract    []MRet
	Tool       []string
	Use        []string
	Touched    map[string]bool // keys of directives targeted by some operation
}

type MReq struct {
	Path, Vers string
	Indirect   bool
}
type MRep struct{ OP, OV, NP, NV string }
type MRet struct{ Low, High, Rationale string }

// NewModel reads the typed lists of a parsed seed.
func NewModel(d *Doc) *Model {
	m := &Model{Touched: map[string]bool{}}
	if d.Work {
		w := d.W
		if w.Go != nil {
			m.Go = w.Go.Version
		}
		if w.Toolchain != nil {
			m.TC = w.Toolchain.Name
		}
		for _, g := range w.Godebug {
			m.Godebug = append(m.Godebug, [2]string{g.Key, g.Value})
		}
		for _, u := range w.Use {
			m.Use = append(m.Use, u.Path)
		}
		for _, r := range w.Replace {
			m.Replace = append(m.Replace, MRep{r.Old.Path, r.Old.Version, r.New.Path, r.New.Version})
		}
		return m
	}
	f := d.F
	if f.Module != nil {
		m.HasModule, m.Module, m.Deprecated = true, f.Module.Mod.Path, f.Module.Deprecated
	}
	if f.Go != nil {
		m.Go = f.Go.Version
	}
	if f.Toolchain != nil {
		m.TC = f.Toolchain.Name
	}
	for _, g := range f.Godebug {
		m.Godebug = append(m.Godebug, [2]string{g.Key, g.Value})
	}
	for _, r := range f.Require {
		m.Require = append(m.Require, MReq{r.Mod.Path, r.Mod.Version, r.Indirect})
	}
	for _, x := range f.Exclude {
		m.Exclude = append(m.Exclude, [2]string{x.Mod.Path, x.Mod.Version})
	}
	for _, r := range f.Replace {
		m.Replace = append(m.Replace, MRep{r.Old.Path, r.Old.Version, r.New.Path, r.New.Version})
	}
	for _, r := range f.Retract {
		m.Retract = append(m.Retract, MRet{r.Low, r.High, r.Rationale})
	}
	for _, t := range f.Tool {
		m.Tool = append(m.Tool, t.Path)
	}
	return m
}

func (m *Model) dedupe() {
	// documented de-duplication: exclude and tool keep the first, replace keeps the last
	seenX := map[[2]string]bool{}
	var ex [][2]string
	for _, x := range m.Exclude {
		if !seenX[x] {
			seenX[x] = true
			ex = append(ex, x)
		}
	}
	m.Exclude = ex
	seenR := map[[2]string]bool{}
	var rp []MRep
	for i := len(m.Replace) - 1; i >= 0; i-- {
		k := [2]string{m.Replace[i].OP, m.Replace[i].OV}
		if !seenR[k] {
			seenR[k] = true
			rp = append([]MRep{m.Replace[i]}, rp...)
		}
	}
	m.Replace = rp
	seenT := map[string]bool{}
	var tl []string
	for _, t := range m.Tool {
		if !seenT[t] {
			seenT[t] = true
			tl = append(tl, t)
		}
	}
	m.Tool = tl
}

func (m *Model) setRequire(spec string) {
	m.Touched["require:*"] = true
	m.Require = nil
	if spec != "" {
		for _, s := range strings.Split(spec, ",") {
			ind := strings.HasSuffix(s, "!")
			s = strings.TrimSuffix(s, "!")
			p, v, _ := strings.Cut(s, "@")
			m.Require = append(m.Require, MReq{p, v, ind})
		}
	}
	m.dedupe()
}

// Apply updates the model for one operation (arguments are valid by construction).
func (m *Model) Apply(work bool, o Op) {
	a := func(i int) string {
		if i < len(o.A) {
			return o.A[i]
		}
		return ""
	}
	switch o.Kind {
	case "Cleanup", "AddComment": // a comment block of its own says nothing about any directive
	case "SortBlocks":
		m.dedupe()
	case "AddModuleStmt":
		m.Touched["module"] = true
		if !m.HasModule {
			m.Deprecated = ""
		}
		m.HasModule, m.Module = true, a(0)
	case "AddGoStmt":
		m.Touched["go"] = true
		m.Go = a(0)
	case "DropGoStmt":
		m.Touched["go"] = true
		m.Go = ""
	case "AddToolchainStmt":
		m.Touched["toolchain"] = true
		m.TC = a(0)
	case "DropToolchainStmt":
		m.Touched["toolchain"] = true
		m.TC = ""
	case "AddGodebug":
		m.Touched["godebug:"+a(0)] = true
		var out [][2]string
		done := false
		for _, g := range m.Godebug {
			if g[0] == a(0) {
				if !done {
					out = append(out, [2]string{a(0), a(1)})
					done = true
				}
				continue
			}
			out = append(out, g)
		}
		if !done {
			out = append(out, [2]string{a(0), a(1)})
		}
		m.Godebug = out
	case "DropGodebug":
		m.Touched["godebug:"+a(0)] = true
		var out [][2]string
		for _, g := range m.Godebug {
			if g[0] != a(0) {
				out = append(out, g)
			}
		}
		m.Godebug = out
	case "AddRequire":
		m.Touched["require:"+a(0)] = true
		var out []MReq
		done := false
		for _, r := range m.Require {
			if r.Path == a(0) {
				if !done {
					out = append(out, MReq{a(0), a(1), r.Indirect})
					done = true
				}
				continue
			}
			out = append(out, r)
		}
		if !done {
			out = append(out, MReq{a(0), a(1), false})
		}
		m.Require = out
	case "AddNewRequire":
		m.Touched["require:"+a(0)] = true
		m.Require = append(m.Require, MReq{a(0), a(1), a(2) == "indirect"})
	case "DropRequire":
		m.Touched["require:"+a(0)] = true
		var out []MReq
		for _, r := range m.Require {
			if r.Path != a(0) {
				out = append(out, r)
			}
		}
		m.Require = out
	case "SetRequire", "SetRequireSeparateIndirect":
		m.setRequire(a(0))
	case "AddExclude":
		m.Touched["exclude:"+a(0)+"@"+a(1)] = true
		for _, x := range m.Exclude {
			if x == [2]string{a(0), a(1)} {
				return
			}
		}
		m.Exclude = append(m.Exclude, [2]string{a(0), a(1)})
	case "DropExclude":
		m.Touched["exclude:"+a(0)+"@"+a(1)] = true
		var out [][2]string
		for _, x := range m.Exclude {
			if x != [2]string{a(0), a(1)} {
				out = append(out, x)
			}
		}
		m.Exclude = out
	case "AddReplace":
		m.Touched["replace:"+a(0)] = true
		var out []MRep
		done := false
		for _, r := range m.Replace {
			if r.OP == a(0) && (a(1) == "" || r.OV == a(1)) {
				if !done {
					out = append(out, MRep{a(0), a(1), a(2), a(3)})
					done = true
				}
				continue
			}
			out = append(out, r)
		}
		if !done {
			out = append(out, MRep{a(0), a(1), a(2), a(3)})
		}
		m.Replace = out
	case "DropReplace":
		m.Touched["replace:"+a(0)] = true
		var out []MRep
		for _, r := range m.Replace {
			if !(r.OP == a(0) && r.OV == a(1)) {
				out = append(out, r)
			}
		}
		m.Replace = out
	case "AddRetract":
		m.Touched["retract:"+a(0)+","+a(1)] = true
		m.Retract = append(m.Retract, MRet{a(0), a(1), a(2)})
	case "DropRetract":
		m.Touched["retract:"+a(0)+","+a(1)] = true
		var out []MRet
		for _, r := range m.Retract {
			if !(r.Low == a(0) && r.High == a(1)) {
				out = append(out, r)
			}
		}
		m.Retract = out
	case "AddTool":
		m.Touched["tool:"+a(0)] = true
		found := false
		for _, t := range m.Tool {
			if t == a(0) {
				found = true
			}
		}
		if !found {
			m.Tool = append(m.Tool, a(0))
			m.dedupe() // AddTool sorts (and de-duplicates) blocks when it adds a line
		}
	case "DropTool":
		m.Touched["tool:"+a(0)] = true
		var out []string
		for _, t := range m.Tool {
			if t != a(0) {
				out = append(out, t)
			}
		}
		m.Tool = out
	case "AddUse":
		m.Touched["use:"+a(0)] = true
		var out []string
		done := false
		for _, u := range m.Use {
			if u == a(0) {
				if !done {
					out = append(out, u)
					done = true
				}
				continue
			}
			out = append(out, u)
		}
		if !done {
			out = append(out, a(0))
		}
		m.Use = out
	case "AddNewUse":
		m.Touched["use:"+a(0)] = true
		m.Use = append(m.Use, a(0))
	case "DropUse":
		m.Touched["use:"+a(0)] = true
		var out []string
		for _, u := range m.Use {
			if u != a(0) {
				out = append(out, u)
			}
		}
		m.Use = out
	case "SetUse":
		m.Touched["use:*"] = true
		m.Use = nil
		if a(0) != "" {
			m.Use = strings.Split(a(0), ",")
		}
		m.dedupe()
	default:
		panic("model: unknown op " + o.Kind)
	}
}

// Dump renders the model in the same form as Doc.TypedDump.
func (m *Model) Dump(work bool) []string {
	var out []string
	add := func(s string) { out = append(out, s) }
	if m.HasModule {
		add("module " + m.Module + " deprecated=" + m.Deprecated)
	}
	if m.Go != "" {
		add("go " + m.Go)
	}
	if m.TC != "" {
		add("toolchain " + m.TC)
	}
	for _, g := range m.Godebug {
		add("godebug " + g[0] + "=" + g[1])
	}
	for _, r := range m.Require {
		add(fmt.Sprintf("require %s@%s indirect=%v", r.Path, r.Vers, r.Indirect))
	}
	for _, x := range m.Exclude {
		add("exclude " + x[0] + "@" + x[1])
	}
	for _, r := range m.Replace {
		add("replace " + r.OP + "@" + r.OV + " => " + r.NP + "@" + r.NV)
	}
	for _, r := range m.Retract {
		add(fmt.Sprintf("retract [%s,%s] rationale=%q", r.Low, r.High, r.Rationale))
	}
	for _, t := range m.Tool {
		add("tool " + t)
	}
	for _, u := range m.Use {
		add("use " + u)
	}
	sort.Strings(out)
	return out
}
