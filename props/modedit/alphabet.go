package modedit

import "fmt"

// ModSeeds are the well-formed starting go.mod files: every directive kind as single line and
// as block, duplicates, commented blocks, mixed forms. Every directive line carries unique
// marker comments (// b<k> before, // s<k> at end of line) used by the comment-survival oracle.
var ModSeeds = []string{
	// 0: minimal
	"module example.com/m\n",
	// 1: typical single lines
	"module example.com/m\n\ngo 1.20\n\nrequire a.com/x v1.0.0 // s1\n",
	// 2: blocks
	"module example.com/m\n\ngo 1.21\n\ntoolchain go1.21.0\n\nrequire (\n\t// b1\n\ta.com/x v1.0.0 // s1\n\t// b2\n\tb.com/y v1.1.0 // s2\n)\n",
	// 3: duplicate requires, line + block
	"module example.com/m\n\nrequire a.com/x v1.0.0 // s1\n\nrequire (\n\ta.com/x v1.1.0 // s2\n\tb.com/y v1.0.0 // indirect\n)\n",
	// 4: excludes with duplicate
	"module example.com/m\n\ngo 1.21\n\nexclude a.com/x v1.0.0 // s1\n\nexclude (\n\ta.com/x v1.0.0 // s2\n\ta.com/x v1.1.0 // s3\n\tb.com/y v1.0.0\n)\n",
	// 5: replaces, wildcard + versioned + dir target, duplicate
	"module example.com/m\n\nreplace a.com/x v1.0.0 => c.com/z v1.2.0 // s1\n\nreplace (\n\ta.com/x => ../x // s2\n\tb.com/y v1.0.0 => \"../dir with space\" // s3\n\ta.com/x v1.0.0 => c.com/z v1.3.0 // s4\n)\n",
	// 6: retracts with rationale
	"module example.com/m\n\ngo 1.20\n\n// bad release\nretract v1.0.0 // s1\n\nretract (\n\t// range\n\t[v1.0.0, v1.1.0] // s2\n\tv1.1.0\n)\n",
	// 7: tools and godebug
	"module example.com/m\n\ngo 1.21\n\ngodebug panicnil=1 // s1\n\ngodebug (\n\tasynctimerchan=0 // s2\n\tpanicnil=0 // s3\n)\n\ntool a.com/x/cmd // s4\n\ntool (\n\tb.com/y/cmd // s5\n\ta.com/x/cmd // s6\n)\n",
	// 8: commented block, direct/indirect mixed
	"module example.com/m\n\ngo 1.20\n\n// the requirements\nrequire (\n\ta.com/x v1.0.0 // indirect; s1\n\tb.com/y v1.0.0 // s2\n\ta.com/x/v2 v2.0.0 // indirect\n)\n",
	// 9: everything, single-line forms
	"// Deprecated: use n\nmodule example.com/m\n\ngo 1.21\n\ntoolchain go1.22.1\n\ngodebug panicnil=1\n\nrequire a.com/x v1.0.0\n\nexclude b.com/y v1.0.0\n\nreplace b.com/y => ../y\n\nretract v1.1.0 // oops\n\ntool a.com/x/cmd\n",
	// 10: two require blocks direct/indirect
	"module example.com/m\n\ngo 1.20\n\nrequire (\n\ta.com/x v1.0.0 // s1\n)\n\nrequire (\n\tb.com/y v1.0.0 // indirect\n)\n",
	// 11: no module statement
	"go 1.20\n\nrequire a.com/x v1.0.0\n",
	// 12: one-line blocks
	"module example.com/m\n\nrequire (\n\ta.com/x v1.0.0 // s1\n)\n\nexclude (\n\ta.com/x v1.1.0 // s2\n)\n\nreplace (\n\ta.com/x v1.1.0 => c.com/z v1.2.0 // s3\n)\n",
	// 13: same require three times
	"module example.com/m\n\nrequire (\n\ta.com/x v1.0.0 // s1\n\ta.com/x v1.0.0 // s2\n\ta.com/x v1.1.0 // s3\n)\n",
	// 14: block comments and trailing comments
	"module example.com/m // s0\n\n// before go\ngo 1.20 // s1\n\n// before block\nrequire ( // on lparen\n\t// b1\n\ta.com/x v1.0.0 // s2\n) // on rparen\n\n// trailing comment\n",
	// 16: module paths that are spelled like directive keywords
	"module example.com/m\n\ngo 1.20\n\nrequire (\n\trequire v1.0.0 // s1\n\texclude v1.1.0 // s2\n)\n\nexclude (\n\texclude v1.0.0 // s3\n\trequire v1.1.0\n)\n\nreplace require => ../require // s4\n\nreplace (\n\treplace v1.0.0 => module v1.2.0 // s5\n)\n",
	// 15: blank lines inside blocks, followed by leading comments of the next line
	"module example.com/m\n\ngo 1.20\n\nrequire (\n\ta.com/x v1.0.0 // s1\n\n\t// b2\n\tb.com/y v1.1.0 // s2\n\n\t// b3\n\t// b3b\n\ta.com/x/v2 v2.0.0 // s3\n)\n\nexclude (\n\ta.com/x v1.0.0 // s4\n\n\t// b5\n\ta.com/x v1.1.0 // s5\n)\n",
	// 19: indirect markers spelled without the usual single space (all recognised by the parser)
	"module example.com/m\n\ngo 1.20\n\nrequire (\n\ta.com/x v1.0.0 //indirect; s1\n\tb.com/y v1.0.0 //\tindirect;\ts2\n\ta.com/x/v2 v2.0.0 //  indirect\n)\n",
	// 20: the module directive in block form
	"module (\n\texample.com/m // s0\n)\n\nrequire a.com/x v1.0.0 // s1\n",
	// 17: duplicates spread over single lines and one-line or empty blocks (a sort removes whole blocks)
	"module example.com/m\n\ngo 1.20\n\nexclude a.com/x v1.0.0\n\nexclude (\n\ta.com/x v1.0.0\n)\n\nexclude a.com/x v1.0.0 // s1\n\nreplace a.com/x => ../x1\n\nreplace (\n\ta.com/x => ../x2\n)\n\nreplace a.com/x => ../x3 // s2\n",
	// 18: the same with empty blocks in between and tools
	"module example.com/m\n\ngo 1.21\n\ntool a.com/x/cmd\n\ntool (\n\ta.com/x/cmd\n)\n\ntool a.com/x/cmd // s1\n\nexclude b.com/y v1.0.0\n\nexclude ()\n\nexclude b.com/y v1.0.0\n\nrequire ()\n\nexclude b.com/y v1.0.0 // s2\n",
	// something in front of the closing parenthesis: a comment line, a blank line (such a block is never
	// collapsed into a single line)
	"module example.com/m\n\nrequire (\n\ta.com/x v1.0.0 // s1\n\tb.com/y v1.0.0 // s2\n\t// end of requirements\n)\n\nexclude (\n\ta.com/x v1.1.0\n\tb.com/y v1.1.0\n\n)\n",
	"module example.com/m\n\ngo 1.21\n\nreplace (\n\ta.com/x => ../x // s1\n\tb.com/y v1.0.0 => c.com/z v1.2.0\n\t// end\n)\n\nretract (\n\tv1.0.0 // s2\n\tv1.1.0 // s3\n\n\t// no more\n)\n\ntool (\n\ta.com/x/cmd\n\tb.com/y/cmd\n\t// tools end\n)\n",
}

// ModSeedsTypedOnly are further go.mod seeds for the typed-structure-versus-file check (C15) only: a
// retract block that carries a comment of its own, which is the rationale of the lines that have none.
// The set/map model of C08 does not define how a block comment is inherited, so C08 leaves them out.
var ModSeedsTypedOnly = []string{
	// several comment paragraphs (two blank lines) above a line that is not the first of its block
	"module example.com/m\n\n// top\nretract (\n\tv1.0.0\n\n\t// a\n\n\t// b\n\tv1.1.0\n)\n\n// Deprecated: old\nmodule2 x\n"[:0] + "module example.com/m\n\n// top\nretract (\n\tv1.0.0\n\n\t// a\n\n\t// b\n\tv1.1.0\n)\n",
	"// one\nmodule (\n\n\t// Deprecated: two\n\n\t// three\n\texample.com/m\n)\n\nretract (\n\t// x\n\n\n\t// y\n\tv1.0.0 // z\n)\n",
	// comment, blank line, directive inside blocks
	"module example.com/m\n\n// block\nretract (\n\t// p1\n\n\t// p2\n\tv1.0.0\n\n\tv1.1.0 // s\n)\n\nrequire (\n\t// c1\n\n\ta.com/x v1.0.0\n)\n",
	// a module block whose comment and whose line's comment both speak about deprecation
	"// Deprecated: use other.example/m\nmodule (\n\t// own\n\texample.com/m\n)\n",
	"module (\n\texample.com/m // own\n) // Deprecated: gone\n\nrequire a.com/x v1.0.0\n",
	// an empty block that carries an end-of-line comment of its own
	"module example.com/m\n\nrequire () // indirect\n",
	"module example.com/m\n\ngo 1.21\n\nrequire ( // indirect\n)\n\nexclude () // s9\n",
	// a commented retract block with a blank line between its entries
	"module example.com/m\n\n// bad\nretract (\n\tv1.0.0\n\n\tv1.1.0\n\tv1.2.0\n)\n",
	// directives that are usually single lines, in block form (the syntax allows it)
	"module (\n\texample.com/m\n)\n",
	"module (\n\texample.com/m // s0\n)\n\nrequire a.com/x v1.0.0\n",
	"module (\n\texample.com/m\n)\n\ngodebug (\n\tpanicnil=1\n)\n",
	"module example.com/m\n\ngo 1.20\n\n// all bad\nretract (\n\tv1.0.0 // own\n\tv1.1.0\n)\n",
	"module example.com/m\n\n// published by mistake\nretract (\n\t[v1.0.0, v1.1.0]\n\tv1.3.0\n)\n\nretract v1.4.0 // s1\n",
}

// WorkSeeds are the starting go.work files.
var WorkSeeds = []string{
	"go 1.20\n",
	"go 1.21\n\nuse ./a // s1\n",
	"go 1.21\n\ntoolchain go1.21.0\n\nuse (\n\t// b1\n\t./a // s1\n\t./b // s2\n)\n",
	"go 1.20\n\nuse ./a // s1\n\nuse (\n\t./a // s2\n\t\"./dir with space\" // s3\n)\n",
	"go 1.21\n\ngodebug panicnil=1 // s1\n\ngodebug (\n\tasynctimerchan=0\n\tpanicnil=0 // s2\n)\n\nuse ./a\n",
	"go 1.20\n\nuse ./a\n\nreplace a.com/x v1.0.0 => c.com/z v1.2.0 // s1\n\nreplace (\n\ta.com/x => ../x // s2\n\ta.com/x v1.0.0 => c.com/z v1.3.0 // s3\n)\n",
	"use ./a\n",
	// something in front of the closing parenthesis: a comment line, a blank line
	"go 1.21\n\nuse (\n\t./a // s1\n\t./b // s2\n\t// more to come\n)\n",
	"go 1.21\n\nuse (\n\t./a\n\t./b\n\n)\n\nreplace (\n\ta.com/x => ../x\n\tb.com/y => ../y\n\t// end\n)\n",
}

// ModOps is the operation alphabet for go.mod (all arguments valid).
// UncleanedSetterOps are the bulk setters called without a Cleanup before them (C15 only: the C08 property
// stipulates the Cleanup).
func UncleanedSetterOps(work bool) []Op {
	if work {
		return []Op{{Kind: "SetUseUncleaned", A: []string{"./a,./c"}}, {Kind: "SetUseUncleaned", A: []string{""}}}
	}
	var out []Op
	for _, k := range []string{"SetRequireUncleaned", "SetRequireSeparateIndirectUncleaned"} {
		out = append(out, Op{Kind: k, A: []string{"a.com/x@v1.1.0"}}, Op{Kind: k, A: []string{"a.com/x@v1.0.0!,b.com/y@v1.1.0"}}, Op{Kind: k, A: []string{""}})
	}
	return out
}

func ModOps(full bool) []Op {
	var ops []Op
	add := func(kind string, a ...string) { ops = append(ops, Op{kind, a}) }
	add("Cleanup")
	add("SortBlocks")
	add("AddModuleStmt", "example.com/n")
	for _, v := range []string{"1.20", "1.21"} {
		add("AddGoStmt", v)
	}
	add("DropGoStmt")
	add("AddToolchainStmt", "go1.21.0")
	if full {
		add("AddToolchainStmt", "go1.22.1")
	}
	add("DropToolchainStmt")
	add("AddGodebug", "tlsprofile", "min=1.2") // a value that contains the separator again
	for _, k := range []string{"panicnil", "asynctimerchan"} {
		for _, v := range []string{"0", "1"} {
			if full || v == "1" || k == "panicnil" {
				add("AddGodebug", k, v)
			}
		}
		add("DropGodebug", k)
	}
	paths := []string{"a.com/x", "b.com/y"}
	vers := []string{"v1.0.0", "v1.1.0"}
	for _, p := range paths {
		for _, v := range vers {
			add("AddRequire", p, v)
			add("AddExclude", p, v)
			add("DropExclude", p, v)
		}
		add("AddNewRequire", p, "v1.0.0", "indirect")
		if full {
			add("AddNewRequire", p, "v1.1.0", "direct")
		}
		add("DropRequire", p)
	}
	add("AddRequire", "a.com/x/v2", "v2.0.0")
	add("DropRequire", "a.com/x/v2")
	// directory paths with white space that is not ASCII (must be written quoted)
	add("AddReplace", "a.com/x", "", "../dir\u00a0x", "")
	if full {
		add("AddReplace", "b.com/y", "v1.0.0", "../dir\u3000y", "")
	}
	// paths spelled like keywords
	add("AddRequire", "require", "v1.1.0")
	add("DropRequire", "require")
	add("AddExclude", "exclude", "v1.1.0")
	add("AddReplace", "replace", "", "../replace", "")
	if full {
		add("AddRequire", "exclude", "v1.0.0")
		add("DropExclude", "exclude", "v1.0.0")
		add("DropReplace", "replace", "v1.0.0")
	}
	// versions with build metadata that is part of the canonical form
	add("AddExclude", "b.com/y", "v2.0.0+incompatible")
	add("DropExclude", "b.com/y", "v2.0.0+incompatible")
	add("AddRequire", "b.com/y", "v2.0.0+incompatible")
	add("AddRetract", "v2.0.0+incompatible", "v2.0.0+incompatible", "wrong major")
	add("DropRetract", "v2.0.0+incompatible", "v2.0.0+incompatible")
	// two canonical versions of one path that are equal as versions and different as keys (round 32)
	add("AddExclude", "a.com/x", "v1.0.0+incompatible")
	if full {
		add("DropExclude", "a.com/x", "v1.0.0+incompatible")
	}
	// an interval whose bounds are equal as versions and different as strings (both canonical)
	add("AddRetract", "v1.4.0", "v1.4.0+incompatible", "equal as versions")
	add("DropRetract", "v1.4.0", "v1.4.0+incompatible")
	if full {
		add("AddReplace", "b.com/y", "v2.0.0+incompatible", "c.com/z", "v1.2.0")
		add("DropReplace", "b.com/y", "v2.0.0+incompatible")
	}
	for _, p := range paths {
		for _, ov := range []string{"", "v1.0.0"} {
			add("AddReplace", p, ov, "c.com/z", "v1.2.0")
			if full || p == "a.com/x" {
				add("AddReplace", p, ov, "../dir with space", "")
			}
			if p == "b.com/y" && ov == "" {
				add("AddReplace", p, ov, "../it's \"here\"", "")
			}
			add("DropReplace", p, ov)
		}
	}
	// a free-standing comment block at the end of the file (whatever is added next comes after it); texts that
	// would mean something if they were attached to a directive
	add("AddComment", "// note")
	add("AddComment", "// Deprecated: use example.com/other")
	add("AddComment", "// indirect")
	add("AddRetract", "v1.0.0", "v1.0.0", "")
	add("AddRetract", "v1.1.0", "v1.1.0", "bad")
	add("AddRetract", "v1.0.0", "v1.1.0", "range is bad")
	// rationales of several lines and paragraphs
	add("AddRetract", "v1.2.0", "v1.2.0", "two\nlines")
	add("AddRetract", "v1.3.0", "v1.3.0", "first paragraph\n\nsecond paragraph")
	add("DropRetract", "v1.0.0", "v1.0.0")
	add("DropRetract", "v1.1.0", "v1.1.0")
	add("DropRetract", "v1.0.0", "v1.1.0")
	for _, t := range []string{"a.com/x/cmd", "b.com/y/cmd"} {
		add("AddTool", t)
		add("DropTool", t)
	}
	for _, k := range []string{"SetRequire", "SetRequireSeparateIndirect"} {
		add(k, "")
		add(k, "a.com/x@v1.1.0")
		add(k, "a.com/x@v1.0.0!,b.com/y@v1.1.0")
		add(k, "a.com/x@v1.1.0,b.com/y@v1.0.0,c.com/z@v1.0.0!")
		add(k, "require@v1.1.0,exclude@v1.1.0!")
		if full {
			add(k, "b.com/y@v1.0.0!,a.com/x/v2@v2.0.0")
		}
	}
	return ops
}

// WorkOps is the operation alphabet for go.work.
func WorkOps(full bool) []Op {
	var ops []Op
	add := func(kind string, a ...string) { ops = append(ops, Op{kind, a}) }
	add("Cleanup")
	add("SortBlocks")
	add("AddGoStmt", "1.20")
	add("AddGoStmt", "1.21")
	add("DropGoStmt")
	add("AddToolchainStmt", "go1.21.0")
	add("DropToolchainStmt")
	// values that contain the separator again, or nothing
	add("AddGodebug", "tlsprofile", "min=1.2")
	add("DropGodebug", "tlsprofile")
	for _, k := range []string{"panicnil", "asynctimerchan"} {
		add("AddGodebug", k, "1")
		if full || k == "panicnil" {
			add("AddGodebug", k, "0")
		}
		add("DropGodebug", k)
	}
	add("AddUse", "./it's", "")
	add("AddUse", "./a\u3000b", "")
	add("DropUse", "./a\u3000b")
	for _, u := range []string{"./a", "./b", "./dir with space"} {
		add("AddUse", u, "")
		add("AddNewUse", u, "")
		add("DropUse", u)
	}
	add("SetUse", "")
	add("SetUse", "./a")
	add("SetUse", "./b,./dir with space")
	add("SetUse", "./a,./b")
	for _, ov := range []string{"", "v1.0.0"} {
		add("AddReplace", "a.com/x", ov, "c.com/z", "v1.2.0")
		add("AddReplace", "a.com/x", ov, "../dir with space", "")
		add("DropReplace", "a.com/x", ov)
	}
	return ops
}

func HistString(h []Op) string {
	s := ""
	for i, o := range h {
		if i > 0 {
			s += "; "
		}
		s += o.String()
	}
	return fmt.Sprintf("[%s]", s)
}
