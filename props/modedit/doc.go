// Package modedit is engine E2: explicit-state exploration of sequences of real
// modfile.File / modfile.WorkFile edit operations. A state is represented by the
// operation history that reaches it (live File values cannot be cloned); a successor is
// built by replaying the history on a freshly parsed seed and applying one more operation.
package modedit

import (
	"fmt"
	"sort"
	"strings"

	"golang.org/x/mod/modfile"
	"golang.org/x/mod/module"
)

// Op is one edit operation with concrete arguments.
type Op struct {
	Kind string   `json:"op"`
	A    []string `json:"args,omitempty"`
}

func (o Op) String() string { return o.Kind + "(" + strings.Join(o.A, ", ") + ")" }

// Doc is a go.mod or go.work document under edit.
type Doc struct {
	Work bool
	F    *modfile.File
	W    *modfile.WorkFile
}

func Parse(work bool, text string) (*Doc, error) {
	if work {
		w, err := modfile.ParseWork("go.work", []byte(text), nil)
		if err != nil {
			return nil, err
		}
		return &Doc{Work: true, W: w}, nil
	}
	f, err := modfile.Parse("go.mod", []byte(text), nil)
	if err != nil {
		return nil, err
	}
	return &Doc{F: f}, nil
}

func (d *Doc) Syntax() *modfile.FileSyntax {
	if d.Work {
		return d.W.Syntax
	}
	return d.F.Syntax
}

func (d *Doc) Cleanup() {
	if d.Work {
		d.W.Cleanup()
	} else {
		d.F.Cleanup()
	}
}

func (d *Doc) Format() string { return string(modfile.Format(d.Syntax())) }

func reqs(spec string) []*modfile.Require {
	// "a.com/x@v1.0.0,b.com/y@v1.1.0!" ('!' suffix = indirect)
	var out []*modfile.Require
	if spec == "" {
		return out
	}
	for _, s := range strings.Split(spec, ",") {
		ind := strings.HasSuffix(s, "!")
		s = strings.TrimSuffix(s, "!")
		p, v, _ := strings.Cut(s, "@")
		out = append(out, &modfile.Require{Mod: module.Version{Path: p, Version: v}, Indirect: ind})
	}
	return out
}

func uses(spec string) []*modfile.Use {
	var out []*modfile.Use
	if spec == "" {
		return out
	}
	for _, s := range strings.Split(spec, ",") {
		out = append(out, &modfile.Use{Path: s})
	}
	return out
}

// Apply runs one operation on the real API. Panics are returned as errors with Panicked set.
func (d *Doc) Apply(o Op) (err error, panicked bool) {
	defer func() {
		if e := recover(); e != nil {
			err, panicked = fmt.Errorf("panic: %v", e), true
		}
	}()
	a := func(i int) string {
		if i < len(o.A) {
			return o.A[i]
		}
		return ""
	}
	if d.Work {
		w := d.W
		switch o.Kind {
		case "AddGoStmt":
			return w.AddGoStmt(a(0)), false
		case "DropGoStmt":
			w.DropGoStmt()
		case "AddToolchainStmt":
			return w.AddToolchainStmt(a(0)), false
		case "DropToolchainStmt":
			w.DropToolchainStmt()
		case "AddGodebug":
			return w.AddGodebug(a(0), a(1)), false
		case "DropGodebug":
			return w.DropGodebug(a(0)), false
		case "AddUse":
			return w.AddUse(a(0), a(1)), false
		case "AddNewUse":
			w.AddNewUse(a(0), a(1))
		case "DropUse":
			return w.DropUse(a(0)), false
		case "SetUse":
			w.Cleanup()
			w.SetUse(uses(a(0)))
		case "SetUseUncleaned":
			w.SetUse(uses(a(0)))
		case "AddReplace":
			return w.AddReplace(a(0), a(1), a(2), a(3)), false
		case "DropReplace":
			return w.DropReplace(a(0), a(1)), false
		case "SortBlocks":
			w.SortBlocks()
		case "Cleanup":
			w.Cleanup()
		default:
			panic("unknown work op " + o.Kind)
		}
		return nil, false
	}
	f := d.F
	switch o.Kind {
	case "AddModuleStmt":
		return f.AddModuleStmt(a(0)), false
	case "AddGoStmt":
		return f.AddGoStmt(a(0)), false
	case "DropGoStmt":
		f.DropGoStmt()
	case "AddToolchainStmt":
		return f.AddToolchainStmt(a(0)), false
	case "DropToolchainStmt":
		f.DropToolchainStmt()
	case "AddGodebug":
		return f.AddGodebug(a(0), a(1)), false
	case "DropGodebug":
		return f.DropGodebug(a(0)), false
	case "AddRequire":
		return f.AddRequire(a(0), a(1)), false
	case "AddNewRequire":
		f.AddNewRequire(a(0), a(1), a(2) == "indirect")
	case "DropRequire":
		return f.DropRequire(a(0)), false
	case "AddExclude":
		return f.AddExclude(a(0), a(1)), false
	case "DropExclude":
		return f.DropExclude(a(0), a(1)), false
	case "AddReplace":
		return f.AddReplace(a(0), a(1), a(2), a(3)), false
	case "DropReplace":
		return f.DropReplace(a(0), a(1)), false
	case "AddRetract":
		return f.AddRetract(modfile.VersionInterval{Low: a(0), High: a(1)}, a(2)), false
	case "DropRetract":
		return f.DropRetract(modfile.VersionInterval{Low: a(0), High: a(1)}), false
	case "AddComment":
		f.AddComment(a(0))
	case "AddTool":
		return f.AddTool(a(0)), false
	case "DropTool":
		return f.DropTool(a(0)), false
	case "SortBlocks":
		f.SortBlocks()
	case "Cleanup":
		f.Cleanup()
	case "SetRequire":
		f.Cleanup() // the property stipulates cleanup before bulk-set operations
		f.SetRequire(reqs(a(0)))
	case "SetRequireSeparateIndirect":
		f.Cleanup()
		f.SetRequireSeparateIndirect(reqs(a(0)))
	case "SetRequireUncleaned": // the bulk setters right after other edits, as a batch of edits would call them
		f.SetRequire(reqs(a(0)))
	case "SetRequireSeparateIndirectUncleaned":
		f.SetRequireSeparateIndirect(reqs(a(0)))
	default:
		panic("unknown op " + o.Kind)
	}
	return nil, false
}

// ---------------------------------------------------------------- dumps

func mv(m module.Version) string { return m.Path + "@" + m.Version }

// TypedDump renders the typed directive lists as a sorted multiset of strings. Cleared
// placeholder entries are rendered as "PLACEHOLDER <kind>".
func (d *Doc) TypedDump() []string {
	var out []string
	add := func(s string) { out = append(out, s) }
	godebug := func(gs []*modfile.Godebug) {
		for _, g := range gs {
			if g == nil || g.Key == "" {
				add("PLACEHOLDER godebug")
				continue
			}
			add("godebug " + g.Key + "=" + g.Value)
		}
	}
	replace := func(rs []*modfile.Replace) {
		for _, r := range rs {
			if r == nil || r.Old.Path == "" {
				add("PLACEHOLDER replace")
				continue
			}
			add("replace " + mv(r.Old) + " => " + mv(r.New))
		}
	}
	var g *modfile.Go
	var tc *modfile.Toolchain
	if d.Work {
		w := d.W
		g, tc = w.Go, w.Toolchain
		godebug(w.Godebug)
		replace(w.Replace)
		for _, u := range w.Use {
			if u == nil || u.Path == "" {
				add("PLACEHOLDER use")
				continue
			}
			add("use " + u.Path)
		}
	} else {
		f := d.F
		g, tc = f.Go, f.Toolchain
		if f.Module != nil {
			add("module " + f.Module.Mod.Path + " deprecated=" + f.Module.Deprecated)
		}
		godebug(f.Godebug)
		replace(f.Replace)
		for _, r := range f.Require {
			if r == nil || r.Mod.Path == "" {
				add("PLACEHOLDER require")
				continue
			}
			add(fmt.Sprintf("require %s indirect=%v", mv(r.Mod), r.Indirect))
		}
		for _, x := range f.Exclude {
			if x == nil || x.Mod.Path == "" {
				add("PLACEHOLDER exclude")
				continue
			}
			add("exclude " + mv(x.Mod))
		}
		for _, r := range f.Retract {
			if r == nil || (r.Low == "" && r.High == "") {
				add("PLACEHOLDER retract")
				continue
			}
			add(fmt.Sprintf("retract [%s,%s] rationale=%q", r.Low, r.High, r.Rationale))
		}
		for _, t := range f.Tool {
			if t == nil || t.Path == "" {
				add("PLACEHOLDER tool")
				continue
			}
			add("tool " + t.Path)
		}
	}
	if g != nil {
		add("go " + g.Version)
	}
	if tc != nil {
		add("toolchain " + tc.Name)
	}
	sort.Strings(out)
	return out
}

// Liveness reports typed entries whose Syntax is nil or not a line of the syntax tree.
func (d *Doc) Liveness() []string {
	live := map[*modfile.Line]bool{}
	for _, st := range d.Syntax().Stmt {
		switch st := st.(type) {
		case *modfile.Line:
			live[st] = true
		case *modfile.LineBlock:
			for _, l := range st.Line {
				live[l] = true
			}
		}
	}
	var bad []string
	chk := func(kind string, l *modfile.Line, placeholder bool) {
		if placeholder {
			return
		}
		if l == nil {
			bad = append(bad, kind+": Syntax is nil")
		} else if !live[l] {
			bad = append(bad, kind+": Syntax line "+strings.Join(l.Token, " ")+" is not in the syntax tree")
		} else if l.Token == nil {
			bad = append(bad, kind+": Syntax line is marked removed")
		}
	}
	var g *modfile.Go
	var tc *modfile.Toolchain
	var gds []*modfile.Godebug
	var rps []*modfile.Replace
	if d.Work {
		g, tc, gds, rps = d.W.Go, d.W.Toolchain, d.W.Godebug, d.W.Replace
		for _, u := range d.W.Use {
			chk("use", u.Syntax, u.Path == "")
		}
	} else {
		f := d.F
		g, tc, gds, rps = f.Go, f.Toolchain, f.Godebug, f.Replace
		if f.Module != nil {
			chk("module", f.Module.Syntax, false)
		}
		for _, r := range f.Require {
			chk("require", r.Syntax, r.Mod.Path == "")
		}
		for _, x := range f.Exclude {
			chk("exclude", x.Syntax, x.Mod.Path == "")
		}
		for _, r := range f.Retract {
			chk("retract", r.Syntax, r.Low == "" && r.High == "")
		}
		for _, t := range f.Tool {
			chk("tool", t.Syntax, t.Path == "")
		}
	}
	if g != nil {
		chk("go", g.Syntax, false)
	}
	if tc != nil {
		chk("toolchain", tc.Syntax, false)
	}
	for _, x := range gds {
		chk("godebug", x.Syntax, x.Key == "")
	}
	for _, x := range rps {
		chk("replace", x.Syntax, x.Old.Path == "")
	}
	return bad
}

// ParsedDump formats the document, parses the text strictly and returns the typed dump of
// the result (the directive multiset a reader of the file sees).
func (d *Doc) ParsedDump() ([]string, string, error) {
	text := d.Format()
	p, err := Parse(d.Work, text)
	if err != nil {
		return nil, text, err
	}
	return p.TypedDump(), text, nil
}

// Replay parses the seed and applies the history.
func Replay(work bool, seed string, hist []Op) (*Doc, error) {
	d, err := Parse(work, seed)
	if err != nil {
		return nil, fmt.Errorf("seed does not parse: %v", err)
	}
	for _, o := range hist {
		if err, p := d.Apply(o); p {
			return d, fmt.Errorf("%s: %v", o, err)
		}
	}
	return d, nil
}

func Equal(a, b []string) bool {
	if len(a) != len(b) {
		return false
	}
	for i := range a {
		if a[i] != b[i] {
			return false
		}
	}
	return true
}

// Diff renders the difference of two sorted multisets.
func Diff(a, b []string) string {
	ca := map[string]int{}
	for _, s := range a {
		ca[s]++
	}
	for _, s := range b {
		ca[s]--
	}
	var only1, only2 []string
	for s, n := range ca {
		for ; n > 0; n-- {
			only1 = append(only1, s)
		}
		for ; n < 0; n++ {
			only2 = append(only2, s)
		}
	}
	sort.Strings(only1)
	sort.Strings(only2)
	return fmt.Sprintf("only in first: %q; only in second: %q", only1, only2)
}
