// Package c10: hashes read through tiles are authenticated against the tree head.
package c10

import (
	"bytes"
	"encoding/json"
	"errors"
	"fmt"
	"math/bits"
	"sort"
	"strconv"
	"strings"
	"verif/internal/coop"

	"golang.org/x/mod/sumdb/tlog"

	"verif/internal/enum"
	"verif/internal/fw"
	"verif/internal/tlogx"
	"verif/internal/world"
)

type faultT struct {
	Pos  int    `json:"tile_position_in_fetch_list"`
	Kind string `json:"corruption"`
	Arg  int    `json:"arg"`
}

type caseT struct {
	Kind    string   `json:"kind"` // read | path | publisher
	N       int      `json:"tree_size"`
	H       int      `json:"tile_height"`
	Indexes []int64  `json:"indexes"`
	Faults  []faultT `json:"faults"`
	Chain   []int64  `json:"chain,omitempty"`
	Path    string   `json:"path,omitempty"`
	Tiles   []string `json:"tiles_fetched,omitempty"`
}

// reader is the harness TileReader: serves true tiles (optionally only published ones), applies faults by fetch position.
type reader struct {
	lg     *tlogx.Log
	n      int
	h      int
	pub    *world.Publisher
	faults []faultT
	// observations
	fetched []tlog.Tile
	how     map[string]int
	saved   [][2]string // (tile path, "ok"/"BAD")
	badSave string
	missing string
	applied int
	cache   map[tlog.Tile][]byte // true tiles of this (log, n), per worker
	// zeroCopy: hand out the cached true tile itself (not a copy) when no fault applies to it; the code
	// under test must treat tile data as read-only
	zeroCopy bool
}

func (r *reader) trueTile(t tlog.Tile) ([]byte, bool) {
	if r.cache != nil {
		if d, ok := r.cache[t]; ok {
			return d, d != nil
		}
	}
	d, ok := world.TrueTile(r.lg, r.n, t)
	if r.cache != nil {
		if !ok {
			d = nil
		}
		r.cache[t] = d
	}
	return d, ok
}

func (r *reader) Height() int { return r.h }

var errInjected = errors.New("injected fetch error")

func (r *reader) ReadTiles(tiles []tlog.Tile) ([][]byte, error) {
	r.fetched = append([]tlog.Tile(nil), tiles...)
	out := make([][]byte, len(tiles))
	for i, t := range tiles {
		var data []byte
		var ok bool
		if r.pub != nil {
			src, how, found := r.pub.Find(t)
			if !found {
				r.missing = t.Path()
				return nil, fmt.Errorf("tile %s was never published", t.Path())
			}
			if r.how != nil {
				r.how[how]++
			}
			data, ok = world.TrueTile(r.lg, r.lg.N(), src)
			if ok {
				data = data[:t.W*tlog.HashSize]
			}
		} else {
			data, ok = r.trueTile(t)
			if !r.zeroCopy {
				data = append([]byte(nil), data...)
			}
		}
		if !ok {
			return nil, fmt.Errorf("tile %s does not exist in a tree of %d records", t.Path(), r.n)
		}
		out[i] = data
	}
	// apply faults (in order; coordinated forgeries look at already corrupted children)
	for _, f := range r.faults {
		if f.Pos >= len(tiles) || f.Pos >= len(out) {
			continue
		}
		// answers of the wrong length: one tile missing from, or one too many in, the returned list
		if f.Kind == "drop-answer" {
			out = append(out[:f.Pos:f.Pos], out[f.Pos+1:]...)
			r.applied++
			continue
		}
		if f.Kind == "extra-answer" {
			out = append(out, out[f.Pos])
			r.applied++
			continue
		}
		if f.Kind == "error-with-answer" {
			// an error together with a complete answer, one tile of which is forged
			if len(out[f.Pos]) > 9 {
				out[f.Pos] = append([]byte(nil), out[f.Pos]...)
				out[f.Pos][9] ^= 0x40
			}
			r.applied++
			return out, errInjected
		}
		d, err := corrupt(r, tiles, out, f)
		if err != nil {
			return nil, err
		}
		if !bytes.Equal(d, out[f.Pos]) {
			r.applied++
		}
		out[f.Pos] = d
	}
	return out, nil
}

func (r *reader) SaveTiles(tiles []tlog.Tile, data [][]byte) {
	for i, t := range tiles {
		want, ok := r.trueTile(t)
		st := "ok"
		if !ok || !bytes.Equal(want, data[i]) {
			st = "BAD"
			if r.badSave == "" {
				r.badSave = t.Path()
			}
		}
		r.saved = append(r.saved, [2]string{t.Path(), st})
	}
}

// corruption menu ------------------------------------------------------------

type menuItem struct {
	kind string
	arg  int
}

func menu(t tlog.Tile, reduced bool) []menuItem {
	var m []menuItem
	if reduced {
		m = append(m, menuItem{"flip", 0}, menuItem{"flip", (t.W - 1) * tlog.HashSize * 8}, menuItem{"zero", 0}, menuItem{"error", 0}, menuItem{"trunc-hash", 0})
		if t.W > 1 {
			m = append(m, menuItem{"swap", 0})
		}
		return m
	}
	for j := 0; j < t.W; j++ {
		if t.W > 16 && j > 2 && j < t.W-3 && j != t.W/2 && j != 127 && j != 128 {
			continue // wide tiles (height 8): boundary and middle slots only
		}
		m = append(m, menuItem{"flip", j * tlog.HashSize * 8}, menuItem{"flip", j*tlog.HashSize*8 + 255}, menuItem{"slot<-leaf0", j}, menuItem{"slot<-root", j}, menuItem{"slot<-zero", j})
		if j+1 < t.W {
			m = append(m, menuItem{"swap", j}, menuItem{"dup", j}, menuItem{"slot<-parenthash", j},
				menuItem{"fold-zero", j}, menuItem{"fold-last", j}, menuItem{"fold-leaf0", j})
		}
		if j > 0 {
			m = append(m, menuItem{"slot<-prev", j})
		}
	}
	m = append(m, menuItem{"drop-answer", 0}, menuItem{"extra-answer", 0}, menuItem{"error-with-answer", 0}, menuItem{"trunc-byte", 0}, menuItem{"trunc-hash", 0}, menuItem{"extend-hash", 0}, menuItem{"empty", 0}, menuItem{"zero", 0}, menuItem{"error", 0},
		menuItem{"other-tile", -1}, menuItem{"other-tile", +1}, menuItem{"other-level", +1}, menuItem{"other-level", -1})
	return m
}

func corrupt(r *reader, tiles []tlog.Tile, cur [][]byte, f faultT) ([]byte, error) {
	t := tiles[f.Pos]
	d := append([]byte(nil), cur[f.Pos]...)
	hs := tlog.HashSize
	slot := func(j int) []byte { return d[j*hs : (j+1)*hs] }
	switch f.Kind {
	case "flip":
		if f.Arg/8 < len(d) {
			d[f.Arg/8] ^= 1 << uint(f.Arg%8)
		}
	case "slot<-leaf0":
		copy(slot(f.Arg), r.lg.Ref.Leaves[0][:])
	case "slot<-root":
		h := r.lg.Ref.MTH(0, r.n)
		copy(slot(f.Arg), h[:])
	case "slot<-zero":
		copy(slot(f.Arg), make([]byte, hs))
	case "slot<-prev":
		copy(slot(f.Arg), slot(f.Arg-1))
	case "swap":
		a := append([]byte(nil), slot(f.Arg)...)
		copy(slot(f.Arg), slot(f.Arg+1))
		copy(slot(f.Arg+1), a)
	case "dup":
		copy(slot(f.Arg+1), slot(f.Arg))
	case "slot<-parenthash":
		var a, b tlog.Hash
		copy(a[:], slot(f.Arg))
		copy(b[:], slot(f.Arg+1))
		p := tlog.NodeHash(a, b)
		copy(slot(f.Arg), p[:])
	case "fold-zero", "fold-last", "fold-leaf0":
		// structure-changing forgery: two neighbouring hashes are replaced by their parent, the rest moves
		// one slot to the left, and the freed last slot is filled (zero hash, copy of the last hash, leaf 0):
		// the tile has the same width but describes a tree of another shape with the same fold
		j := f.Arg
		if (j+2)*hs <= len(d) {
			var a, b tlog.Hash
			copy(a[:], slot(j))
			copy(b[:], slot(j+1))
			p := tlog.NodeHash(a, b)
			w := len(d) / hs
			last := append([]byte(nil), slot(w-1)...)
			copy(slot(j), p[:])
			copy(d[(j+1)*hs:], d[(j+2)*hs:])
			switch f.Kind {
			case "fold-zero":
				copy(slot(w-1), make([]byte, hs))
			case "fold-last":
				copy(slot(w-1), last)
			default:
				copy(slot(w-1), r.lg.Ref.Leaves[0][:])
			}
		}
	case "trunc-byte":
		d = d[:len(d)-1]
	case "trunc-hash":
		d = d[:len(d)-hs]
	case "extend-hash":
		d = append(d, d[:hs]...)
	case "empty":
		d = nil
	case "zero":
		d = make([]byte, len(d))
	case "error":
		return nil, errInjected
	case "other-tile":
		o := t
		o.N += int64(f.Arg)
		if o.N >= 0 {
			if x, ok := world.TrueTile(r.lg, r.n, o); ok {
				d = x
			}
		}
	case "other-level":
		o := t
		o.L += f.Arg
		if o.L >= 0 {
			o.N = 0
			if x, ok := world.TrueTile(r.lg, r.n, o); ok {
				d = x
			}
		}
	case "match-child":
		// coordinated forgery: rewrite the slot of this (parent) tile that authenticates the
		// already corrupted child at position f.Arg so that it matches the child's content
		c := tiles[f.Arg]
		if c.L+1 == t.L && c.N>>uint(t.H) == t.N && c.W == 1<<uint(c.H) {
			j := int(c.N - t.N<<uint(t.H))
			if j < t.W {
				h := tileHash(cur[f.Arg])
				copy(slot(j), h[:])
			}
		}
	default:
		panic("unknown corruption " + f.Kind)
	}
	return d, nil
}

func tileHash(data []byte) tlog.Hash {
	if len(data) == tlog.HashSize {
		var h tlog.Hash
		copy(h[:], data)
		return h
	}
	n := len(data) / 2
	return tlog.NodeHash(tileHash(data[:n]), tileHash(data[n:]))
}

// one executes a single read and applies the oracle.
func one(lg *tlogx.Log, n, h int, indexes []int64, faults []faultT, pub *world.Publisher, how map[string]int, cache ...map[tlog.Tile][]byte) (msg string, rd *reader, ok bool) {
	rd = &reader{lg: lg, n: n, h: h, pub: pub, faults: faults, how: how}
	if len(cache) > 0 {
		rd.cache = cache[0]
	}
	tree := tlog.Tree{N: int64(n), Hash: lg.Root(n)}
	var hashes []tlog.Hash
	var err error
	func() {
		defer func() {
			if e := recover(); e != nil {
				msg = fmt.Sprintf("panic: %v", e)
			}
		}()
		ixw, intact := enum.Spare(indexes, int64(-0x5e5e5e), 3)
		hashes, err = tlog.TileHashReader(tree, rd).ReadHashes(ixw)
		if !intact() {
			msg = "ReadHashes wrote into the caller's array behind the end of the index list"
		}
		for i := range indexes {
			if ixw[i] != indexes[i] {
				msg = "ReadHashes changed the index list it was given"
			}
		}
	}()
	if msg != "" {
		return msg, rd, false
	}
	if rd.badSave != "" {
		return fmt.Sprintf("SaveTiles was handed tile %s whose bytes are not the true tile (saved list %v)", rd.badSave, rd.saved), rd, err == nil
	}
	if err != nil {
		if len(faults) == 0 {
			if rd.missing != "" {
				return fmt.Sprintf("publisher insufficiency: tile %s needed for reading %v in a tree of %d records (h=%d) was never published", rd.missing, indexes, n, h), rd, false
			}
			return fmt.Sprintf("honest read of %v (N=%d,h=%d) failed: %v", indexes, n, h, err), rd, false
		}
		return "", rd, false
	}
	if len(hashes) != len(indexes) {
		return fmt.Sprintf("ReadHashes returned %d hashes for %d indexes", len(hashes), len(indexes)), rd, true
	}
	for i, x := range indexes {
		if hashes[i] != lg.Store[x] {
			return fmt.Sprintf("read of index %d (N=%d,h=%d,faults=%v) succeeded with a hash that is not the true stored hash", x, n, h, faults), rd, true
		}
	}
	return "", rd, true
}

func key(kind string, n, h int, ix []int64, f []faultT) string {
	return fmt.Sprintf("%s:N%d:h%d:%v:%v", kind, n, h, ix, f)
}

func mkCase(n, h int, ix []int64, f []faultT, rd *reader) caseT {
	c := caseT{Kind: "read", N: n, H: h, Indexes: ix, Faults: f}
	if rd != nil {
		for _, t := range rd.fetched {
			c.Tiles = append(c.Tiles, t.Path())
		}
	}
	return c
}

type job struct {
	n, h int
}

func explore(r *fw.Run, lg *tlogx.Log, n, h int, l *fw.Local, dev2 bool, pairsUpTo int) {
	count := int(tlog.StoredHashCount(int64(n)))
	var sets [][]int64
	bulkOnly := pairsUpTo < 0 // large plans: only the reads of many positions at once
	for p := 0; p < count && !bulkOnly; p++ {
		sets = append(sets, []int64{int64(p)})
	}
	if n <= pairsUpTo {
		for p := 0; p < count; p++ {
			for q := 0; q < count; q++ {
				sets = append(sets, []int64{int64(p), int64(q)})
			}
		}
	}
	// index sets that real callers build
	capture := func(f func(tlog.HashReader)) {
		f(tlog.HashReaderFunc(func(ix []int64) ([]tlog.Hash, error) {
			if len(ix) > 0 {
				sets = append(sets, append([]int64(nil), ix...))
			}
			return lg.ReadHashes(ix)
		}))
	}
	for m := 1; m <= n && !bulkOnly; m++ {
		capture(func(hr tlog.HashReader) { tlog.TreeHash(int64(m), hr) })
		capture(func(hr tlog.HashReader) { tlog.ProveTree(int64(n), int64(m), hr) })
		capture(func(hr tlog.HashReader) { tlog.ProveRecord(int64(n), int64(m-1), hr) })
	}
	// counts: every stored position in one call (ascending, descending, each twice), and the first 9, 17, 65
	if count > 2 {
		var all, rev, dup []int64
		for p := 0; p < count; p++ {
			all = append(all, int64(p))
			rev = append(rev, int64(count-1-p))
			dup = append(dup, int64(p), int64(p))
		}
		sets = append(sets, all, rev, dup)
		if bulkOnly {
			// every record hash (what a mirror reads), and every other one
			var recs, odd []int64
			for i := 0; i < n; i++ {
				recs = append(recs, tlog.StoredHashIndex(0, int64(i)))
				if i%2 == 1 {
					odd = append(odd, tlog.StoredHashIndex(0, int64(i)))
				}
			}
			sets = [][]int64{all, rev, recs, odd}
		}
		for _, k := range []int{9, 17, 65} {
			if k < count {
				sets = append(sets, all[:k], rev[:k])
			}
		}
	}
	seen := map[string]bool{}
	cache := map[tlog.Tile][]byte{}
	if h >= 8 && count > 24 {
		// wide tiles: singletons at the boundaries of the store only (plus the caller-built sets)
		var keep [][]int64
		for _, ix := range sets {
			if len(ix) != 1 || ix[0] < 6 || ix[0] >= int64(count)-8 || ix[0]%61 == 0 {
				keep = append(keep, ix)
			}
		}
		sets = keep
	}
	for _, ix := range sets {
		if r.Failed() {
			r.Cap("stopped early: too many violations")
			return
		}
		k := fmt.Sprint(ix)
		if seen[k] {
			continue
		}
		seen[k] = true
		// deviation 0
		l.States++
		l.Execs++
		msg, rd, ok := one(lg, n, h, ix, nil, nil, nil, cache)
		if msg != "" || !ok {
			r.Violation(key("honest", n, h, ix, nil), msg, mkCase(n, h, ix, nil, rd))
			continue
		}
		l.Outcomes["honest:ok"]++
		tiles := rd.fetched
		reduced := len(ix) > 1
		// deviation 1
		for pos, t := range tiles {
			for _, mi := range menu(t, reduced) {
				f := []faultT{{pos, mi.kind, mi.arg}}
				l.Execs++
				l.Transitions++
				msg, rd1, ok := one(lg, n, h, ix, f, nil, nil, cache)
				if rd1.applied > 0 || mi.kind == "error" {
					l.Nontrivial++
				}
				switch {
				case msg != "":
					l.Outcomes["fault1:VIOLATION"]++
					r.Violation(key("fault1", n, h, ix, f), msg, mkCase(n, h, ix, f, rd1))
				case ok:
					l.Outcomes["fault1:read-ok-true-hashes"]++
				default:
					l.Outcomes["fault1:rejected"]++
				}
			}
		}
		if !dev2 || len(ix) != 1 {
			continue
		}
		// coordinated child+parent forgeries: corrupt a child, rewrite the authenticating slot of
		// its parent, the parent's parent, ... up to every level
		for pos, t := range tiles {
			if t.W != 1<<uint(t.H) {
				continue
			}
			for _, bit := range []int{0, t.W*tlog.HashSize*8 - 1} {
				f := []faultT{{pos, "flip", bit}}
				child := pos
				for {
					parent := -1
					for q, pt := range tiles {
						ct := tiles[child]
						if pt.L == ct.L+1 && ct.N>>uint(pt.H) == pt.N && int(ct.N-pt.N<<uint(pt.H)) < pt.W {
							parent = q
						}
					}
					if parent < 0 {
						break
					}
					f = append(f, faultT{parent, "match-child", child})
					ff := append([]faultT(nil), f...)
					l.Execs++
					l.Transitions++
					l.Nontrivial++
					msg, rd2, ok := one(lg, n, h, ix, ff, nil, nil, cache)
					switch {
					case msg != "":
						l.Outcomes["coordinated:VIOLATION"]++
						r.Violation(key("coord", n, h, ix, ff), msg, mkCase(n, h, ix, ff, rd2))
					case ok:
						l.Outcomes["coordinated:read-ok-true-hashes"]++
					default:
						l.Outcomes["coordinated:rejected"]++
					}
					child = parent
				}
			}
		}
		// all pairs of single faults, reduced menu
		for p1, t1 := range tiles {
			for p2 := p1 + 1; p2 < len(tiles); p2++ {
				for _, a := range menu(t1, true) {
					for _, b := range menu(tiles[p2], true) {
						f := []faultT{{p1, a.kind, a.arg}, {p2, b.kind, b.arg}}
						l.Execs++
						l.Transitions++
						l.Nontrivial++
						msg, rd2, ok := one(lg, n, h, ix, f, nil, nil, cache)
						switch {
						case msg != "":
							l.Outcomes["fault2:VIOLATION"]++
							r.Violation(key("fault2", n, h, ix, f), msg, mkCase(n, h, ix, f, rd2))
						case ok:
							l.Outcomes["fault2:read-ok-true-hashes"]++
						default:
							l.Outcomes["fault2:rejected"]++
						}
					}
				}
			}
		}
	}
}

// publisher sufficiency along growth chains
func publisher(r *fw.Run, lg *tlogx.Log, n, h int, l *fw.Local) {
	var chains [][]int64
	unit := []int64{}
	for i := 0; i <= n; i++ {
		unit = append(unit, int64(i))
	}
	chains = append(chains, unit, []int64{0, int64(n)})
	for a := 1; a < n; a++ {
		chains = append(chains, []int64{0, int64(a), int64(n)})
	}
	count := int(tlog.StoredHashCount(int64(n)))
	for _, ch := range chains {
		pub := world.NewPublisher(h, ch)
		how := map[string]int{}
		sub, _ := tlogx.Build(lg.Records[:n])
		// every published tile must be a real tile of the final tree
		for t := range pub.Have {
			if _, ok := world.TrueTile(sub, n, t); !ok {
				r.Violation(fmt.Sprintf("pub-bogus:N%d:h%d:%v:%s", n, h, ch, t.Path()), fmt.Sprintf("NewTiles asked to publish %s which does not exist in a tree of %d records", t.Path(), n), caseT{Kind: "publisher", N: n, H: h, Chain: ch})
			}
		}
		for p := 0; p < count; p++ {
			l.Execs++
			l.Transitions++
			msg, rd, ok := one(sub, n, h, []int64{int64(p)}, nil, pub, how)
			if msg != "" || !ok {
				c := mkCase(n, h, []int64{int64(p)}, nil, rd)
				c.Kind, c.Chain = "publisher", ch
				r.Violation(fmt.Sprintf("pub:N%d:h%d:%v:%d", n, h, ch, p), msg, c)
			}
		}
		for k, v := range how {
			l.Outcomes["publisher:"+k] += int64(v)
		}
		l.States++
	}
}

// tile paths ---------------------------------------------------------------------

func refPath(t tlog.Tile) string {
	// documented: tile/H/L/NNN[.p/W], N in 3-digit groups, all but the last prefixed with x, level -1 spelled "data"
	digits := fmt.Sprintf("%d", t.N)
	for len(digits)%3 != 0 {
		digits = "0" + digits
	}
	var parts []string
	for i := 0; i < len(digits); i += 3 {
		g := digits[i : i+3]
		if i+3 < len(digits) {
			g = "x" + g
		}
		parts = append(parts, g)
	}
	L := fmt.Sprint(t.L)
	if t.L == -1 {
		L = "data"
	}
	s := fmt.Sprintf("tile/%d/%s/%s", t.H, L, strings.Join(parts, "/"))
	if t.W != 1<<uint(t.H) {
		s += fmt.Sprintf(".p/%d", t.W)
	}
	return s
}

func pathCases(r *fw.Run) {
	l := fw.NewLocal()
	defer r.Merge(l)
	for H := 1; H <= 30; H++ {
		for L := -1; L <= 63; L++ {
			for _, N := range []int64{0, 1, 999, 1000, 1001, 999999, 1000000, 1 << 40, 123456789} {
				for _, W := range []int{1, 2, 1<<uint(H) - 1, 1 << uint(H)} {
					if W < 1 || W > 1<<uint(H) {
						continue
					}
					t := tlog.Tile{H: H, L: L, N: N, W: W}
					l.States++
					l.Execs++
					p := t.Path()
					if p != refPath(t) {
						r.Violation("path:"+p, fmt.Sprintf("Tile%+v.Path()=%q, documented encoding %q", t, p, refPath(t)), caseT{Kind: "path", Path: p})
						continue
					}
					back, err := tlog.ParseTilePath(p)
					if err != nil || back != t {
						r.Violation("parse:"+p, fmt.Sprintf("ParseTilePath(%q)=%+v,%v want %+v", p, back, err, t), caseT{Kind: "path", Path: p})
					}
					l.Nontrivial++
				}
			}
		}
	}
	// arbitrary paths: accepted only if canonical encoding of the parsed tile
	segs := []string{"tile", "0", "1", "2", "08", "31", "data", "-1", "000", "001", "x000", "x001", "1000", "000.p", "1.p", "x001.p", "4"}
	maxSeg := 6
	enum.Sequences(len(segs), maxSeg, func(seq []int) {
		if len(seq) == 0 || seq[0] != 0 {
			return
		}
		parts := make([]string, len(seq))
		for i, x := range seq {
			parts[i] = segs[x]
		}
		p := strings.Join(parts, "/")
		l.States++
		l.Execs++
		t, err := tlog.ParseTilePath(p)
		if err != nil {
			l.Outcomes["path:refused"]++
			return
		}
		l.Outcomes["path:accepted"]++
		if refPath(t) != p || t.H < 1 || t.H > 30 || t.L < -1 || t.W < 1 || t.W > 1<<uint(t.H) || t.N < 0 {
			r.Violation("parse:"+p, fmt.Sprintf("ParseTilePath(%q) accepted as %+v whose canonical path is %q", p, t, refPath(t)), caseT{Kind: "path", Path: p})
		}
	})
	// byte sweep: every byte value substituted at, and inserted before, every position of canonical paths
	bases := []string{"tile/8/0/001", "tile/2/1/x001/234.p/3", "tile/1/data/x123/x456/789", "tile/30/63/000.p/1", "tile/8/0/x001/000"}
	check := func(p string) {
		l.States++
		l.Execs++
		t, err := tlog.ParseTilePath(p)
		if err != nil {
			l.Outcomes["path:refused"]++
			return
		}
		l.Outcomes["path:accepted"]++
		if refPath(t) != p || t.H < 1 || t.H > 30 || t.L < -1 || t.W < 1 || t.W > 1<<uint(t.H) || t.N < 0 {
			r.Violation("parse:"+strconv.QuoteToASCII(p), fmt.Sprintf("ParseTilePath(%q) accepted as %+v whose canonical path is %q", p, t, refPath(t)), caseT{Kind: "path", Path: p})
		}
	}
	for _, b := range bases {
		for i := 0; i <= len(b); i++ {
			for c := 0; c < 256; c++ {
				check(b[:i] + string([]byte{byte(c)}) + b[i:])
				if i < len(b) {
					check(b[:i] + string([]byte{byte(c)}) + b[i+1:])
				}
			}
		}
	}
}

// FirstCalls is the menu of the fresh-process call-order check.
func FirstCalls() []fw.Call {
	var out []fw.Call
	for _, c := range []struct {
		n, h int
		ix   []int64
	}{{7, 2, []int64{0}}, {13, 1, []int64{3, 0, 12}}, {20, 3, []int64{5}}, {13, 2, []int64{100}}} {
		c := c
		out = append(out, fw.Call{Name: fmt.Sprintf("read(N=%d,h=%d,%v)", c.n, c.h, c.ix), F: func() string {
			lg, _ := tlogx.Build(tlogx.Pattern(0, c.n))
			msg, _, _ := one(lg, c.n, c.h, c.ix, nil, nil, nil)
			return msg
		}})
		out = append(out, fw.Call{Name: fmt.Sprintf("forged-read(N=%d,h=%d,%v)", c.n, c.h, c.ix), F: func() string {
			lg, _ := tlogx.Build(tlogx.Pattern(0, c.n))
			msg, _, _ := one(lg, c.n, c.h, c.ix, []faultT{{Pos: 0, Kind: "flip", Arg: 9}}, nil, nil)
			return msg
		}})
	}
	out = append(out, fw.Call{Name: "paths", F: func() string {
		t, e1 := tlog.ParseTilePath("tile/3/1/x001/234.p/5")
		_, e2 := tlog.ParseTilePath("tile/3/1/1234")
		return fmt.Sprint(t, e1, e2, tlog.Tile{H: 2, L: 0, N: 1234067, W: 4}.Path(), tlog.TileForIndex(2, 77), len(tlog.NewTiles(2, 5, 21)))
	}})
	return out
}

func Run(r *fw.Run) {
	defer fw.FirstCallOrders(r, r.ID, FirstCalls(), nil)
	nmax := r.Pick(48, 100)
	heights := []int{1, 2, 3}
	if r.Thorough() {
		heights = []int{1, 2, 3, 4}
	}
	dev2max := r.Pick(14, 26)
	pairsMax := r.Pick(12, 20)
	r.Bounds["tree_sizes"] = fmt.Sprintf("1..%d", nmax)
	r.Bounds["heights"] = heights
	r.Bounds["height8_sizes"] = "1..20, 250..262 (thorough also 510..516)"
	r.Bounds["two_fault_and_coordinated_up_to_N"] = dev2max
	r.Bounds["index_pairs_up_to_N"] = pairsMax
	r.Rule = "state = (tree size, tile height, index set); deviation 0: honest read returns the true stored hashes; deviation 1: every corruption of the menu at every slot of every fetched tile; deviation 2 (small N): all pairs over a reduced menu plus coordinated child+parent-slot forgeries at every level; publisher chains 0->1->..->N, 0->N, 0->a->N. Oracle: read fails or returns only true hashes, SaveTiles only sees true tile bytes. non-trivial = a fault that changed at least one served byte (or a fetch error)"
	r.Assume = []string{"SHA-256 collision resistance", "true tiles computed from the RFC 6962 reference tree (internal/world.TrueTile)"}
	lg, err := tlogx.Build(tlogx.Pattern(0, 520))
	if err != nil {
		r.Violation("build", err.Error(), nil)
		return
	}
	var jobs []job
	for _, h := range heights {
		for n := nmax; n >= 1; n-- {
			jobs = append(jobs, job{n, h})
		}
	}
	h8 := []int{}
	for n := 1; n <= 20; n++ {
		h8 = append(h8, n)
	}
	for n := 250; n <= 262; n++ {
		h8 = append(h8, n)
	}
	if r.Thorough() {
		for n := 510; n <= 516; n++ {
			h8 = append(h8, n)
		}
	}
	for _, n := range h8 {
		jobs = append(jobs, job{n, 8})
	}
	// large fetch plans: reads of many positions at once over trees whose plan has 64, 128, 256, 512 tiles
	// and every count near them (height 1: about 2n tiles), each fetched tile corrupted in turn
	bulk := map[job]bool{}
	for _, n := range []int{127, 128, 129, 131, 255, 259} {
		bulk[job{n, 1}] = true
	}
	for n := 60; n <= 80; n++ {
		bulk[job{n, 1}] = true
	}
	bulk[job{259, 2}] = true
	bulk[job{515, 3}] = true
	if r.Thorough() {
		bulk[job{515, 1}] = true
		bulk[job{515, 2}] = true
	}
	for j := range bulk {
		if j.n > nmax || j.h > heights[len(heights)-1] {
			jobs = append(jobs, j)
		} else {
			delete(bulk, j)
		}
	}
	r.Bounds["bulk_reads"] = fmt.Sprintf("%d further (size, height) pairs with sizes 60..80, 127..131, 255, 259, 515: all stored positions (both orders), all record hashes, every other record hash, one fault at every fetched tile", len(bulk))
	sort.SliceStable(jobs, func(i, j int) bool { return jobs[i].n*jobs[i].h > jobs[j].n*jobs[j].h })
	fw.Parallel(len(jobs), func(i int) {
		j := jobs[i]
		l := fw.NewLocal()
		sub := lg
		if bulk[j] {
			explore(r, sub, j.n, j.h, l, false, -1)
			r.Merge(l)
			return
		}
		explore(r, sub, j.n, j.h, l, j.n <= dev2max, pairsMax)
		if j.n <= 40 && j.h <= 4 {
			publisher(r, lg, j.n, j.h, l)
		}
		r.Merge(l)
	})
	_, rd, _ := one(lg, 7, 2, []int64{0}, nil, nil, nil)
	r.Sample(mkCase(7, 2, []int64{0}, []faultT{{2, "flip", 0}}, rd))
	reuse(r, lg)
	overlapReads(r, lg)
	hugeTiles(r)
	pathCases(r)
}

// overlapReads explores every interleaving (switching where the TileReader is called) of two reads on ONE
// TileHashReader value, served honestly: both must return the true hashes.
func overlapReads(r *fw.Run, lg *tlogx.Log) {
	type job struct{ n, h int }
	var jobs []job
	for _, n := range []int{5, 13, 21, 22} {
		for _, h := range []int{1, 2} {
			jobs = append(jobs, job{n, h})
		}
	}
	r.Bounds["overlapping_reads"] = "N in {5,13,21,22}, h in {1,2}: every ordered pair of single positions read through one TileHashReader, every interleaving at the TileReader callbacks"
	fw.Parallel(len(jobs), func(ji int) {
		n, h := jobs[ji].n, jobs[ji].h
		l := fw.NewLocal()
		defer r.Merge(l)
		cache := map[tlog.Tile][]byte{}
		count := int64(tlog.StoredHashCount(int64(n)))
		tree := tlog.Tree{N: int64(n), Hash: lg.Root(n)}
		for i := int64(0); i < count; i++ {
			for j := int64(0); j < count; j++ {
				l.States++
				runs, _ := coop.Explore(func() ([]func(func()), func([]int, any)) {
					vr := &yieldingTiles{inner: &reader{lg: lg, n: n, h: h, cache: cache}}
					hr := tlog.TileHashReader(tree, vr)
					var ra, rb string
					mk := func(x int64, out *string) func(func()) {
						return func(yield func()) {
							vr.set(yield)
							hs, err := hr.ReadHashes([]int64{x})
							if err != nil || len(hs) != 1 || hs[0] != lg.Store[x] {
								*out = fmt.Sprintf("read of position %d: err=%v", x, err)
							}
						}
					}
					return []func(func()){mk(i, &ra), mk(j, &rb)}, func(schedule []int, pan any) {
						msg := ra
						if msg == "" {
							msg = rb
						}
						if pan != nil {
							msg = fmt.Sprintf("panic: %v", pan)
						}
						if msg != "" {
							c := mkCase(n, h, []int64{i, j}, nil, vr.inner)
							c.Kind = "overlap"
							r.Violation(key("overlap", n, h, []int64{i, j}, nil), fmt.Sprintf("two reads on one TileHashReader, served honestly, interleaving %v: %s", schedule, msg), c)
						}
					}
				}, 100)
				l.Execs += int64(runs)
				l.Transitions += int64(runs)
			}
		}
	})
}

// yieldingTiles wraps the harness TileReader: every ReadTiles call is a scheduling point before it looks
// at its argument and before it returns. Which goroutine is running is tracked per goroutine id-free: each
// proc installs its own yield function right before it calls into the reader (procs run one at a time).
type yieldingTiles struct {
	inner *reader
	cur   func()
}

func (y *yieldingTiles) set(f func()) { y.cur = f }
func (y *yieldingTiles) Height() int  { return y.inner.h }
func (y *yieldingTiles) ReadTiles(tiles []tlog.Tile) ([][]byte, error) {
	yield := y.cur // the running proc installed its own yield function before it got here
	yield()
	y.cur = yield // another proc may have run in between
	d, err := y.inner.ReadTiles(tiles)
	yield()
	y.cur = yield
	return d, err
}
func (y *yieldingTiles) SaveTiles(tiles []tlog.Tile, data [][]byte) { y.inner.SaveTiles(tiles, data) }

// hugeTiles reads through tiles of virtual logs of identical records (one hash per level, so tiles and the
// RFC 6962 tree hash of any size can be computed without storing anything) with up to 2^62 records: tile
// numbers beyond 2^32 and 2^56, single positions and pairs of positions that are far apart.
func hugeTiles(r *fw.Run) {
	l := fw.NewLocal()
	defer r.Merge(l)
	leaf := tlog.RecordHash([]byte("same\n"))
	level := []tlog.Hash{leaf}
	for i := 1; i <= 63; i++ {
		level = append(level, tlog.NodeHash(level[i-1], level[i-1]))
	}
	memo := map[int64]tlog.Hash{}
	var mth func(n int64) tlog.Hash
	mth = func(n int64) tlog.Hash {
		if n&(n-1) == 0 {
			return level[bits.TrailingZeros64(uint64(n))]
		}
		if h, ok := memo[n]; ok {
			return h
		}
		k := int64(1) << uint(63-bits.LeadingZeros64(uint64(n-1)))
		h := tlog.NodeHash(mth(k), mth(n-k))
		memo[n] = h
		return h
	}
	sizes := []int64{511, 512, 513, 700, 1100, 4097, 1<<16 + 3, 1<<20 + 5, 1<<33 + 7, 1<<40 + 1, 1<<56 + 3, 1<<57 + 5, 1 << 58, 1<<60 + 12345, 1<<61 + 1, 1<<62 - 1}
	heights := []int{1, 2, 4, 5, 8, 9, 10, 12, 16, 20, 29, 30} // 30 is the documented maximum
	r.Bounds["virtual_huge_tile_reads"] = fmt.Sprintf("sizes %v x heights %v (heights 12 and 16: three sizes, first 12 index lists; heights 20, 29, 30: sizes up to 4097)", sizes, heights)
	for _, n := range sizes {
		for _, h := range heights {
			tall := h >= 12
			if tall && n != 1<<16+3 && n != 1<<20+5 && n != 1<<33+7 && !(h >= 20 && n <= 4097) {
				continue
			}
			if h >= 20 && n > 4097 {
				continue // a full tile of such a height does not fit in memory: small trees only (one partial tile per level)
			}
			vr := &virtualTiles{h: h, level: level}
			hr := tlog.TileHashReader(tlog.Tree{N: n, Hash: mth(n)}, vr)
			var idx [][]int64
			var single []int64
			for _, lev := range []int{0, 1, h, 2 * h, 3*h + 1, 40} {
				cnt := n >> uint(lev)
				for _, off := range []int64{0, 1, cnt / 2, cnt - 1, 1 << 32, 1<<32 + 1, 1 << uint(56-lev%8), 1<<56 + 1, 1 << uint(56+h)} {
					if off >= 0 && off < cnt {
						single = append(single, tlog.StoredHashIndex(lev, off))
					}
				}
			}
			for _, x := range single {
				idx = append(idx, []int64{x})
			}
			for i := 0; i+1 < len(single); i += 2 {
				idx = append(idx, []int64{single[i], single[len(single)-1-i]}, []int64{single[len(single)-1-i], single[i], single[i+1]})
			}
			if tall && len(idx) > 12 {
				idx = idx[:12]
			}
			// forged tiles: one bit flipped in the first, the middle or the last hash of every served tile of
			// one level; the read must fail or return true hashes, and nothing served may be saved
			for fi, ix := range idx {
				if fi >= 6 {
					break
				}
				for _, where := range []int{0, 1, 2} {
					for flev := 0; flev <= 2; flev++ {
						fr := &virtualTiles{h: h, level: level}
						touched := false
						fr.forge = func(t tlog.Tile, d []byte) {
							if t.L != flev || len(d) == 0 {
								return
							}
							pos := []int{0, (t.W / 2) * tlog.HashSize, (t.W - 1) * tlog.HashSize}[where]
							d[pos+5] ^= 0x10
							touched = true
						}
						l.Execs++
						l.Transitions++
						got, err := tlog.TileHashReader(tlog.Tree{N: n, Hash: mth(n)}, fr).ReadHashes(ix)
						if !touched {
							continue
						}
						c := caseT{Kind: "huge", N: 0, H: h, Indexes: ix, Path: fmt.Sprint(n)}
						if err == nil {
							for k, x := range ix {
								lev, _ := tlog.SplitStoredHashIndex(x)
								if got[k] != level[lev] {
									r.Violation(fmt.Sprintf("huge-forged:%d:%d:%v:%d:%d", n, h, ix, flev, where), fmt.Sprintf("reading %v through tiles of a %d-record log (h=%d) with one flipped bit in the level-%d tiles returned a hash that is not the true stored hash", ix, n, h, flev), c)
								}
							}
						}
						l.Outcomes["huge-forged:"+map[bool]string{true: "refused", false: "true hashes"}[err != nil]]++
					}
				}
			}
			for _, ix := range idx {
				l.States++
				l.Execs++
				l.Transitions++
				var got []tlog.Hash
				var err error
				pan := ""
				func() {
					defer func() {
						if e := recover(); e != nil {
							pan = fmt.Sprint(e)
						}
					}()
					got, err = hr.ReadHashes(ix)
				}()
				c := caseT{Kind: "huge", N: 0, H: h, Indexes: ix, Path: fmt.Sprint(n)}
				switch {
				case pan != "":
					r.Violation(fmt.Sprintf("huge:%d:%d:%v", n, h, ix), fmt.Sprintf("reading %v through honest tiles of a %d-record log (h=%d) panicked: %s", ix, n, h, pan), c)
				case err != nil:
					r.Violation(fmt.Sprintf("huge:%d:%d:%v", n, h, ix), fmt.Sprintf("reading %v through honest tiles of a %d-record log (h=%d) failed: %v", ix, n, h, err), c)
				default:
					for k, x := range ix {
						lev, _ := tlog.SplitStoredHashIndex(x)
						if got[k] != level[lev] {
							r.Violation(fmt.Sprintf("huge:%d:%d:%v", n, h, ix), fmt.Sprintf("reading %v through honest tiles of a %d-record log (h=%d): hash %d is not the true stored hash", ix, n, h, k), c)
						}
					}
					l.Nontrivial++
				}
			}
		}
	}
}

type virtualTiles struct {
	h     int
	level []tlog.Hash
	forge func(t tlog.Tile, data []byte) // corrupts served tiles (nil = honest)
	saved int                            // tiles handed to SaveTiles while forging
}

func (v *virtualTiles) Height() int { return v.h }
func (v *virtualTiles) ReadTiles(tiles []tlog.Tile) ([][]byte, error) {
	out := make([][]byte, len(tiles))
	for i, t := range tiles {
		if t.L < 0 || t.L*v.h >= len(v.level) {
			return nil, fmt.Errorf("no such tile %s", t.Path())
		}
		d := make([]byte, 0, t.W*tlog.HashSize)
		for j := 0; j < t.W; j++ {
			d = append(d, v.level[t.L*v.h][:]...)
		}
		if v.forge != nil {
			v.forge(t, d)
		}
		out[i] = d
	}
	return out, nil
}
func (v *virtualTiles) SaveTiles(tiles []tlog.Tile, data [][]byte) {
	if v.forge != nil {
		v.saved += len(tiles)
	}
}

// reuse explores call histories on ONE TileHashReader value: a read under a fault, then honest reads of
// every index, then the first read again without the fault. Whatever the first call did, the later ones
// are served honestly and must return the true hashes (a reader must not keep anything it has not
// authenticated), and nothing but true tiles may be passed on for saving at any point.
func reuse(r *fw.Run, lg *tlogx.Log) {
	sizes := []int{3, 5, 7, 8, 13, 16}
	if r.Thorough() {
		sizes = append(sizes, 21, 32, 33)
	}
	r.Bounds["reader_reuse_histories"] = fmt.Sprintf("N in %v, h in {1,2}: (faulted read of i; honest read of every j; honest read of i) for every i, fetch position and reduced-menu fault", sizes)
	type job struct{ n, h int }
	var jobs []job
	for _, n := range sizes {
		for _, h := range []int{1, 2} {
			jobs = append(jobs, job{n, h})
		}
	}
	fw.Parallel(len(jobs), func(ji int) {
		n, h := jobs[ji].n, jobs[ji].h
		l := fw.NewLocal()
		defer r.Merge(l)
		cache := map[tlog.Tile][]byte{}
		count := int64(tlog.StoredHashCount(int64(n)))
		tree := tlog.Tree{N: int64(n), Hash: lg.Root(n)}
		read := func(hr tlog.HashReader, rd *reader, ix []int64, faults []faultT) (msg string, failed bool) {
			rd.faults, rd.badSave = faults, ""
			var hashes []tlog.Hash
			var err error
			func() {
				defer func() {
					if e := recover(); e != nil {
						msg = fmt.Sprintf("panic: %v", e)
					}
				}()
				hashes, err = hr.ReadHashes(ix)
			}()
			l.Execs++
			l.Transitions++
			if msg != "" {
				return msg, true
			}
			if rd.badSave != "" {
				return fmt.Sprintf("SaveTiles was handed tile %s whose bytes are not the true tile", rd.badSave), err != nil
			}
			if err != nil {
				if len(faults) == 0 {
					return fmt.Sprintf("a read of %v served honestly failed: %v", ix, err), true
				}
				return "", true
			}
			for k, x := range ix {
				if hashes[k] != lg.Store[x] {
					return fmt.Sprintf("read of index %d succeeded with a hash that is not the true stored hash", x), false
				}
			}
			return "", false
		}
		for i := int64(0); i < count; i++ {
			_, probe, _ := one(lg, n, h, []int64{i}, nil, nil, nil, cache)
			for pos, t := range probe.fetched {
				for _, mi := range menu(t, true) {
					f := []faultT{{pos, mi.kind, mi.arg}}
					rd := &reader{lg: lg, n: n, h: h, cache: cache, zeroCopy: true}
					hr := tlog.TileHashReader(tree, rd)
					l.States++
					hist := fmt.Sprintf("faulted read of %d", i)
					msg, _ := read(hr, rd, []int64{i}, f)
					for j := int64(0); msg == "" && j <= count; j++ {
						x := j
						if j == count {
							x = i
						}
						hist = fmt.Sprintf("faulted read of %d, then honest read of %d", i, x)
						msg, _ = read(hr, rd, []int64{x}, nil)
					}
					if msg == "" && rd.zeroCopy {
						for t, d := range cache {
							if want, ok := world.TrueTile(lg, n, t); ok && d != nil && !bytes.Equal(want, d) {
								msg = fmt.Sprintf("tile data handed out by the TileReader (%s) was written to", t.Path())
								cache[t] = want
							}
						}
					}
					if msg != "" {
						l.Outcomes["reuse:VIOLATION"]++
						c := mkCase(n, h, []int64{i}, f, rd)
						c.Kind = "reuse"
						r.Violation(key("reuse", n, h, []int64{i}, f), "same TileHashReader, "+hist+": "+msg, c)
					} else {
						l.Outcomes["reuse:ok"]++
						l.Nontrivial++
					}
				}
			}
		}
	})
}

func Replay(r *fw.Run, raw json.RawMessage) {
	var c caseT
	json.Unmarshal(raw, &c)
	r.States.Add(1)
	r.Transitions.Add(1)
	r.Execs.Add(1)
	r.Sample(c)
	switch c.Kind {
	case "path":
		t, err := tlog.ParseTilePath(c.Path)
		if err == nil && refPath(t) != c.Path {
			r.Violation("parse", fmt.Sprintf("accepted %q as %+v", c.Path, t), c)
		}
	case "overlap":
		lg, _ := tlogx.Build(tlogx.Pattern(0, 64))
		overlapReads(r, lg)
	case "huge":
		hugeTiles(r)
	case "reuse":
		lg, _ := tlogx.Build(tlogx.Pattern(0, max(c.N, 1)))
		rd := &reader{lg: lg, n: c.N, h: c.H}
		hr := tlog.TileHashReader(tlog.Tree{N: int64(c.N), Hash: lg.Root(c.N)}, rd)
		rd.faults = c.Faults
		hr.ReadHashes(c.Indexes)
		if rd.badSave != "" {
			r.Violation("reuse", "SaveTiles was handed a tile that is not the true tile: "+rd.badSave, c)
			return
		}
		rd.faults = nil
		count := tlog.StoredHashCount(int64(c.N))
		for j := int64(0); j < count; j++ {
			h, err := hr.ReadHashes([]int64{j})
			if err != nil || len(h) != 1 || h[0] != lg.Store[j] || rd.badSave != "" {
				r.Violation("reuse", fmt.Sprintf("same TileHashReader after a faulted read of %v: honest read of %d gives err=%v (or a false hash / a bad save)", c.Indexes, j, err), c)
				return
			}
		}
	default:
		lg, _ := tlogx.Build(tlogx.Pattern(0, max(c.N, 1)))
		var pub *world.Publisher
		if c.Kind == "publisher" {
			pub = world.NewPublisher(c.H, c.Chain)
		}
		if msg, _, _ := one(lg, c.N, c.H, c.Indexes, c.Faults, pub, nil); msg != "" {
			r.Violation("read", msg, c)
		}
	}
}
