package main

import (
	"verif/props/c04"
)

func init() {
	props["C04"] = prop{c04.Run, c04.Replay}
}
