package main

import (
	"verif/props/c01"
	"verif/props/c02"
	"verif/props/c03"
	"verif/props/c04"
	"verif/props/c05"
	"verif/props/c06"
	"verif/props/c07"
	"verif/props/c08"
	"verif/props/c09"
	"verif/props/c10"
	"verif/props/c11"
	"verif/props/c12"
	"verif/props/c13"
	"verif/props/c14"
	"verif/props/c15"
	"verif/props/c16"
	"verif/props/c17"
	"verif/props/c18"
	"verif/props/c19"
	"verif/props/c20"
)

func init() {
	firsts["C11"] = c11.FirstCalls
	firsts["C04"] = c04.FirstCalls
	firsts["C06"] = c06.FirstCalls
	firsts["C18"] = c18.FirstCalls
	firsts["C19"] = c19.FirstCalls
	firsts["C07"] = c07.FirstCalls
	firsts["C02"] = c02.FirstCalls
	firsts["C09"] = c09.FirstCalls
	firsts["C10"] = c10.FirstCalls
	firsts["C05"] = c05.FirstCalls
	firsts["C20"] = c20.FirstCalls
	firsts["C16"] = c16.FirstCalls
	firsts["C17"] = c17.FirstCalls
	firsts["C12"] = c12.FirstCalls
	firsts["C01"] = c01.FirstCalls
	firsts["C03"] = c03.FirstCalls
	firsts["C08"] = c08.FirstCalls
	firsts["C15"] = c15.FirstCalls
	firsts["C13"] = c13.FirstCalls
	firsts["C14"] = c14.FirstCalls
	props["C01"] = prop{c01.Run, c01.Replay}
	props["C02"] = prop{c02.Run, c02.Replay}
	props["C03"] = prop{c03.Run, c03.Replay}
	props["C04"] = prop{c04.Run, c04.Replay}
	props["C05"] = prop{c05.Run, c05.Replay}
	props["C06"] = prop{c06.Run, c06.Replay}
	props["C07"] = prop{c07.Run, c07.Replay}
	props["C08"] = prop{c08.Run, c08.Replay}
	props["C09"] = prop{c09.Run, c09.Replay}
	props["C10"] = prop{c10.Run, c10.Replay}
	props["C11"] = prop{c11.Run, c11.Replay}
	props["C12"] = prop{c12.Run, c12.Replay}
	props["C13"] = prop{c13.Run, c13.Replay}
	props["C14"] = prop{c14.Run, c14.Replay}
	props["C15"] = prop{c15.Run, c15.Replay}
	props["C16"] = prop{c16.Run, c16.Replay}
	props["C17"] = prop{c17.Run, c17.Replay}
	props["C18"] = prop{c18.Run, c18.Replay}
	props["C19"] = prop{c19.Run, c19.Replay}
	props["C20"] = prop{c20.Run, c20.Replay}
}
