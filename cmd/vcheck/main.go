// vcheck dispatches one property's explorer.
package main

import (
	"encoding/json"
	"fmt"
	"os"
	"runtime"
	"runtime/pprof"
	"strings"
	"time"

	"verif/internal/enum"
	"verif/internal/fw"
)

type prop struct {
	run    func(*fw.Run)
	replay func(*fw.Run, json.RawMessage)
}

var props = map[string]prop{}

// firsts: per property, the menu of small calls used by the fresh-process call-order check.
var firsts = map[string]func() []fw.Call{}

func main() {
	if len(os.Args) < 3 {
		fmt.Fprintln(os.Stderr, "usage: vcheck <ID> quick|thorough | vcheck <ID> --replay <file>")
		os.Exit(2)
	}
	id := os.Args[1]
	p, ok := props[id]
	if !ok {
		fmt.Fprintln(os.Stderr, "unknown property", id)
		os.Exit(2)
	}
	if os.Args[2] == "--first" {
		// child of fw.FirstCallOrders: the calls named by index are the first ones this process makes
		f, ok := firsts[id]
		if !ok || len(os.Args) < 4 {
			fmt.Fprintln(os.Stderr, "no call menu for", id)
			os.Exit(2)
		}
		os.Exit(fw.RunFirstChild(f(), os.Args[3]))
	}
	if os.Args[2] == "--crashed" {
		// the exploring process died with a fatal runtime error (stack overflow, out of memory, concurrent
		// map writes, deadlock of all goroutines): that is a verdict about the code it was executing, not
		// a reason to end without one. The wrapper passes the tier and the file with the last output.
		tier, logf := "quick", ""
		if len(os.Args) > 3 {
			tier = os.Args[3]
		}
		if len(os.Args) > 4 {
			logf = os.Args[4]
		}
		r := fw.New(id, tier)
		r.ReplayMode = true // no resource check on this stub run
		tail, _ := os.ReadFile(logf)
		first := ""
		for _, ln := range strings.Split(string(tail), "\n") {
			if strings.HasPrefix(ln, "fatal error:") || strings.HasPrefix(ln, "panic:") || strings.HasPrefix(ln, "runtime:") {
				first = ln
				break
			}
		}
		r.Cap("the exploring process died: " + first)
		r.Violation("crash:"+first, "the process exploring this property died with a fatal runtime error while executing the code under test: "+first+" (output kept in "+logf+")", map[string]string{"kind": "crash", "first_line": first, "output_file": logf})
		os.Exit(r.Finish())
	}
	if os.Args[2] == "--replay" {
		if len(os.Args) < 4 || p.replay == nil {
			fmt.Fprintln(os.Stderr, "replay not available")
			os.Exit(2)
		}
		pid, _, c, err := fw.LoadReplay(os.Args[3])
		if err != nil || pid != id {
			fmt.Fprintln(os.Stderr, "bad replay file", err)
			os.Exit(2)
		}
		os.Setenv("VERIF_ROOT", fw.Root)
		r := fw.New(id, "quick")
		r.ReplayMode = true
		var fc struct {
			Kind  string   `json:"kind"`
			Calls []string `json:"calls"`
		}
		if f, ok := firsts[id]; ok && json.Unmarshal(c, &fc) == nil && fc.Kind == "first" && len(fc.Calls) > 0 {
			fw.FirstCallOrders(r, id, f(), fc.Calls)
			os.Exit(r.Finish())
		}
		p.replay(r, c)
		os.Exit(r.Finish())
	}
	tier := os.Args[2]
	if tier != "quick" && tier != "thorough" {
		fmt.Fprintln(os.Stderr, "tier must be quick or thorough")
		os.Exit(2)
	}
	if os.Getenv("VERIF_DEBUG") != "" {
		go func() {
			for {
				time.Sleep(3 * time.Second)
				var m runtime.MemStats
				runtime.ReadMemStats(&m)
				fmt.Fprintf(os.Stderr, "[debug] heap=%dMB sys=%dMB goroutines=%d\n", m.HeapAlloc>>20, m.Sys>>20, runtime.NumGoroutine())
				if os.Getenv("VERIF_DEBUG") == "prof" && m.HeapAlloc>>20 > 2000 {
					f, _ := os.Create("/tmp/heap.prof")
					pprof.WriteHeapProfile(f)
					f.Close()
					os.Exit(3)
				}
			}
		}()
	}
	r := fw.New(id, tier)
	enum.OnPanic = fw.Recover
	func() {
		defer fw.Recover()
		p.run(r)
	}()
	os.Exit(r.Finish())
}
