//go:build vsched

// vsched explores the interleavings of one scenario under the controlled scheduler
// (stateless depth-first search with replay and iterative preemption bounding).
// It is built with the generated -overlay (instrumented package sumdb + scheduler packages).
package main

import (
	"encoding/json"
	"flag"
	"fmt"
	"os"
	"sort"
	"strings"
	"time"

	"golang.org/x/mod/verifsched"

	"verif/props/c14/scen"
)

type exec struct {
	points  []verifsched.ChoicePoint
	choices []int // relative to the default schedule's order of alternatives (0 = default)
	raw     []int // indexes into ChoicePoint.Enabled: replayable without knowing the policy
	msg     string
	class   string
	res     verifsched.Result
	trace   []string
}

type out struct {
	Scenario    string            `json:"scenario"`
	Granularity string            `json:"granularity"`
	Bound       int               `json:"preemption_bound"`
	Executions  int64             `json:"executions"`
	Points      int64             `json:"scheduling_points"`
	MaxPoints   int               `json:"max_points_in_one_execution"`
	MaxThreads  int               `json:"max_threads"`
	Preempted   int64             `json:"executions_with_preemption"`
	Outcomes    map[string]int    `json:"outcomes"`
	Complete    bool              `json:"complete"`
	Cap         string            `json:"cap,omitempty"`
	Violation   string            `json:"violation,omitempty"`
	Known       map[string]knownT `json:"known_classes,omitempty"`
	Schedule    []int             `json:"schedule,omitempty"`
	Children    [][]int           `json:"children,omitempty"`
	Found       []int             `json:"found_schedule,omitempty"`
	Trace       []string          `json:"trace,omitempty"` // replay only: external operations and lookup results in order
	Labels      []string          `json:"schedule_labels,omitempty"`
	WallS       float64           `json:"wall_s"`
}

type knownT struct {
	Count    int    `json:"executions"`
	Message  string `json:"message"`
	Schedule []int  `json:"first_schedule"`
}

var (
	sc       scen.Scenario
	syncGran bool
	o        out
	deadline time.Time
	maxExec  int64
)

func runOnce(prefix []int) *exec {
	x := &exec{}
	last := 0 // id of the goroutine chosen at the previous point (round-robin policy)
	chooser := func(p verifsched.ChoicePoint) int {
		i := len(x.points)
		c := 0
		if i < len(prefix) {
			c = prefix[i]
			if c >= len(p.Enabled) {
				fmt.Fprintf(os.Stderr, "vsched: replay divergence at point %d (%s): choice %d of %d enabled\n", i, p.Label, c, len(p.Enabled))
				os.Exit(3)
			}
		}
		x.points = append(x.points, p)
		x.choices = append(x.choices, c)
		if roundRobin {
			// alternatives in cyclic id order after the goroutine that ran last: the default (choice 0)
			// hands the processor to the next goroutine at every scheduling point
			order := make([]int, len(p.Enabled))
			for k := range order {
				order[k] = k
			}
			key := func(id int) int {
				if id > last {
					return id - last
				}
				return id - last + 1<<30
			}
			sort.Slice(order, func(a, b int) bool { return key(p.Enabled[order[a]]) < key(p.Enabled[order[b]]) })
			c = order[c]
		}
		last = p.Enabled[c]
		x.raw = append(x.raw, c)
		return c
	}
	var env *scen.Env
	var results []scen.Res
	x.res = verifsched.Run(func() {
		pending := 0
		spawn := func(f func()) {
			pending++
			verifsched.Go(func() {
				defer func() { pending-- }()
				f()
			})
		}
		wait := func() {
			verifsched.Block(func() bool { return pending == 0 }, "driver wait")
		}
		scen.CurrentThread = verifsched.CurrentRoot
		env, results = scen.Exec(sc, spawn, wait, verifsched.Point)
	}, chooser, syncGran, 20000)
	switch {
	case x.res.Panic != "":
		x.msg = "panic: " + x.res.Panic
	case x.res.Deadlock:
		x.msg = fmt.Sprintf("deadlock: no enabled goroutine while %v are unfinished", x.res.Blocked)
	case x.res.Livelock:
		x.msg = "livelock guard: more than 20000 scheduling points"
	default:
		x.msg, x.class = scen.Check(sc, env, results)
	}
	if env != nil {
		for _, op := range env.Ops {
			x.trace = append(x.trace, fmt.Sprintf("c%d %s %s", op.Client, op.Kind, op.Arg))
		}
		for _, r := range results {
			x.trace = append(x.trace, fmt.Sprintf("result c%d %s@%s: %q err=%v", r.Lookup.Client, r.Lookup.Path, r.Lookup.Vers, r.Lines, r.Err))
		}
		for _, sh := range env.Served {
			x.trace = append(x.trace, fmt.Sprintf("served c%d %s head size %d %s", sh.Client, sh.Path, sh.Tree.N, sh.Tree.Hash.String()[:8]))
		}
	}
	return x
}

// preemptionsBefore counts the cost of the choices made before point i: preemptions (switching
// away from a goroutine that could continue) or, in deviation mode, every departure from the
// default choice (continue the running goroutine, else the lowest id), blocking points included.
func (x *exec) preemptionsBefore(i int) int {
	n := 0
	for j := 0; j < i; j++ {
		if (x.points[j].CurEnabled || deviationMode) && x.choices[j] != 0 {
			n++
		}
	}
	return n
}

var deviationMode bool

// roundRobin selects the second default schedule: switch to the next goroutine (cyclic id order) at every
// scheduling point, instead of letting the running goroutine continue. Deviations are counted against it.
var roundRobin bool

func record(x *exec) bool {
	o.Executions++
	o.Points += int64(len(x.points))
	if len(x.points) > o.MaxPoints {
		o.MaxPoints = len(x.points)
	}
	if x.res.Threads > o.MaxThreads {
		o.MaxThreads = x.res.Threads
	}
	if x.preemptionsBefore(len(x.points)) > 0 {
		o.Preempted++
	}
	if strings.HasPrefix(x.msg, "class:") {
		// a violation of a recorded finding class: remember the first schedule that shows it and go on
		// exploring, so that any other violation in the same tree is still found and reported
		i := strings.Index(x.msg, "|")
		cls := x.msg[:i]
		if o.Known == nil {
			o.Known = map[string]knownT{}
		}
		k := o.Known[cls]
		if k.Count == 0 {
			k.Message, k.Schedule = x.msg[i+1:], append([]int{}, x.raw...)
		}
		k.Count++
		o.Known[cls] = k
		o.Outcomes["KNOWN "+cls]++
		return true
	}
	if x.msg != "" {
		// determinism: the same schedule must fail the same way twice more
		for k := 0; k < 2; k++ {
			y := runOnce(x.choices)
			if y.msg != x.msg {
				fmt.Fprintf(os.Stderr, "vsched: nondeterministic failure: %q vs %q\n", x.msg, y.msg)
				os.Exit(3)
			}
		}
		o.Violation = x.msg
		o.Schedule = x.raw
		for _, p := range x.points {
			o.Labels = append(o.Labels, p.Label)
		}
		return false
	}
	o.Outcomes[x.class]++
	if findClass != "" && strings.Contains(x.class, findClass) && o.Found == nil {
		o.Found = append([]int{}, x.raw...)
	}
	return true
}

var findClass string

var planOnly bool

func explore(prefix []int, bound int) bool {
	if o.Cap != "" {
		return true
	}
	if time.Now().After(deadline) {
		o.Cap = "time limit"
		return true
	}
	if maxExec > 0 && o.Executions >= maxExec {
		o.Cap = fmt.Sprintf("execution cap %d", maxExec)
		return true
	}
	x := runOnce(prefix)
	if !record(x) {
		return false
	}
	for i := len(prefix); i < len(x.points); i++ {
		p := x.points[i]
		cost := x.preemptionsBefore(i)
		if p.CurEnabled || deviationMode {
			cost++
		}
		if bound >= 0 && cost > bound {
			continue
		}
		for alt := 1; alt < len(p.Enabled); alt++ {
			child := append(append([]int{}, x.choices[:i]...), alt)
			if planOnly {
				o.Children = append(o.Children, child)
				continue
			}
			if !explore(child, bound) {
				return false
			}
		}
	}
	return true
}

func main() {
	name := flag.String("scenario", "", "scenario name")
	gran := flag.String("gran", "ops", "ops | sync")
	bound := flag.Int("bound", 2, "preemption bound (-1 = unbounded)")
	limit := flag.Duration("time", 60*time.Second, "time limit")
	replay := flag.String("replay", "", "comma separated schedule to replay instead of exploring")
	flag.Int64Var(&maxExec, "maxexec", 0, "execution cap")
	prefixFlag := flag.String("prefix", "", "comma separated choice prefix: explore only the subtree below it")
	flag.BoolVar(&deviationMode, "deviations", false, "bound every departure from the default schedule (delay bounding), not only preemptions")
	flag.BoolVar(&roundRobin, "rr", false, "default schedule = round robin (implies -deviations)")
	flag.StringVar(&findClass, "find", "", "debugging aid: report the first schedule whose outcome class contains this text")
	flag.BoolVar(&planOnly, "plan", false, "run the prefix execution only and list its child prefixes")
	flag.Parse()
	var ok bool
	sc, ok = scen.Find(*name)
	if !ok {
		fmt.Fprintln(os.Stderr, "unknown scenario", *name)
		os.Exit(2)
	}
	syncGran = *gran == "sync"
	if roundRobin {
		deviationMode = true
	}
	o = out{Scenario: *name, Granularity: *gran, Bound: *bound, Outcomes: map[string]int{}}
	start := time.Now()
	deadline = start.Add(*limit)
	if *replay != "" {
		var pre []int
		for _, s := range strings.Split(*replay, ",") {
			var v int
			fmt.Sscan(s, &v)
			pre = append(pre, v)
		}
		x := runOnce(pre)
		o.Executions = 1
		o.Violation = x.msg
		o.Schedule = x.raw
		if x.class != "" {
			o.Outcomes[x.class]++
		}
		for _, p := range x.points {
			o.Labels = append(o.Labels, p.Label)
		}
		o.Trace = x.trace
	} else {
		var pre []int
		if *prefixFlag != "" {
			for _, s := range strings.Split(*prefixFlag, ",") {
				var v int
				fmt.Sscan(s, &v)
				pre = append(pre, v)
			}
		}
		o.Complete = explore(pre, *bound) && o.Cap == ""
	}
	o.WallS = time.Since(start).Seconds()
	b, _ := json.Marshal(o)
	fmt.Println(string(b))
}
