// vrace runs the C14 scenarios free-running (real goroutines, real sync) so that the race
// detector can observe unsynchronised accesses. It is built with -race and without overlay.
// This pass is sampling, not exhaustive; it can only raise true alarms.
package main

import (
	"encoding/json"
	"flag"
	"fmt"
	"sync"

	"verif/props/c14/scen"
)

func main() {
	reps := flag.Int("reps", 200, "repetitions per scenario")
	flag.Parse()
	type out struct {
		Runs      int            `json:"runs"`
		Outcomes  map[string]int `json:"outcomes"`
		Violation string         `json:"violation,omitempty"`
		Scenario  string         `json:"scenario,omitempty"`
	}
	o := out{Outcomes: map[string]int{}}
	for _, sc := range append(scen.All(), scen.Big()...) {
		n := *reps
		if sc.Grow > 0 {
			n = n/30 + 1 // building a large log dominates: a few repetitions only
		}
		for i := 0; i < n; i++ {
			var wg sync.WaitGroup
			spawn := func(f func()) {
				wg.Add(1)
				go func() { defer wg.Done(); f() }()
			}
			env, res := scen.Exec(sc, spawn, wg.Wait, nil)
			o.Runs++
			msg, class := scen.Check(sc, env, res)
			if msg != "" && o.Violation == "" {
				o.Violation, o.Scenario = msg, sc.Name
			}
			o.Outcomes[sc.Name+": "+class]++
		}
	}
	b, _ := json.Marshal(o)
	fmt.Println(string(b))
}
