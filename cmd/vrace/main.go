// vrace runs the C14 scenarios free-running (real goroutines, real sync) so that the race
// detector can observe unsynchronised accesses. It is built with -race and without overlay.
// This pass is sampling, not exhaustive; it can only raise true alarms.
package main

import (
	"encoding/json"
	"flag"
	"fmt"
	"os"
	"sync"
	"time"

	"verif/props/c14/scen"
)

func main() {
	reps := flag.Int("reps", 200, "repetitions per scenario")
	stall := flag.Duration("stall", 2*time.Minute, "give up (no verdict) when one execution takes longer than this")
	flag.Parse()
	type out struct {
		Runs      int            `json:"runs"`
		Outcomes  map[string]int `json:"outcomes"`
		Violation string         `json:"violation,omitempty"`
		Scenario  string         `json:"scenario,omitempty"`
		Stalled   string         `json:"stalled,omitempty"`
	}
	o := out{Outcomes: map[string]int{}}
	for _, sc := range append(append(scen.All(), scen.Big()...), scen.Wide()...) {
		n := *reps
		if sc.Grow > 0 {
			n = n/30 + 1 // building a large log dominates: a few repetitions only
		}
		if len(sc.Threads) > 8 {
			n = n/10 + 1
		}
		for i := 0; i < n; i++ {
			var wg sync.WaitGroup
			spawn := func(f func()) {
				wg.Add(1)
				go func() { defer wg.Done(); f() }()
			}
			var env *scen.Env
			var res []scen.Res
			done := make(chan struct{})
			go func() {
				env, res = scen.Exec(sc, spawn, wg.Wait, nil)
				close(done)
			}()
			select {
			case <-done:
			case <-time.After(*stall):
				o.Stalled = fmt.Sprintf("a free-running execution of scenario %s did not end within %v; the pass stopped there", sc.Name, *stall)
				b, _ := json.Marshal(o)
				fmt.Println(string(b))
				os.Exit(0)
			}
			o.Runs++
			msg, class := scen.Check(sc, env, res)
			if msg != "" && o.Violation == "" {
				o.Violation, o.Scenario = msg, sc.Name
			}
			o.Outcomes[sc.Name+": "+class]++
		}
	}
	b, _ := json.Marshal(o)
	fmt.Println(string(b))
}
